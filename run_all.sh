#!/bin/bash
# convenience: run every check's quick tier, print one line each
tier=${1:-quick}; seed=${2:-1}
for i in $(seq -w 1 20); do
  id=C$i; t0=$(date +%s.%N)
  out=$(./check $id --tier $tier --seed $seed 2>&1); rc=$?
  t1=$(date +%s.%N)
  printf "%s rc=%s %.1fs %s\n" $id $rc $(echo "$t1 - $t0" | bc) "$(echo "$out" | grep -E '^(VIOLATION|INCONCLUSIVE|KNOWN)' | head -2 | tr '\n' ' ')"
done
