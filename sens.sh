#!/bin/bash
export VERIF_EVIDENCE_DIR=/verif/work/mutation-evidence; mkdir -p $VERIF_EVIDENCE_DIR
# Sensitivity pass: each line = check | file under /repo | sed expression (a deliberate break of the
# property). Applies, runs the check's quick tier, reverts. Prints one line per mutant.
# Usage: sens.sh [filter]   (never leaves /repo modified)
cd /verif
while IFS='|' read -r chk file expr; do
  [ -z "$chk" ] && continue
  case "$chk" in \#*) continue;; esac
  if [ -n "$1" ] && [[ "$chk" != *"$1"* ]]; then continue; fi
  sed -i "$expr" /repo/$file
  if git -C /repo diff --quiet; then echo "$chk | $file | $expr | NO-CHANGE"; continue; fi
  t0=$(date +%s)
  out=$(./check $chk 2>&1)
  v=$(echo "$out" | grep -E '^(VIOLATION|OK|INCONCLUSIVE|BUILD-FAILED)' | head -1 | cut -c1-40)
  sig=$(echo "$out" | grep -E 'signature=' | head -1 | sed 's/.*signature=//' | cut -c1-70)
  echo "$chk | $expr | $v | $sig | $(( $(date +%s) - t0 ))s"
  git -C /repo checkout -- .
done <<'LIST'
C02|src/channel.rs|s/            mandatory: publish.mandatory,/            mandatory: publish.immediate,/
C02|src/io_loop/channel_handle.rs|s/            .send_content_header(class_id, content.len(), properties)?;/            .send_content_header(class_id, self.frame_max.min(content.len() + 1), properties)?;/
C02|src/io_loop/channel_handle.rs|s/        if !content.is_empty() {/        if true {/
C03|src/io_loop/content_collector.rs|s/                    Ordering::Less => {/                    Ordering::Greater => {/
C03|src/delivery.rs|s/                redelivered: deliver.redelivered,/                redelivered: !deliver.redelivered,/
C03|src/frame_buffer.rs|s/                    self.buf.advance(frame_size);/                    self.buf.advance(frame_size); if frame_size == 4000 { self.buf.advance(0); }/
C04|src/channel.rs|s/            Some(ok.message_count),\n            Some(ok.consumer_count),/X/
C04|src/channel.rs|s/            .map(|ok| ok.message_count)/            .map(|ok| ok.message_count \& 0xffff)/
C05|src/frame_buffer.rs|s/                Ok(0) => return UnexpectedSocketCloseSnafu.fail(),/                Ok(0) => return Ok(bytes_read),/
C05|src/io_loop/mod.rs|s/                    _ => return Err(err).context(IoErrorWritingSocketSnafu),/                    _ => return Ok(()),/
C06|src/frame_buffer.rs|s/            Some(size as usize + 8)/            Some(size as usize + 7)/
C06|src/frame_buffer.rs|s/                if bytes.len() >= frame_size {/                if bytes.len() > frame_size {/
C06|src/frame_buffer.rs|s/                    reserve = usize::max(MIN_READ, frame_size);/                    reserve = MIN_READ;/
C07|src/io_loop/connection_state.rs|s/                self.client_exception(inner, AMQPHardError::NOTALLOWED, text)?;/                self.client_exception(inner, AMQPHardError::NOTIMPLEMENTED, text)?;/
C07|src/io_loop/connection_state.rs|s/                    Entry::Occupied(_) => {/                    Entry::Occupied(_) if false => {/
C08|src/io_loop/mod.rs|s/                self.outbuf.append(buf);\n                self.seal_writes();/X/
C08|src/io_loop/connection_state.rs|s/                    send(\&tx, Err(Error::ClientClosedConnection))?;/                    send(\&tx, Err(Error::ClientClosedChannel))?;/
C08|src/io_loop/connection_state.rs|s/                        send(\&consumer_tx, ConsumerMessage::ClientClosedConnection)?;/                        send(\&consumer_tx, ConsumerMessage::ClientClosedChannel)?;/
C09|src/io_loop/connection_state.rs|s/                inner.push_method(n, AmqpChannel::CloseOk(ChannelCloseOk {}));/                inner.push_method(0, AmqpChannel::CloseOk(ChannelCloseOk {}));/
C09|src/io_loop/connection_state.rs|s/                let slot = slot_remove(inner, n)?;\n                let make_err = || Error::ServerClosedChannel {\n                    channel_id: n,/X/
C10|src/io_loop/channel_slots.rs|s/        if channel_id == 0 || channel_id > self.channel_max {/        if channel_id == 0 || channel_id >= self.channel_max {/
C10|src/io_loop/channel_slots.rs|s/        self.freed_channel_ids.insert(channel_id);\n        Some(entry)/X/
C11|src/io_loop/connection_state.rs|s/                if !cancel.nowait {/                if cancel.nowait {/
C11|src/consumer.rs|s/        self.cancelled.set(true);/        self.cancelled.set(false);/
C12|src/queue.rs|s/            if_unused: self.if_unused,/            if_unused: self.if_empty,/
C12|src/exchange.rs|s/            durable: self.durable,/            durable: self.auto_delete,/
C12|src/channel.rs|s/            .exchange_bind(destination.name(), self.name(), routing_key, arguments)/            .exchange_bind(self.name(), destination.name(), routing_key, arguments)/
C13|src/io_loop/connection_state.rs|s/                try_send_confirm(slot, Confirm::Ack(confirm));/                try_send_confirm(slot, Confirm::Nack(confirm));/
C13|src/io_loop/connection_state.rs|s/                    multiple: nack.multiple,/                    multiple: false,/
C15|src/connection_options.rs|s/        let channel_max = u16::min(chan_max0, chan_max1);/        let channel_max = u16::max(chan_max0, chan_max1);/
C15|src/connection_options.rs|s/        if frame_max < u32::from(FRAME_MIN_SIZE) {/        if frame_max <= u32::from(FRAME_MIN_SIZE) {/
C15|src/io_loop/mod.rs|s/        self.inner.chan_slots.set_channel_max(channel_max);/        self.inner.chan_slots.set_channel_max(channel_max.saturating_add(1));/
C16|src/connection_options.rs|s/            server.split(' ').any(|s| s == client)/            server.split(' ').any(|s| s.contains(client))/
C16|src/connection_options.rs|s/        set_cap("connection.blocked");/        set_cap("connection.block");/
C17|src/io_loop/heartbeat_timers.rs|s/const MAX_MISSED_SERVER_HEARTBEATS: u32 = 2;/const MAX_MISSED_SERVER_HEARTBEATS: u32 = 1;/
C17|src/io_loop/heartbeat_timers.rs|s/const MAX_MISSED_SERVER_HEARTBEATS: u32 = 2;/const MAX_MISSED_SERVER_HEARTBEATS: u32 = 3;/
C17|src/io_loop/mod.rs|s/        if n > 0 {/        if n > 4096 {/
C18|src/io_loop/mod.rs|s/                \&\& self.inner.outbuf.len() <= self.buffered_writes_low_water/                \&\& self.inner.outbuf.len() < self.buffered_writes_low_water/
C19|src/connection.rs|s/                url.set_port(Some(url.port().unwrap_or(5672)))/                url.set_port(Some(url.port().unwrap_or(5671)))/
C19|src/connection.rs|s/                password: percent_decode(url.password().unwrap_or("guest")).to_string(),/                password: percent_decode(url.password().unwrap_or(username)).to_string(),/
C19|src/connection.rs|s/            if vhost != "" {/            if vhost != "" \&\& vhost != "%2f" {/
C20|src/io_loop/mod.rs|s/                    \/\/ still-pending readable event from poll. Bail out now without an error;/                    if channel_id == 1 { return EventLoopClientDroppedSnafu.fail(); }/
LIST
