#!/usr/bin/env python3
"""Round 4 of seeded changes (see DESIGN.md section 12): copies each delivery into seeded/<name>/,
writes meta.json and prints the table."""
import json, os, shutil
BASE = "c12e6d0"
S = [
 ("C01","C01-r4-cancel-flag-never-set","C01","Consumer::cancel no longer sets its `cancelled` flag: cancel + drop (or cancel twice) writes Basic.Cancel two or three times","consume, explicit cancel, drop; wire compared with the operations issued","C01 (frames per channel differ from the program's), C11 (basic-cancel-sent-more-than-once)","caught as built"),
 ("C02","C02-r4-heartbeat-prepended-to-backlog","C02","when the tx heartbeat timer fires with output queued the heartbeat frame is put at the FRONT of the buffer - inside a frame if the head was cut by a short write","heartbeats on, a backlog whose head is mid-frame, transport stalled for one interval","C02 (outbound-stream-not-whole-frames / close-failed), C17","prepared before the first evaluation from the agent's summary: about one C02 session in a hundred runs with a 1 s heartbeat and the transport stalled for 1.3 s inside the first publish"),
 ("C03","C03-r4-empty-return-with-dropped-listener-fatal","C03","a returned message with an empty body goes through the generic `send` instead of try_send_return: with a dropped return listener the I/O thread dies","return listener dropped, server returns a message with an empty body, anything afterwards","C03 (connection-failed), C13","prepared before the first evaluation: per channel the return listener may now be dropped right after registration (before, a channel without listener got no returns at all)"),
 ("C04","C04-r4-connection-timeout-stays-armed","C04","connection_timeout is not cleared after the handshake: an established connection that is silent for longer than the timeout ends","connection_timeout set, a reply that takes longer than it, no heartbeat tick in between","C04 (connection-failed)","prepared before the first evaluation: one C04 session in twelve opens with connection_timeout 30 ms against a broker that withholds replies for 80 ms"),
 ("C05","C05-r4-caller-released-before-consumers-on-server-close","C05","server Connection.Close: the pending caller's error is sent before the channel's consumers are notified; a caller that drops a consumer at once races the I/O thread","a Consumer::cancel in flight on a channel with thousands of consumers when the server closes; the consumer dropped as soon as cancel fails","C08 (server-close-result); C05 does not generate it","missed at first by both -> C08 threads own 0-2, in one session of sixteen 2500-4500, consumers as objects and race Consumer::cancel against the close, dropping the consumer whose cancel fails (this also made the broker's consumer tags unique by construction: with thousands of consumers its 32-bit tags collided)"),
 ("C06","C06-r4-early-frames-replayed-in-reverse","C06","the frames read together with OpenOk (fix c12e6d0) are replayed with pop(): reverse order","two or more non-heartbeat frames right behind OpenOk in one read, order observable (Blocked then Close)","C06 part session (server-close-not-reported)","caught as built (round-2 part)"),
 ("C07","C07-r4-nowait-server-cancel-keeps-consumer","C07","a server Basic.Cancel with nowait only notifies the consumer; the removal moved into the !nowait branch","server cancel nowait, then a delivery for that tag","C07 (message-differs-from-compliant-reading)","caught as built"),
 ("C08","C08-r4-done-at-low-water-while-server-closing","C08","is_connection_done in ServerClosing / ClientException: buffer <= buffered_writes_low_water instead of empty - CloseOk is never written when the mark is > 0","server-initiated close on a connection tuned with buffered_writes_low_water > 0","C08 (close-ok-not-last-frame)","prepared before the first evaluation: a third of the C08 sessions run with a low-water mark of 12 bytes or 1 MiB"),
 ("C09","C09-r4-unknown-reply-code-rejected","C09","server Channel.Close whose reply code is not in the spec's error table (200, non-standard codes) is rejected with FrameUnexpected before the teardown","Channel.Close with reply code 200 or any non-standard code","C09 (connection-failed; committed replays)","caught as built (arbitrary 16-bit reply codes)"),
 ("C10","C10-r4-saturating-cursor","C10","never-used cursor advances with saturating_add (same change as round 1)","channel_max 65535, id 65535 open, all ids used","C10 (open-or-close-never-returns)","caught"),
 ("C11","C11-r4-drop-cancels-nowait","C11","Drop for Consumer sends Basic.Cancel with nowait: no CancelOk, hence no ClientCancelled and the queue never ends","consumer dropped without explicit cancel, queue observed afterwards, broker honouring nowait","C11 (connection-killed-by-consumer-drop / terminal missing)","caught as built"),
 ("C12","C12-r4-sealed-drain-noop","C12","drain_written does nothing once sealed (fourth delivery of this change)","backlog + close + partial write after the seal","C01, C02, C08; C12 does not decide it","a byte-stream defect, not a method-construction defect: C12's programs run on an unrestricted transport; no C12 scenario was added"),
 ("C13","C13-r4-return-listener-bounded-1024","C13","listen_for_returns creates a bounded(1024) queue: the 1025th unread return is discarded and the listener detached","more than 1024 returns on a channel before the listener reads","C13 (listener-missed-event)","prepared before the first evaluation: bursts of 1030-3000 returns, acks or blocked notices that stay unread until the end of the history"),
 ("C14","C14-r4-drop-stops-at-own-tag","C14","Iter::drop stops once expected passed the payload's own tag: a follower already pulled out of the map is lost","iterator dropped early with an individually confirmed follower stored","C14 (emission-missing-or-late)","caught as built"),
 ("C15","C15-r4-timers-from-client-option","C15","start_heartbeats(options.heartbeat) (same as round 1)","server proposes a lower or zero heartbeat","C15 part hb-timing","caught"),
 ("C16","C16-r4-zero-timeout-means-none","C16","connection_timeout(Some(0)) is filtered to None","zero timeout and a server that falls silent","C16 (handshake-hang)","prepared before the first evaluation: one case in fourteen uses a zero timeout (ConnectionTimeout is then acceptable at any point, InvalidCredentials while waiting for the reply to StartOk, and a silent server must produce it)"),
 ("C17","C17-r4-timers-from-client-option","C17","same change as C15-r4, delivered for C17","server proposes a lower or zero heartbeat","C17 (heartbeat-sent-although-disabled / late)","caught"),
 ("C18","C18-r4-resume-skipped-without-channels","C18","reregister_nonzero_channels returns early when no channel is open, skipping channels_are_registered = true (variant of round 3's C18)","throttle, server closes every channel, drain, open a channel","C18 (channel-opened-after-stall-never-works)","caught (round-3 strengthening)"),
 ("C19","C19-r4-plus-means-space-in-userinfo","C19","user, password and vhost are form-decoded: a literal '+' becomes a space","a literal '+' in user, password or vhost","C19 parts decode and loopback (url-credentials)","prepared before the first evaluation: 40 % of the URLs write RFC 3986 sub-delims literally instead of percent-encoding them"),
 ("C20","C20-r4-explicit-reopen-keeps-freed-entry","C20","explicit insert no longer removes the id from the freed list (variant of round 3's C20)","explicit reopen of a released id, later automatic allocation from the freed list","C10 part model; C20 does not decide it","a channel-id-table defect whose trigger needs history beyond a four-event batch; C10's subject"),
]
rows=[]
for wt,name,prop,chg,needs,caught,note in S:
    d=os.path.join('/verif/seeded',name)
    os.makedirs(d,exist_ok=True)
    src=os.path.join('/tmp/seed',wt,'SEEDED')
    if os.path.isdir(src):
        for f in ('patch.diff','demo.diff','NOTES.md'):
            if os.path.exists(os.path.join(src,f)):
                shutil.copy(os.path.join(src,f),os.path.join(d,f))
    meta={"round":4,"property":prop,"change":chg,"needs_to_manifest":needs,"base_commit":BASE,
          "confirmed":"in the sub-agent's scratch worktree /tmp/seed/%s (confirm.sh): HEAD+demo.diff passes, HEAD+demo.diff+patch.diff fails in the demonstration only, HEAD+patch.diff passes the 40 unit tests and 10 doc tests"%wt,
          "ran":"seed_apply.sh: git -C /repo apply patch.diff; ./check <ids>; git -C /repo checkout -- .",
          "caught_by":caught,"history":note}
    json.dump(meta,open(os.path.join(d,'meta.json'),'w'),indent=1)
    rows.append("| %s | %s | %s | %s | %s |"%(name,prop,needs,caught,note))
print("| seeded change (round 4) | property | needs | caught by | history |\n|---|---|---|---|---|")
print("\n".join(rows))
