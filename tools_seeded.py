#!/usr/bin/env python3
"""Writes seeded/<name>/meta.json and prints the DESIGN.md table of which checks catch which seeded change."""
import json, os
HEAD = os.popen("git -C /repo log -1 --format=%h").read().strip()
S = [
 # name, property, summary of change, what it needs to manifest, caught_by (after strengthening), missed_before / note
 ("C01-drain-skipped-when-sealed","C01","SealableOutputBuffer::drain_written is skipped once the buffer is sealed (src/serialize.rs)","a short write followed by WouldBlock while the close frame (or the backlog before it) is being flushed after the seal","C01 (outbound-stream-not-whole-frames), C02 (fragmenting transport through close), C08 (trickle at close: trailing partial frame)","first run: C01 caught it but took 8 min (a broker busy-wait, fixed); C02 and C08 missed it -> C02 got cycled write scripts, C08 a trickle of small grants at the moment of closing"),
 ("C02-drain-skipped-when-sealed","C02","same change as C01-drain-skipped-when-sealed, delivered independently for C02","backlog + close while writes are pending + a partial write after sealing","C02, C08, C01","see C01-drain-skipped-when-sealed"),
 ("C03-consumer-queue-bounded","C03","per-consumer delivery queue bounded(65535) instead of unbounded (connection_state.rs)","one consumer with >= 65536 unread deliveries","C03 part flood (undrained-consumer-delays-others)","missed at first (undrained consumers had <= 30 messages; the e2e part additionally leaked consumers and was OOM-killed under the mutation) -> new part `flood` with backlogs at powers of two +-1 up to 2^17, and the e2e part no longer leaks consumers"),
 ("C04-delete-nowait-flag","C04","Channel::queue_delete_nowait sends nowait=false","queue_delete_nowait followed by a synchronous call on the same channel, broker honouring the flag","C04, C12 (frame-mismatch:Queue.Delete), C01","caught as built"),
 ("C05-heartbeat-ignored-while-closing","C05","HEARTBEAT wake-ups are ignored in the closing states (io_loop/mod.rs)","heartbeats on + server close / client exception + output cannot be flushed + silent peer","C05 (fault StalledClosingThenSilent: connection-did-not-end-after-fault)","missed at first -> new fault variant: transport stalled, server close or forced client exception, then silence with a 1 s heartbeat"),
 ("C06-parse-size-guard","C06","parse_size guard compares with the range length (4) instead of its end (7) (frame_buffer.rs)","a read boundary + would-block leaving 4-6 bytes of a frame header","C06 (frame-buffer-panic)","caught as built"),
 ("C07-overrun-across-frames","C07","body overrun only rejected when a single frame exceeds the announced size","an overrun spread over >= 2 body frames","C07 part collector (collector-accepted-violation)","caught as built"),
 ("C08-heartbeat-after-close","C08","SealableOutputBuffer::push_heartbeat ignores the seal","heartbeats on, client close, server takes > 1 heartbeat interval to answer CloseOk","C08 (client-close-not-last-frame)","missed at first (C08 ran without heartbeats) -> new follow-up SlowCloseOk with a 1 s heartbeat"),
 ("C09-closeok-for-removed-slot","C09","Channel.CloseOk for a channel without slot is an error instead of being tolerated","client's Channel.Close crossing the server's Channel.Close, server answering CloseOk","C09 (indirectly), C11 event CrossedCloseChannel","caught by C09 as built via the reopen step; C11 got an explicit crossed-close event"),
 ("C10-saturating-cursor","C10","never-used cursor advances with saturating_add: endless scan at channel_max 65535 with id 65535 open","channel_max 65535, id 65535 open, all ids used once","C10 (open-or-close-never-returns)","the model check had no op-level watchdog (the run would have ended as inconclusive) -> large tables now run under a 20 s watchdog"),
 ("C11-cancelok-unknown-tag","C11","CancelOk for an unregistered tag is UnknownConsumerTag (fatal)","server cancel of a consumer, then client cancel / drop of it answered with CancelOk","C11 (connection-killed-by-consumer-drop)","caught as built"),
 ("C12-nack-multiple-args","C12","basic_nack parameter order changed, nack_multiple call site not updated","nack_multiple with requeue = false","C12 (frame-mismatch:Basic.Nack; also in the enumerated settle variants)","caught as built"),
 ("C13-return-drop-clears-confirm","C13","a failed send to the return listener clears the confirm listener","confirm listener alive, return listener dropped, then a return, then a confirm","C13 (listener-missed-event)","caught as built"),
 ("C14-drop-stops-early","C14","Iter::drop stops draining once expected passed the payload tag","iterator dropped early while successors are stashed","C14 (emission-missing-or-late; enumerated)","caught as built"),
 ("C15-timers-use-client-option","C15","heartbeat timers started with the client's option instead of the negotiated value","server proposes a lower or zero heartbeat; behaviour watched over > 1 interval","C15 part hb-timing, C17","C15 delegated this clause to C17 at first -> C15 got its own hb-timing part (C17's oracle on differing client/server options)"),
 ("C16-state-commit-after-process","C16","Secure->Tune state committed only after processing the frame: errors after StartOk mapped to InvalidCredentials","first frame after StartOk is neither a usable Tune nor Secure (OpenOk, second Start, Tune with frame_max < 4096)","C16 (handshake-wrong-error)","caught as built"),
 ("C18-flag-not-restored","C18","reregister_nonzero_channels does not restore channels_are_registered","stall past high water, drain, then open a new channel","C18 (channel-opened-after-stall-never-works)","missed at first -> the session now opens and uses a channel after the throttle episode"),
 ("C19-double-decode-user","C19","URL user name percent-decoded twice","user name containing %25 followed by two hex digits","C19 parts decode and loopback","missed at first with high probability -> generators now include strings that look like percent escapes"),
 ("C20-pending-requests-processed-on-close","C20","requests still queued on a channel are processed inside the server Channel.Close arm (unwrap on the removed slot)","server Channel.Close(n) and a listener registration on n in one poll batch, close first","C20 (io-thread-panic)","caught as built"),
]
rows=[]
for name,prop,chg,needs,caught,note in S:
    d=os.path.join('/verif/seeded',name)
    os.makedirs(d,exist_ok=True)
    meta={"property":prop,"change":chg,"needs_to_manifest":needs,"base_commit":HEAD,
          "confirmed":"in the sub-agent's scratch worktree /tmp/seed/%s: HEAD+demo.diff passes, HEAD+demo.diff+patch.diff fails, HEAD+patch.diff passes the 40 unit tests and 10 doc tests (seed_eval.sh)"%prop,
          "ran":"git -C /repo apply patch.diff; ./check <ids>; git -C /repo checkout -- .",
          "caught_by":caught,"history":note}
    json.dump(meta,open(os.path.join(d,'meta.json'),'w'),indent=1)
    rows.append("| %s | %s | %s | %s | %s |"%(name,prop,needs,caught,note))
print("| seeded change | property | needs | caught by | history |\n|---|---|---|---|---|")
print("\n".join(rows))
