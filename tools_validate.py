#!/usr/bin/env python3
"""Validate MANIFEST.json and evidence/*.json against the schemas (uses the tooling venv)."""
import json, sys, glob, jsonschema
ok = True
ms = json.load(open('/root/.vp/MANIFEST.schema.json'))
es = json.load(open('/root/.vp/EVIDENCE.schema.json'))
try:
    jsonschema.validate(json.load(open('/verif/MANIFEST.json')), ms); print('MANIFEST ok')
except Exception as e:
    ok = False; print('MANIFEST INVALID', str(e)[:300])
for f in sorted(glob.glob('/verif/evidence/*.json')):
    try:
        jsonschema.validate(json.load(open(f)), es); print(f, 'ok')
    except Exception as e:
        ok = False; print(f, 'INVALID', str(e)[:300])
sys.exit(0 if ok else 1)
