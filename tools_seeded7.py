#!/usr/bin/env python3
"""Round 7 of seeded changes (eight properties; see DESIGN.md section 12)."""
import json, os
BASE = "c12e6d0"
S = [
 ("C01-r7-lazy-compaction-stale-offset","C01","write_to_stream compacts outbuf lazily and keeps the written offset in a new field that the drain branch never resets: the next write starts at a stale offset and skips queued bytes","two would-block episodes within one unflushed backlog, the first with the written prefix smaller than the remainder, a later one with the prefix at least as large","C01 part e2e (outbound-stream-not-whole-frames; case-watchdog)","caught as built"),
 ("C04-r7-delete-nowait-if-empty-asks-for-reply","C04","QueueDeleteOptions::into_delete sends nowait && !if_empty: a delete_nowait with if_empty still asks for DeleteOk, which the next synchronous call on the channel takes as its own reply","queue delete_nowait with if_empty = true, then a synchronous call on the same channel","C04 part e2e (call-failed, connection-killed); C12 part e2e (frame-mismatch:Queue.Delete)","caught as built"),
 ("C07-r7-empty-body-frame-skips-state-check","C07","ContentCollector::collect_body returns Ok(None) for an empty body frame before looking at its state: an out-of-sequence empty body frame is swallowed","a zero-length body frame with no content outstanding, or between a method and its header","C07 part collector (collector-accepted-violation)","caught as built"),
 ("C10-r7-freed-id-kept-when-above-counter","C10","ChannelSlots::insert drops an explicitly opened id from the freed set only when it lies below the never-used counter","open(Some(k)) with k at or above the counter, close, open(Some(k)) again, then automatic opens until the counter has passed channel_max and one more","C10 parts model (auto-open-panics-freed-id-occupied) and e2e (io-thread-panic)","caught as built"),
 ("C11-r7-last-delivery-sender-cache-survives-server-cancel","C11","each channel slot caches tag and sender of its last delivery; the client-cancel path clears the cache, the server-cancel path does not: the queue gets ServerCancelled but stays connected as long as the channel is open, and a later delivery under that tag goes to the ended consumer","a delivery to a consumer, then a server Basic.Cancel of that consumer, observed while the channel is still open","C11 part e2e (queue-still-connected-while-channel-open)","missed at first: the receivers were read once the session was over, when every slot (and the cached sender with it) had been torn down, and the tag-reuse sessions did not hit delivery -> server cancel -> consume again -> delivery within the quick budget -> the driver now probes the queue live, right behind the barrier that follows a server cancel or an explicit client cancel: it must be disconnected then (messages taken by the probe are handed to the final oracle first)"),
 ("C13-r7-discarded-confirm-clears-return-listener","C13","try_send_confirm on a disconnected confirm listener clears slot.return_handler instead of slot.pub_confirm_handler","live return listener, confirm listener dropped or never registered, a server ack or nack, then a Basic.Return","C13 part e2e (listener-missed-event)","caught as built"),
 ("C15-r7-heartbeat-zero-promoted-on-server-side","C15","make_tune_ok negotiates the heartbeat through the helper that promotes 0 to the maximum, guarded only for the client's 0: a server heartbeat of 0 with a client value > 0 yields the client's value","server Tune.heartbeat = 0 and client heartbeat != 0","C15 parts negotiate (tune-ok-heartbeat) and e2e (wire-tune-ok-differs-from-spec)","caught as built"),
 ("C18-r7-resume-flag-set-inside-channel-loop","C18","deregister/reregister merged into one helper that assigns channels_are_registered inside the loop over open channels: resuming with no non-zero channel open leaves the flag false and channels opened afterwards are never polled","throttled, every non-zero channel closed while throttled, drain below low water, then a new channel","C18 part e2e (channel-opened-after-stall-never-works)","caught as built"),
]
rows=[]
for name,prop,chg,needs,caught,note in S:
    d=os.path.join('/verif/seeded',name)
    meta={"round":7,"property":prop,"change":chg,"needs_to_manifest":needs,"base_commit":BASE,
          "confirmed":"seed7_eval.sh in the sub-agent's scratch worktree /tmp/seed7/%s (since removed): HEAD+demo.diff passes, HEAD+demo.diff+patch.diff fails in the demonstration only, HEAD+patch.diff passes the 40 unit tests and 10 doc tests"%prop,
          "ran":"seed7_eval.sh / seed_apply.sh: git -C /repo apply patch.diff; ./check <ids>; git -C /repo checkout -- .",
          "caught_by":caught,"history":note}
    json.dump(meta,open(os.path.join(d,'meta.json'),'w'),indent=1)
    rows.append("| %s | %s | %s | %s | %s |"%(name,prop,needs,caught,note))
print("| seeded change (round 7) | property | needs | caught by | history |\n|---|---|---|---|---|")
print("\n".join(rows))
