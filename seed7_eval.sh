#!/bin/bash
# usage: seed7_eval.sh <worktree under /tmp/seed7> <seeded-name> <check ids...>
# 1. confirms the sub-agent's three claims in its scratch worktree, 2. stores the change under
# /verif/seeded/<seeded-name>/, 3. applies it to /repo, runs the quick tier of the checks, reverts.
export VERIF_EVIDENCE_DIR=/verif/work/mutation-evidence; mkdir -p $VERIF_EVIDENCE_DIR
wt=/tmp/seed7/$1; name=$2; shift 2
cd $wt || exit 3
S=$wt/OUT
git checkout -q -- . ; git clean -fdq -e OUT -e target
echo "== confirm in $wt"
git apply $S/demo.diff || { echo "demo.diff does not apply"; exit 3; }
base=$(CARGO_NET_OFFLINE=true cargo test --offline 2>&1 | grep -E "^test result|^test .* FAILED" | tr '\n' ' ')
echo "HEAD+demo: $base"
git apply $S/patch.diff || { echo "patch.diff does not apply"; exit 3; }
mut=$(CARGO_NET_OFFLINE=true timeout 600 cargo test --offline --no-fail-fast 2>&1 | grep -E "^test result|^test .* FAILED" | tr '\n' ' ')
echo "PATCH+demo: $mut"
git checkout -q -- . ; git clean -fdq -e OUT -e target
git apply $S/patch.diff
only=$(CARGO_NET_OFFLINE=true cargo test --offline 2>&1 | grep -E "^test result|^test .* FAILED" | tr '\n' ' ')
echo "PATCH only (existing tests): $only"
git checkout -q -- . ; git clean -fdq -e OUT -e target
mkdir -p /verif/seeded/$name
cp $S/patch.diff $S/demo.diff /verif/seeded/$name/
cp $S/NOTES.md /verif/seeded/$name/NOTES.md 2>/dev/null
echo "== run checks against /repo with the patch"
[ -z "$(git -C /repo status --short)" ] || { echo "refusing: /repo dirty"; exit 3; }
git -C /repo apply $S/patch.diff || { echo "patch does not apply to /repo"; exit 3; }
for id in "$@"; do
  t0=$(date +%s)
  out=$(/verif/check $id 2>&1)
  echo "$id: $(echo "$out" | grep -E '^(VIOLATION|OK|INCONCLUSIVE|BUILD-FAILED|  part=|  signature=)' | head -4 | cut -c1-200 | tr '\n' ' ') [$(( $(date +%s) - t0 ))s]"
done
git -C /repo checkout -- .
git -C /repo status --short
