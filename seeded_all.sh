#!/bin/bash
# Re-evaluate every stored seeded change against the check of its own property (quick tier).
# usage: seeded_all.sh [name-filter]       output: one line per seeded change
cd /verif
for d in seeded/*/; do
  name=$(basename $d)
  [ -n "$1" ] && [[ "$name" != *"$1"* ]] && continue
  prop=$(jq -r .property $d/meta.json)
  p=$d/patch.diff
  git -C /repo apply --check /verif/$p 2>/dev/null || p=$d/patch.rebased.diff
  if ! git -C /repo apply --check /verif/$p 2>/dev/null; then echo "$name | $prop | DOES-NOT-APPLY"; continue; fi
  echo "$name | $(./seed_apply.sh /verif/$p $prop | cut -c1-220)"
done
