#!/usr/bin/env python3
"""Sensitivity pass: small deliberate breaks of each property, applied to /repo one at a time.

Each entry = (check, file under /repo, exact old text, new text[, occurrence]). The script
applies the edit, runs the check's quick tier (evidence redirected to /verif/work/mutation-evidence),
reverts with `git checkout`, and prints one line per mutant. /repo is never left modified.

usage: tools_sens.py [filter-substring ...]      e.g.  tools_sens.py C05 C09
"""
import os, subprocess, sys, time

REPO = "/repo"
M = [
    # --- C01
    ("C01", "src/io_loop/mod.rs",
     "            IoLoopMessage::Send(buf) => {\n                self.outbuf.append(buf);",
     "            IoLoopMessage::Send(buf) => {\n                if self.outbuf.len() > 70_000 { return Ok(()); }\n                self.outbuf.append(buf);"),
    ("C01", "src/serialize.rs", 'b"AMQP\\x00\\x00\\x09\\x01"', 'b"AMQP\\x00\\x00\\x09\\x00"'),
    ("C01", "src/serialize.rs",
     "        self.0.drain(0..n);",
     "        if n > 4096 { self.0.drain(0..n - 1); } else { self.0.drain(0..n); }"),
    # --- C02
    ("C02", "src/channel.rs", "            mandatory: publish.mandatory,", "            mandatory: publish.immediate,"),
    ("C02", "src/io_loop/io_loop_handle.rs",
     "        buf.push_content_header(self.channel_id, class_id, content.len(), properties);",
     "        buf.push_content_header(self.channel_id, class_id, max_body_len.min(content.len() + 1), properties);"),
    ("C02", "src/io_loop/io_loop_handle.rs",
     "        if !content.is_empty() {\n            buf.push_content_body(self.channel_id, content);",
     "        if true {\n            buf.push_content_body(self.channel_id, content);"),
    ("C02", "src/io_loop/io_loop_handle.rs",
     "        while content.len() > max_body_len {",
     "        while content.len() >= max_body_len {"),
    # --- C03
    ("C03", "src/io_loop/content_collector.rs", "                    Ordering::Less => {", "                    Ordering::Greater => {"),
    ("C03", "src/delivery.rs", "                redelivered: deliver.redelivered,", "                redelivered: !deliver.redelivered,"),
    ("C03", "src/delivery.rs", "                exchange: deliver.exchange,", "                exchange: deliver.routing_key.clone(),"),
    # --- C04
    ("C04", "src/channel.rs",
     "            Some(ok.message_count),\n            Some(ok.consumer_count),",
     "            Some(ok.consumer_count),\n            Some(ok.message_count),"),
    ("C04", "src/channel.rs", "            .map(|ok| ok.message_count)", "            .map(|ok| ok.message_count & 0xffff)"),
    # --- C05
    ("C05", "src/frame_buffer.rs",
     "                Ok(0) => return UnexpectedSocketCloseSnafu.fail(),",
     "                Ok(0) => return Ok(bytes_read),"),
    ("C05", "src/io_loop/mod.rs",
     "                    _ => return Err(err).context(IoErrorWritingSocketSnafu),",
     "                    _ => return Ok(()),"),
    # --- C06
    ("C06", "src/frame_buffer.rs", "            Some(size as usize + 8)", "            Some(size as usize + 7)"),
    ("C06", "src/frame_buffer.rs", "                if bytes.len() >= frame_size {", "                if bytes.len() > frame_size {"),
    # --- C07
    ("C07", "src/io_loop/connection_state.rs",
     "                self.client_exception(inner, AMQPHardError::NOTALLOWED, text)?;",
     "                self.client_exception(inner, AMQPHardError::NOTIMPLEMENTED, text)?;"),
    ("C07", "src/io_loop/connection_state.rs",
     "                    Entry::Occupied(_) => {\n                        return DuplicateConsumerTagSnafu {\n                            channel_id: n,\n                            consumer_tag,\n                        }\n                        .fail();\n                    }",
     "                    Entry::Occupied(_) => {}"),
    # --- C08
    ("C08", "src/io_loop/mod.rs",
     "                self.outbuf.append(buf);\n                self.seal_writes();",
     "                self.seal_writes();\n                self.outbuf.append(buf);"),
    ("C08", "src/io_loop/connection_state.rs",
     "                    send(&tx, Err(Error::ClientClosedConnection))?;",
     "                    send(&tx, Err(Error::ClientClosedChannel))?;"),
    ("C08", "src/io_loop/connection_state.rs",
     "                        send(&consumer_tx, ConsumerMessage::ClientClosedConnection)?;",
     "                        send(&consumer_tx, ConsumerMessage::ClientClosedChannel)?;"),
    # --- C09
    ("C09", "src/io_loop/connection_state.rs",
     "                inner.push_method(n, AmqpChannel::CloseOk(ChannelCloseOk {}));",
     "                inner.push_method(0, AmqpChannel::CloseOk(ChannelCloseOk {}));"),
    ("C09", "src/io_loop/connection_state.rs",
     "                let make_err = || Error::ServerClosedChannel {\n                    channel_id: n,",
     "                let make_err = || Error::ServerClosedChannel {\n                    channel_id: n ^ 1,"),
    # --- C10
    ("C10", "src/io_loop/channel_slots.rs",
     "        if channel_id == 0 || channel_id > self.channel_max {",
     "        if channel_id == 0 || channel_id >= self.channel_max {"),
    ("C10", "src/io_loop/channel_slots.rs",
     "        let entry = self.slots.remove(&channel_id)?;\n        self.freed_channel_ids.insert(channel_id);",
     "        let entry = self.slots.remove(&channel_id)?;"),
    # --- C11
    ("C11", "src/io_loop/connection_state.rs", "                if !cancel.nowait {", "                if cancel.nowait {"),
    ("C11", "src/consumer.rs", "        self.cancelled.set(true);", "        self.cancelled.set(false);"),
    # --- C12
    ("C12", "src/queue.rs", "            if_unused: self.if_unused,", "            if_unused: self.if_empty,"),
    ("C12", "src/exchange.rs", "            durable: self.durable,", "            durable: self.auto_delete,"),
    ("C12", "src/exchange.rs",
     "            .exchange_bind(destination.name(), self.name(), routing_key, arguments)",
     "            .exchange_bind(self.name(), destination.name(), routing_key, arguments)"),
    # --- C13
    ("C13", "src/io_loop/connection_state.rs",
     "                try_send_confirm(slot, Confirm::Ack(confirm));",
     "                try_send_confirm(slot, Confirm::Nack(confirm));"),
    ("C13", "src/io_loop/connection_state.rs", "                    multiple: nack.multiple,", "                    multiple: false,"),
    # --- C14
    ("C14", "src/confirm.rs",
     "                    .remove(&tag)\n                    .unwrap_or_else(|| (self.to_confirm)(tag));",
     "                    .remove(&tag)\n                    .map(|_| (self.to_confirm)(tag))\n                    .unwrap_or_else(|| (self.to_confirm)(tag));"),
    ("C14", "src/confirm.rs",
     "        if payload.delivery_tag > self.parent.expected {",
     "        if payload.delivery_tag > self.parent.expected + 1 || (payload.delivery_tag > self.parent.expected && !payload.multiple) {"),
    # --- C15
    ("C15", "src/connection_options.rs",
     "        let channel_max = u16::min(chan_max0, chan_max1);",
     "        let channel_max = u16::max(chan_max0, chan_max1);"),
    ("C15", "src/connection_options.rs",
     "        if frame_max < u32::from(FRAME_MIN_SIZE) {",
     "        if frame_max <= u32::from(FRAME_MIN_SIZE) {"),
    ("C15", "src/io_loop/mod.rs",
     "        self.inner.chan_slots.set_channel_max(channel_max);",
     "        self.inner.chan_slots.set_channel_max(channel_max.saturating_add(1));"),
    # --- C16
    ("C16", "src/connection_options.rs",
     "            server.split(' ').any(|s| s == client)",
     "            server.split(' ').any(|s| s.contains(client))"),
    ("C16", "src/connection_options.rs", "        set_cap(\"connection.blocked\");", "        set_cap(\"connection.block\");"),
    # --- C17
    ("C17", "src/io_loop/heartbeat_timers.rs",
     "const MAX_MISSED_SERVER_HEARTBEATS: u32 = 2;", "const MAX_MISSED_SERVER_HEARTBEATS: u32 = 1;"),
    ("C17", "src/io_loop/heartbeat_timers.rs",
     "const MAX_MISSED_SERVER_HEARTBEATS: u32 = 2;", "const MAX_MISSED_SERVER_HEARTBEATS: u32 = 3;"),
    ("C17", "src/io_loop/mod.rs", "        if n > 0 {", "        if n > 4096 {"),
    # --- C18
    ("C18", "src/io_loop/mod.rs",
     "                && self.inner.outbuf.len() <= self.buffered_writes_low_water",
     "                && self.inner.outbuf.len() < self.buffered_writes_low_water"),
    # --- C19
    ("C19", "src/connection.rs",
     "                url.set_port(Some(url.port().unwrap_or(5672)))",
     "                url.set_port(Some(url.port().unwrap_or(5671)))"),
    ("C19", "src/connection.rs",
     "                password: percent_decode(url.password().unwrap_or(\"guest\")).to_string(),",
     "                password: percent_decode(url.password().unwrap_or(username)).to_string(),"),
    # --- C20
    ("C20", "src/io_loop/mod.rs",
     "                    // still-pending readable event from poll. Bail out now without an error;",
     "                    if channel_id == 1 { return EventLoopClientDroppedSnafu.fail(); }"),
]


def sh(*a, **k):
    return subprocess.run(a, capture_output=True, text=True, **k)


def main():
    filt = sys.argv[1:]
    env = dict(os.environ, VERIF_EVIDENCE_DIR="/verif/work/mutation-evidence")
    os.makedirs(env["VERIF_EVIDENCE_DIR"], exist_ok=True)
    if sh("git", "-C", REPO, "status", "--short").stdout.strip():
        print("refusing: /repo has uncommitted changes")
        return 2
    for i, m in enumerate(M):
        chk, file, old, new = m[:4]
        if filt and not any(f in chk for f in filt):
            continue
        path = os.path.join(REPO, file)
        src = open(path).read()
        tag = "%s #%d %s: %s" % (chk, i, file, new.strip().splitlines()[0][:70])
        if old not in src:
            print("%s | NO-MATCH" % tag, flush=True)
            continue
        open(path, "w").write(src.replace(old, new, 1))
        t0 = time.time()
        try:
            out = sh("/verif/check", chk, env=env).stdout
        finally:
            sh("git", "-C", REPO, "checkout", "--", ".")
        verdict = next((l for l in out.splitlines() if l.split(" ")[0] in ("VIOLATION", "OK", "INCONCLUSIVE", "BUILD-FAILED")), "?")
        sig = next((l.strip() for l in out.splitlines() if "signature=" in l), "")
        print("%s | %s | %s | %ds" % (tag, verdict[:60], sig[:90], time.time() - t0), flush=True)
    return 0


if __name__ == "__main__":
    sys.exit(main())
