#!/usr/bin/env python3
"""Round 6 of seeded changes (ten properties; see DESIGN.md section 12)."""
import json, os, shutil
BASE = "c12e6d0"
S = [
 ("C02","C02-r6-low-water-strictly-below","C02","the resume test of the write throttle becomes `outbuf.len() < buffered_writes_low_water`: with the default low water of 0 the channels are never polled again once the high-water mark was crossed","a publisher that outruns a slow server until more than the high-water mark is queued","C18 (publisher-never-resumed); C02 and C01 do not cross the high-water mark","backpressure resumption is C18's subject"),
 ("C03","C03-r6-frame-budget-per-read-call","C03","read_from returns after handing 1024 frames over in one call, leaving the rest in the edge-triggered socket","1024 or more frames readable back to back, then a quiet server and a client that writes nothing","C03 part flood (flood-hang, after nine minutes of confirming and shrinking hangs); C06 part burst (frame-handed-over-late) within seconds","caught as built by C03; C06's new part `burst` decides it at the FrameBuffer"),
 ("C05","C05-r6-eof-deferred-at-frame-boundary","C05","an end of stream read in the same call as complete frames is returned as a normal read (`Ok(0) if bytes_read > 0` and nothing buffered)","frames and FIN arrive together, the client has nothing to write afterwards","C05 (connection-did-not-end-after-fault); C06 part probe (frame-handed-over-late: the error that ends the stream is reported by a further call only)","caught as built"),
 ("C06","C06-r6-read-budget-per-wakeup","C06","read_from returns Ok once it has read 64 KiB in one call, without having seen would-block","64 KiB or more readable with no would-block in between and complete frames behind them","C06 parts probe and burst (frame-handed-over-late); C03 part flood","missed by C06 at first: its driver kept calling read_from until the stream was used up, which the I/O loop (edge-triggered registration) never does -> the driver now records a call that returns Ok although the transport's last answer was not would-block, and any frame or stream end that only a further call deals with is late; new part `burst` (streams of up to 400 KiB / several thousand frames, mostly without would-block)"),
 ("C08","C08-r6-try-recv-in-send-error-path","C08","check_recv_for_error uses try_recv: a nowait call failing its send before the I/O thread has queued the close error reports EventLoopDropped","publish or nowait call racing a close in either direction","C08 part e2e (channel-first-error)","caught as built"),
 ("C09","C09-r6-stale-channel-wakeup-filtered-by-connection-state","C09","a wake-up for a removed channel slot is ignored only while the connection is closing; in the steady state it ends the I/O loop with EventLoopClientDropped","the server closes a channel the client is sending on: Channel.Close and the channel's wake-up in one poll batch","C09 part e2e (connection-killed-event-loop-client-dropped)","caught as built"),
 ("C12","C12-r6-get-reject-forwards-to-nack","C12","Get::reject calls Delivery::nack","basic_get, then Get::reject","C12 (frame-mismatch:Basic.Reject)","caught as built"),
 ("C14","C14-r6-default-derived-expects-tag-0","C14","`Default` is derived instead of forwarding to new(): ConfirmSmoother::default() expects tag 0","a smoother obtained through Default fed the tags 1, 2, ...","C14 part complete (emission-missing-or-late)","missed at first: every case used with_expected_delivery_tag -> histories starting at 1 now build the smoother by new(), default() or with_expected_delivery_tag(1) in turn"),
 ("C17","C17-r6-heartbeat-timers-stop-when-sealed","C17","process_heartbeat_timers returns at once when writes are sealed: no supervision of the server while a close is pending","Connection::close (or drop) against a server that has gone silent","C17 (silence-not-detected); C05 (connection-did-not-end-after-fault)","missed by C17 at first (C05 caught it) -> in half of the silence cases the client calls Connection::close at the moment the server falls silent; the close must fail with MissedServerHeartbeats under the usual bounds"),
 ("C20","C20-r6-crossed-close-swallows-server-close","C20","a server Connection.Close read after the client's own close has been taken off channel 0 is ignored","batch [client Connection::close, server Connection.Close]","C20 part batch (racing-request-hang: no CloseOk for the server's close, the session never ends)","caught as built"),
]
rows=[]
for wt,name,prop,chg,needs,caught,note in S:
    d=os.path.join('/verif/seeded',name)
    os.makedirs(d,exist_ok=True)
    src=os.path.join('/tmp/seed6',wt,'OUT')
    if os.path.isdir(src):
        for f in ('patch.diff','demo.diff','NOTES.md'):
            if os.path.exists(os.path.join(src,f)):
                shutil.copy(os.path.join(src,f),os.path.join(d,f))
    meta={"round":6,"property":prop,"change":chg,"needs_to_manifest":needs,"base_commit":BASE,
          "confirmed":"in the sub-agent's scratch worktree /tmp/seed6/%s (confirm.sh): HEAD+demo.diff passes, HEAD+demo.diff+patch.diff fails in the demonstration only, HEAD+patch.diff passes the 40 unit tests and 10 doc tests"%wt,
          "ran":"seed_apply.sh: git -C /repo apply patch.diff; ./check <ids>; git -C /repo checkout -- .",
          "caught_by":caught,"history":note}
    json.dump(meta,open(os.path.join(d,'meta.json'),'w'),indent=1)
    rows.append("| %s | %s | %s | %s | %s |"%(name,prop,needs,caught,note))
print("| seeded change (round 6) | property | needs | caught by | history |\n|---|---|---|---|---|")
print("\n".join(rows))
