#![no_main]
use libfuzzer_sys::fuzz_target;

// The input bytes are decoded into the case type of C10/model by the structure-preserving serde decoder
// (harness/src/bytede.rs), sanitized into the generator's domain, and judged by the same oracle as in
// `./check C10` (harness/src/lib.rs: fuzz_one).
fuzz_target!(|data: &[u8]| {
    avh::fuzz_one("C10", "model", data);
});
