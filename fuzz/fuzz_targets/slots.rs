#![no_main]
use libfuzzer_sys::fuzz_target;

// The input bytes are the random stream of the C10/model proptest strategy; the same oracle as in
// `./check C10` runs inside the target (see harness/src/lib.rs: fuzz_one).
fuzz_target!(|data: &[u8]| {
    avh::fuzz_one("C10", "model", data);
});
