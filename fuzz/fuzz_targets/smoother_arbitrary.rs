#![no_main]
use libfuzzer_sys::fuzz_target;

// The input bytes are the random stream of the C14/arbitrary proptest strategy; the same oracle as in
// `./check C14` runs inside the target (see harness/src/lib.rs: fuzz_one).
fuzz_target!(|data: &[u8]| {
    avh::fuzz_one("C14", "arbitrary", data);
});
