#![no_main]
use libfuzzer_sys::fuzz_target;

// The input bytes are the random stream of the C03/collector proptest strategy; the same oracle as in
// `./check C03` runs inside the target (see harness/src/lib.rs: fuzz_one).
fuzz_target!(|data: &[u8]| {
    avh::fuzz_one("C03", "collector", data);
});
