#![no_main]
use libfuzzer_sys::fuzz_target;

// The input bytes are decoded into the case type of C19/raw (an arbitrary string) by the serde byte
// decoder (harness/src/bytede.rs) and judged by the same oracle as in `./check C19`
// (harness/src/lib.rs: fuzz_one): no panic; an accepted URL has an amqp / amqps scheme.
fuzz_target!(|data: &[u8]| {
    avh::fuzz_one("C19", "raw", data);
});
