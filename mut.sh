#!/bin/bash
export VERIF_EVIDENCE_DIR=/verif/work/mutation-evidence; mkdir -p $VERIF_EVIDENCE_DIR
# usage: mut.sh <patchfile|-> <check ids...>   (patch read from file; applies to /repo, runs checks, reverts)
# scratch helper for sensitivity experiments; never leaves /repo modified
pf=$1; shift
git -C /repo apply "$pf" || { echo "PATCH DOES NOT APPLY"; exit 3; }
for id in "$@"; do
  out=$(/verif/check $id 2>&1)
  echo "$out" | grep -E "^(VIOLATION|OK|INCONCLUSIVE|BUILD-FAILED|  part=|KNOWN)" | head -6
done
git -C /repo checkout -- .
