#!/usr/bin/env python3
"""Round 5 of seeded changes (see DESIGN.md section 12)."""
import json, os, shutil
BASE = "c12e6d0"
S = [
 ("C01","C01-r5-writable-rearm-skipped","C01","the reregistration for writable at the end of a loop iteration is skipped when data was already pending before the batch: if a writable event drained the buffer and a channel message refilled it in the same batch, no writable edge ever comes","batch [socket writable, channel message] with data pending, a write that completes without would-block, then a server that stays silent","C01 (setup-hang / call-hang, confirmed under concurrency)","the hang occurred in the first evaluation but only while many cases ran side by side; alone the case passed, and the rule 'a hang must recur on every re-execution' dropped it -> a call that never returned now gets a second confirmation with twelve concurrent copies of the case"),
 ("C02","C02-r5-publish-handed-over-in-1mib-pieces","C02","send_with_content (fix 23efced) hands a large publish to the I/O thread in 1 MiB pieces: a CancelOk can land between two body frames again","a publish above 1 MiB, a consumer on the channel, a server cancel processed between two pieces","C02 part server-events (publish-frames-not-contiguous)","prepared before the first evaluation: a quarter of the server-events sessions use frame_max 131072 with bodies of up to 5 MB"),
 ("C03","C03-r5-overrun-check-per-frame","C03","collect_body compares each body frame with the whole announced size instead of what is still missing: 6 + 6 bytes under a header announcing 10 are delivered","body frames each no longer than the announced size that together exceed it","C07 (e2e and collector); C03 does not decide it","C03 quantifies over valid server histories; an overrun is a server violation, C07's subject (same family as round 1's C07 change)"),
 ("C04","C04-r5-cancel-ok-for-unknown-consumer-dropped","C04","a Basic.CancelOk whose consumer is no longer registered is not forwarded to the channel's caller","server cancels a consumer, then the client cancels (or drops) it and the server answers CancelOk","C11 (driver-hang); C04 does not generate server cancels","consumer life cycle, C11's subject"),
 ("C05","C05-r5-eof-ignored-while-server-closing","C05","an end of stream read after the server's Connection.Close is ignored: if CloseOk cannot be flushed nothing ever ends the loop","server close (or client exception), output cannot be written, server hangs up, heartbeats off","C05 (fault StalledClosingThenEof: case-watchdog / connection-did-not-end)","prepared before the first evaluation: new fault - transport stalled, server close or forced client exception, then end of stream, no heartbeats"),
 ("C06","C06-r5-read-errors-swallowed-once-sealed","C06","read errors are ignored whenever writes are sealed (not only after CloseOk): a hang-up or garbage instead of CloseOk never ends the close","client close answered by end of stream or by a malformed frame","C06 part session (close-hang)","prepared before the first evaluation: the server may answer Connection::close by hanging up or with a malformed CloseOk followed by a proper one, cut anywhere; expected UnexpectedSocketClose / MalformedFrame"),
 ("C07","C07-r5-alloc-wakeup-ends-loop-during-client-exception","C07","an open_channel wake-up handled in the ClientException state returns the error at once: the exception's Connection.Close is never written","violating frame and open_channel in one poll batch, frame first","C07 part batch (client-exception-close-not-last-frame) and part e2e","prepared before the first evaluation: C07 got a part `batch` - C20's batch harness with a protocol violation instead of a server close"),
 ("C08","C08-r5-pending-length-truncated-to-u16","C08","is_connection_done (server closing) tests `outbuf.len() as u16 == 0`: done whenever a multiple of 65536 bytes is pending","server close with >= 64 KiB queued and a would-block that leaves exactly k * 65536 bytes","not caught","the trigger is one remainder in 65536 per stall; the check stalls and trickles at generated points and does not aim at particular remainders (it would have to know the client's pending byte count). Recorded as a miss"),
 ("C09","C09-r5-flag-updated-only-if-a-channel-exists","C09","same change as round 3's C18 delivery (channels_are_registered set inside the loops)","throttle, server closes every channel, drain, open a channel","C18; C09 does not stall the transport","backpressure bookkeeping, C18's subject"),
 ("C10","C10-r5-freed-id-recorded-only-below-cursor","C10","same change as round 3's C10","counter wrapped at channel_max 65535, close, open_channel(None)","C10 part model","caught"),
 ("C11","C11-r5-server-cancel-of-ended-consumer-unanswered","C11","CancelOk for a server cancel is only sent if the consumer is still registered","the server's cancel notification (nowait = false) arrives right behind the CancelOk of the client's own cancel","C11 (server-cancel-not-answered-with-cancel-ok)","prepared before the first evaluation: a quarter of the client cancels are crossed by the server's cancel for the same consumer"),
 ("C12","C12-r5-consumer-settle-bypasses-channel-check","C12","Consumer::ack/nack/reject call Channel::basic_* directly, bypassing Delivery's channel assertion","a delivery settled through a Consumer living on another channel","C12 (cross-channel-settle-did-not-panic; committed replay of F6)","caught as built"),
 ("C13","C13-r5-return-listener-bounded-64","C13","listen_for_returns uses bounded(64)","more than 64 unread returns","C13 (listener-missed-event)","caught (round-4 bursts)"),
 ("C14","C14-r5-stored-ack-overridden-by-multiple-nack","C14","in a multiple walk a stored outcome is kept only if it is a Nack","single Ack ahead of order, then a multiple Nack spanning it","C14 (stored-confirm-overridden-by-later-multiple)","caught as built"),
 ("C15","C15-r5-timers-from-client-option","C15","start_heartbeats(options.heartbeat) (third delivery)","server proposes lower or zero heartbeat","C15 part hb-timing","caught"),
 ("C16","C16-r5-timeout-configured-hides-invalid-credentials","C16","with any connection_timeout configured a failure after StartOk is passed through instead of mapped to InvalidCredentials","timeout configured and the server drops the connection after StartOk","C16 (handshake-wrong-error:InvalidCredentials)","caught as built"),
 ("C17","C17-r5-tx-timer-not-rearmed-with-data-queued","C17","same change as round 3's C15","stall across a tx tick with data queued, then idle","C17 (client-heartbeat-late-or-missing)","caught (round-3 strengthening)"),
 ("C18","C18-r5-flag-set-inside-reregister-loop","C18","variant of round 3's C18","throttle, server closes every channel, drain, open a channel","C18","caught"),
 ("C19","C19-r5-timeout-shrinks-per-address","C19","every address after the first is attempted with connection_timeout minus the time already spent","host with several addresses, first accepts and stays silent, connection_timeout in the URL","C19 part loopback (net-open-failed)","prepared before the first evaluation: in 30 % of the multi-address cases the first address accepts and stays silent and the URL sets connection_timeout=300"),
 ("C20","C20-r5-blocked-listener-wakeup-unreachable","C20","a listen_for_connection_blocked wake-up in a non-steady state hits unreachable!()","server Connection.Close and listen_for_connection_blocked in one batch","C20 (io-thread-panic)","caught as built"),
]
rows=[]
for wt,name,prop,chg,needs,caught,note in S:
    d=os.path.join('/verif/seeded',name)
    os.makedirs(d,exist_ok=True)
    src=os.path.join('/tmp/seed',wt,'SEEDED')
    if os.path.isdir(src):
        for f in ('patch.diff','demo.diff','NOTES.md'):
            if os.path.exists(os.path.join(src,f)):
                shutil.copy(os.path.join(src,f),os.path.join(d,f))
    meta={"round":5,"property":prop,"change":chg,"needs_to_manifest":needs,"base_commit":BASE,
          "confirmed":"in the sub-agent's scratch worktree /tmp/seed/%s (confirm.sh): HEAD+demo.diff passes, HEAD+demo.diff+patch.diff fails in the demonstration only, HEAD+patch.diff passes the 40 unit tests and 10 doc tests"%wt,
          "ran":"seed_apply.sh: git -C /repo apply patch.diff; ./check <ids>; git -C /repo checkout -- .",
          "caught_by":caught,"history":note}
    json.dump(meta,open(os.path.join(d,'meta.json'),'w'),indent=1)
    rows.append("| %s | %s | %s | %s | %s |"%(name,prop,needs,caught,note))
print("| seeded change (round 5) | property | needs | caught by | history |\n|---|---|---|---|---|")
print("\n".join(rows))
