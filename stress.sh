#!/bin/bash
# Flake hunt: every quick check for several seeds while the machine is overloaded with busy loops.
# usage: stress.sh <first-seed> <last-seed> [busy-loops]   (evidence redirected; /repo untouched)
export VERIF_EVIDENCE_DIR=/verif/work/stress-evidence; mkdir -p $VERIF_EVIDENCE_DIR
cd /verif
n=${3:-24}
pids=()
for i in $(seq 1 $n); do sh -c 'while :; do :; done' & pids+=($!); done
trap 'kill ${pids[@]} 2>/dev/null' EXIT
for s in $(seq $1 $2); do
  echo "== seed $s"; ./run_all.sh quick $s | grep -v "rc=0 .*s $" 
done
echo "== done"
