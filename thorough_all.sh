#!/bin/bash
# every thorough tier once (evidence redirected), one line each; usage: thorough_all.sh [seed] [ids...]
export VERIF_EVIDENCE_DIR=/verif/work/thorough-evidence; mkdir -p $VERIF_EVIDENCE_DIR
cd /verif; seed=${1:-1}; shift
ids=${@:-$(seq -w 1 20 | sed 's/^/C/')}
for id in $ids; do
  t0=$(date +%s)
  out=$(./check $id --tier thorough --seed $seed 2>&1); rc=$?
  echo "$id rc=$rc $(( $(date +%s) - t0 ))s $(echo "$out" | grep -E '^(VIOLATION|INCONCLUSIVE|KNOWN|OK)' | head -2 | cut -c1-160 | tr '\n' ' ')"
  echo "$out" | grep -E "^part|fuzz" | cut -c1-300 | sed 's/^/    /'
done
