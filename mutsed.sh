#!/bin/bash
export VERIF_EVIDENCE_DIR=/verif/work/mutation-evidence; mkdir -p $VERIF_EVIDENCE_DIR
# usage: mutsed.sh <file-under-/repo> <sed-expr> <check ids...>
# scratch helper for sensitivity experiments: applies a sed edit to /repo, runs checks, reverts.
f=$1; e=$2; shift 2
sed -i "$e" /repo/$f
if git -C /repo diff --quiet; then echo "MUTATION DID NOT CHANGE ANYTHING"; exit 3; fi
git -C /repo diff | grep -E "^[+-][^+-]" | head -6
for id in "$@"; do
  /verif/check $id 2>&1 | grep -E "^(VIOLATION|OK|INCONCLUSIVE|BUILD-FAILED|  part=|KNOWN|\[check\] harness)" | head -5
done
git -C /repo checkout -- .
