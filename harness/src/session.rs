//! Opening real `amiquip::Connection`s on the mock transport, plus timeout helpers.

use crate::broker::{spawn_broker, BrokerHandle, Responder, ServerCfg};
use crate::wire::{mock_pair, WStep, Wire};
use amiquip::{Auth, Connection, ConnectionOptions, ConnectionTuning};
use serde::{Deserialize, Serialize};
use std::sync::mpsc;
use std::time::Duration;

#[derive(Clone, Debug, Serialize, Deserialize, PartialEq)]
pub struct ClientCfg {
    pub channel_max: u16,
    pub frame_max: u32,
    pub heartbeat: u16,
    pub mem_channel_bound: usize,
    pub high_water: usize,
    pub low_water: usize,
    /// ConnectionOptions::connection_timeout in milliseconds (None = no timeout)
    #[serde(default)]
    pub connection_timeout_ms: Option<u64>,
}

impl Default for ClientCfg {
    fn default() -> Self {
        ClientCfg {
            channel_max: 0,
            frame_max: 0,
            heartbeat: 0,
            mem_channel_bound: 16,
            high_water: 16 << 20,
            low_water: 0,
            connection_timeout_ms: None,
        }
    }
}

impl ClientCfg {
    pub fn options(&self) -> ConnectionOptions<Auth> {
        ConnectionOptions::default()
            .channel_max(self.channel_max)
            .frame_max(self.frame_max)
            .heartbeat(self.heartbeat)
            .connection_timeout(self.connection_timeout_ms.map(Duration::from_millis))
    }
    pub fn tuning(&self) -> ConnectionTuning {
        ConnectionTuning::default()
            .mem_channel_bound(self.mem_channel_bound)
            .buffered_writes_high_water(self.high_water)
            .buffered_writes_low_water(self.low_water)
    }
}

/// Run `f` on a helper thread; None if it does not finish in time (the thread is leaked).
pub fn timed<T: Send + 'static, F: FnOnce() -> T + Send + 'static>(
    d: Duration,
    name: &str,
    f: F,
) -> Option<T> {
    let (tx, rx) = mpsc::channel();
    let _ = std::thread::Builder::new()
        .name(name.to_string())
        .spawn(move || {
            let v = f();
            let _ = tx.send(v);
        })
        .expect("spawn");
    rx.recv_timeout(d).ok()
}

pub const CALL_TIMEOUT: Duration = Duration::from_secs(8);

pub struct Session<R: Responder> {
    pub conn: Option<Connection>,
    pub open_error: Option<amiquip::Error>,
    pub open_hung: bool,
    pub wire: Wire,
    pub broker: BrokerHandle<R>,
}

/// Open a connection with default PLAIN auth against a fresh broker thread.
pub fn open_session<R: Responder>(
    ccfg: &ClientCfg,
    scfg: ServerCfg,
    wscript: Vec<WStep>,
    r: R,
) -> Session<R> {
    open_session_opts(ccfg.options(), ccfg.tuning(), scfg, wscript, r)
}

pub fn open_session_opts<R: Responder, A: amiquip::Sasl>(
    options: ConnectionOptions<A>,
    tuning: ConnectionTuning,
    scfg: ServerCfg,
    wscript: Vec<WStep>,
    r: R,
) -> Session<R> {
    let (stream, wire) = mock_pair();
    wire.set_wscript(wscript);
    let broker = spawn_broker(wire.clone(), scfg, r);
    let res = timed(CALL_TIMEOUT, "avh-open", move || {
        Connection::insecure_open_stream(stream, options, tuning)
    });
    match res {
        Some(Ok(conn)) => Session {
            conn: Some(conn),
            open_error: None,
            open_hung: false,
            wire,
            broker,
        },
        Some(Err(e)) => Session {
            conn: None,
            open_error: Some(e),
            open_hung: false,
            wire,
            broker,
        },
        None => Session {
            conn: None,
            open_error: None,
            open_hung: true,
            wire,
            broker,
        },
    }
}

/// Close a connection with a timeout; None = hung.
pub fn timed_close(conn: Connection) -> Option<amiquip::Result<()>> {
    timed(CALL_TIMEOUT, "avh-close", move || conn.close())
}

/// Short description of an error: variant name plus fields, via Debug.
pub fn err_str(e: &amiquip::Error) -> String {
    format!("{:?}", e)
}
