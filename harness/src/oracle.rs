//! Shared wire oracles.

use crate::codec::{decode_stream, Decoded, RawFrame};
use amiquip::AmqpProperties;
use amq_protocol::frame::AMQPFrame;
use amq_protocol::protocol::basic::AMQPMethod as Basic;
use amq_protocol::protocol::AMQPClass;
use std::collections::BTreeMap;

pub type Verdict = Result<(), (String, String)>;

pub fn bad<S: Into<String>, M: Into<String>>(sig: S, msg: M) -> Verdict {
    Err((sig.into(), msg.into()))
}

/// What a publish must look like on the wire.
#[derive(Clone, Debug)]
pub struct PublishExpect {
    pub exchange: String,
    pub routing_key: String,
    pub mandatory: bool,
    pub immediate: bool,
    pub props: AmqpProperties,
    pub body: Vec<u8>,
}

/// Split a decoded stream into per-channel frame lists (order preserved).
pub fn per_channel(d: &Decoded) -> BTreeMap<u16, Vec<(RawFrame, AMQPFrame)>> {
    let mut m: BTreeMap<u16, Vec<(RawFrame, AMQPFrame)>> = BTreeMap::new();
    for (raw, f) in &d.frames {
        m.entry(raw.channel).or_default().push((raw.clone(), f.clone()));
    }
    m
}

/// The stream must be the protocol header followed by whole, well-formed frames.
pub fn check_stream_wellformed(out: &[u8]) -> Result<Decoded, (String, String)> {
    let d = decode_stream(out);
    if !d.header_ok {
        return Err((
            "protocol-header-wrong".into(),
            format!("first bytes: {:?}", &out[..out.len().min(16)]),
        ));
    }
    if let Some(e) = &d.error {
        return Err(("outbound-stream-not-whole-frames".into(), e.clone()));
    }
    if d.trailing != 0 {
        return Err((
            "outbound-stream-trailing-partial-frame".into(),
            format!("{} trailing bytes after the last complete frame", d.trailing),
        ));
    }
    Ok(d)
}

/// Consume the frames of one publish from `frames[*pos..]` and compare with `exp`.
/// `frame_max` is the negotiated maximum frame size (0 / u32::MAX = unlimited).
pub fn check_publish_at(
    frames: &[(RawFrame, AMQPFrame)],
    pos: &mut usize,
    exp: &PublishExpect,
    frame_max: u32,
) -> Verdict {
    let limit: usize = if frame_max == 0 {
        usize::MAX
    } else {
        frame_max as usize
    };
    let (_, m) = match frames.get(*pos) {
        Some(x) => x,
        None => return bad("publish-missing", format!("no frame where Basic.Publish({:?}) was expected", exp.routing_key)),
    };
    match m {
        AMQPFrame::Method(_, AMQPClass::Basic(Basic::Publish(p))) => {
            if p.ticket != 0
                || p.exchange != exp.exchange
                || p.routing_key != exp.routing_key
                || p.mandatory != exp.mandatory
                || p.immediate != exp.immediate
            {
                return bad(
                    "publish-method-field-mismatch",
                    format!(
                        "wire {:?}\nexpected exchange={:?} routing_key={:?} mandatory={} immediate={}",
                        p, exp.exchange, exp.routing_key, exp.mandatory, exp.immediate
                    ),
                );
            }
        }
        other => {
            return bad(
                "publish-method-missing",
                format!("expected Basic.Publish, wire has {:?}", brief(other)),
            )
        }
    }
    *pos += 1;
    match frames.get(*pos) {
        Some((raw, AMQPFrame::Header(_, class_id, h))) => {
            if *class_id != 60 || h.class_id != 60 || h.weight != 0 {
                return bad("content-header-class-or-weight", format!("{:?}", h));
            }
            if h.body_size != exp.body.len() as u64 {
                return bad(
                    "content-header-body-size",
                    format!("header says {} bytes, body has {}", h.body_size, exp.body.len()),
                );
            }
            if h.properties != exp.props {
                return bad(
                    "content-header-properties",
                    format!("wire {:?}\nexpected {:?}", h.properties, exp.props),
                );
            }
            if raw.total_len() > limit {
                return bad("header-frame-exceeds-frame-max", format!("{} > {}", raw.total_len(), limit));
            }
        }
        other => {
            return bad(
                "content-header-missing",
                format!("expected content header after Basic.Publish, wire has {:?}", other.map(|(_, f)| brief(f))),
            )
        }
    }
    *pos += 1;
    let mut got: Vec<u8> = Vec::with_capacity(exp.body.len());
    let mut nframes = 0;
    while got.len() < exp.body.len() {
        match frames.get(*pos) {
            Some((raw, AMQPFrame::Body(_, b))) => {
                if b.is_empty() {
                    return bad("empty-body-frame", "a body frame with no payload was sent");
                }
                if raw.total_len() > limit {
                    return bad(
                        "body-frame-exceeds-frame-max",
                        format!("body frame of {} bytes (with framing) > frame_max {}", raw.total_len(), limit),
                    );
                }
                got.extend_from_slice(b);
                nframes += 1;
                *pos += 1;
            }
            other => {
                return bad(
                    "body-incomplete",
                    format!(
                        "body has {} of {} bytes after {} frames, next frame {:?}",
                        got.len(),
                        exp.body.len(),
                        nframes,
                        other.map(|(_, f)| brief(f))
                    ),
                )
            }
        }
    }
    if got != exp.body {
        let at = got
            .iter()
            .zip(exp.body.iter())
            .position(|(a, b)| a != b)
            .unwrap_or(exp.body.len().min(got.len()));
        return bad(
            "body-content-mismatch",
            format!("body of {} bytes (sent {}), first difference at byte {}", got.len(), exp.body.len(), at),
        );
    }
    // nothing of this publish may follow: a further body frame would be excess content
    if let Some((_, AMQPFrame::Body(_, b))) = frames.get(*pos) {
        return bad(
            "excess-body-frame",
            format!("a body frame of {} bytes follows a complete body of {} bytes", b.len(), exp.body.len()),
        );
    }
    Ok(())
}

pub fn brief(f: &AMQPFrame) -> String {
    match f {
        AMQPFrame::Body(c, b) => format!("Body(ch {}, {} bytes)", c, b.len()),
        AMQPFrame::Header(c, _, h) => format!("Header(ch {}, body_size {})", c, h.body_size),
        other => {
            let s = format!("{:?}", other);
            if s.len() > 300 {
                format!("{}…", &s[..s.char_indices().take_while(|(i, _)| *i < 300).last().map(|(i, _)| i).unwrap_or(0)])
            } else {
                s
            }
        }
    }
}
