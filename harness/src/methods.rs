//! One constructor per AMQP 0-9-1 method known to amq-protocol, parameterised by a few
//! generated values. Used as the alphabet of the frame-level generators (C06, C07).

use amiquip::FieldTable;
use amq_protocol::protocol::access::AMQPMethod as Access;
use amq_protocol::protocol::basic::AMQPMethod as Basic;
use amq_protocol::protocol::channel::AMQPMethod as Chan;
use amq_protocol::protocol::confirm::AMQPMethod as Confirm;
use amq_protocol::protocol::connection::AMQPMethod as Conn;
use amq_protocol::protocol::exchange::AMQPMethod as Exch;
use amq_protocol::protocol::queue::AMQPMethod as Queue;
use amq_protocol::protocol::tx::AMQPMethod as Tx;
use amq_protocol::protocol::*;
use serde::{Deserialize, Serialize};

/// Generated parameters shared by all constructors.
#[derive(Clone, Debug, Serialize, Deserialize, PartialEq, Default)]
pub struct MArgs {
    pub s1: String,
    pub s2: String,
    pub n: u64,
    pub flag: bool,
    pub flag2: bool,
    pub table: FieldTable,
}

pub const N_METHODS: usize = 64;

pub const NAMES: [&str; N_METHODS] = [
    "connection.start", "connection.start-ok", "connection.secure", "connection.secure-ok",
    "connection.tune", "connection.tune-ok", "connection.open", "connection.open-ok",
    "connection.close", "connection.close-ok", "connection.blocked", "connection.unblocked",
    "channel.open", "channel.open-ok", "channel.flow", "channel.flow-ok", "channel.close",
    "channel.close-ok", "access.request", "access.request-ok", "exchange.declare",
    "exchange.declare-ok", "exchange.delete", "exchange.delete-ok", "exchange.bind",
    "exchange.bind-ok", "exchange.unbind", "exchange.unbind-ok", "queue.declare",
    "queue.declare-ok", "queue.bind", "queue.bind-ok", "queue.purge", "queue.purge-ok",
    "queue.delete", "queue.delete-ok", "queue.unbind", "queue.unbind-ok", "basic.qos",
    "basic.qos-ok", "basic.consume", "basic.consume-ok", "basic.cancel", "basic.cancel-ok",
    "basic.publish", "basic.return", "basic.deliver", "basic.get", "basic.get-ok",
    "basic.get-empty", "basic.ack", "basic.reject", "basic.recover-async", "basic.recover",
    "basic.recover-ok", "basic.nack", "tx.select", "tx.select-ok", "tx.commit", "tx.commit-ok",
    "tx.rollback", "tx.rollback-ok", "confirm.select", "confirm.select-ok",
];

pub fn method_index(name: &str) -> usize {
    NAMES.iter().position(|n| *n == name).unwrap_or_else(|| panic!("no method {}", name))
}

pub fn make(idx: usize, a: &MArgs) -> AMQPClass {
    let s1 = a.s1.clone();
    let s2 = a.s2.clone();
    let n = a.n;
    let f = a.flag;
    let g = a.flag2;
    let t = a.table.clone();
    match idx % N_METHODS {
        0 => AMQPClass::Connection(Conn::Start(connection::Start {
            version_major: 0,
            version_minor: 9,
            server_properties: t,
            mechanisms: s1,
            locales: s2,
        })),
        1 => AMQPClass::Connection(Conn::StartOk(connection::StartOk {
            client_properties: t,
            mechanism: s1,
            response: s2,
            locale: "en_US".into(),
        })),
        2 => AMQPClass::Connection(Conn::Secure(connection::Secure { challenge: s1 })),
        3 => AMQPClass::Connection(Conn::SecureOk(connection::SecureOk { response: s1 })),
        4 => AMQPClass::Connection(Conn::Tune(connection::Tune {
            channel_max: n as u16,
            frame_max: (n >> 16) as u32,
            heartbeat: (n >> 48) as u16,
        })),
        5 => AMQPClass::Connection(Conn::TuneOk(connection::TuneOk {
            channel_max: n as u16,
            frame_max: (n >> 16) as u32,
            heartbeat: (n >> 48) as u16,
        })),
        6 => AMQPClass::Connection(Conn::Open(connection::Open {
            virtual_host: s1,
            capabilities: s2,
            insist: f,
        })),
        7 => AMQPClass::Connection(Conn::OpenOk(connection::OpenOk { known_hosts: s1 })),
        8 => AMQPClass::Connection(Conn::Close(connection::Close {
            reply_code: n as u16,
            reply_text: s1,
            class_id: (n >> 16) as u16,
            method_id: (n >> 32) as u16,
        })),
        9 => AMQPClass::Connection(Conn::CloseOk(connection::CloseOk {})),
        10 => AMQPClass::Connection(Conn::Blocked(connection::Blocked { reason: s1 })),
        11 => AMQPClass::Connection(Conn::Unblocked(connection::Unblocked {})),
        12 => AMQPClass::Channel(Chan::Open(channel::Open { out_of_band: s1 })),
        13 => AMQPClass::Channel(Chan::OpenOk(channel::OpenOk { channel_id: s1 })),
        14 => AMQPClass::Channel(Chan::Flow(channel::Flow { active: f })),
        15 => AMQPClass::Channel(Chan::FlowOk(channel::FlowOk { active: f })),
        16 => AMQPClass::Channel(Chan::Close(channel::Close {
            reply_code: n as u16,
            reply_text: s1,
            class_id: (n >> 16) as u16,
            method_id: (n >> 32) as u16,
        })),
        17 => AMQPClass::Channel(Chan::CloseOk(channel::CloseOk {})),
        18 => AMQPClass::Access(Access::Request(access::Request {
            realm: s1,
            exclusive: f,
            passive: g,
            active: f,
            write: g,
            read: f,
        })),
        19 => AMQPClass::Access(Access::RequestOk(access::RequestOk { ticket: n as u16 })),
        20 => AMQPClass::Exchange(Exch::Declare(exchange::Declare {
            ticket: 0,
            exchange: s1,
            type_: s2,
            passive: f,
            durable: g,
            auto_delete: f,
            internal: g,
            nowait: f,
            arguments: t,
        })),
        21 => AMQPClass::Exchange(Exch::DeclareOk(exchange::DeclareOk {})),
        22 => AMQPClass::Exchange(Exch::Delete(exchange::Delete {
            ticket: 0,
            exchange: s1,
            if_unused: f,
            nowait: g,
        })),
        23 => AMQPClass::Exchange(Exch::DeleteOk(exchange::DeleteOk {})),
        24 => AMQPClass::Exchange(Exch::Bind(exchange::Bind {
            ticket: 0,
            destination: s1,
            source: s2,
            routing_key: "rk".into(),
            nowait: f,
            arguments: t,
        })),
        25 => AMQPClass::Exchange(Exch::BindOk(exchange::BindOk {})),
        26 => AMQPClass::Exchange(Exch::Unbind(exchange::Unbind {
            ticket: 0,
            destination: s1,
            source: s2,
            routing_key: "rk".into(),
            nowait: f,
            arguments: t,
        })),
        27 => AMQPClass::Exchange(Exch::UnbindOk(exchange::UnbindOk {})),
        28 => AMQPClass::Queue(Queue::Declare(queue::Declare {
            ticket: 0,
            queue: s1,
            passive: f,
            durable: g,
            exclusive: f,
            auto_delete: g,
            nowait: f,
            arguments: t,
        })),
        29 => AMQPClass::Queue(Queue::DeclareOk(queue::DeclareOk {
            queue: s1,
            message_count: n as u32,
            consumer_count: (n >> 32) as u32,
        })),
        30 => AMQPClass::Queue(Queue::Bind(queue::Bind {
            ticket: 0,
            queue: s1,
            exchange: s2,
            routing_key: "rk".into(),
            nowait: f,
            arguments: t,
        })),
        31 => AMQPClass::Queue(Queue::BindOk(queue::BindOk {})),
        32 => AMQPClass::Queue(Queue::Purge(queue::Purge {
            ticket: 0,
            queue: s1,
            nowait: f,
        })),
        33 => AMQPClass::Queue(Queue::PurgeOk(queue::PurgeOk {
            message_count: n as u32,
        })),
        34 => AMQPClass::Queue(Queue::Delete(queue::Delete {
            ticket: 0,
            queue: s1,
            if_unused: f,
            if_empty: g,
            nowait: f,
        })),
        35 => AMQPClass::Queue(Queue::DeleteOk(queue::DeleteOk {
            message_count: n as u32,
        })),
        36 => AMQPClass::Queue(Queue::Unbind(queue::Unbind {
            ticket: 0,
            queue: s1,
            exchange: s2,
            routing_key: "rk".into(),
            arguments: t,
        })),
        37 => AMQPClass::Queue(Queue::UnbindOk(queue::UnbindOk {})),
        38 => AMQPClass::Basic(Basic::Qos(basic::Qos {
            prefetch_size: n as u32,
            prefetch_count: (n >> 32) as u16,
            global: f,
        })),
        39 => AMQPClass::Basic(Basic::QosOk(basic::QosOk {})),
        40 => AMQPClass::Basic(Basic::Consume(basic::Consume {
            ticket: 0,
            queue: s1,
            consumer_tag: s2,
            no_local: f,
            no_ack: g,
            exclusive: f,
            nowait: g,
            arguments: t,
        })),
        41 => AMQPClass::Basic(Basic::ConsumeOk(basic::ConsumeOk { consumer_tag: s1 })),
        42 => AMQPClass::Basic(Basic::Cancel(basic::Cancel {
            consumer_tag: s1,
            nowait: f,
        })),
        43 => AMQPClass::Basic(Basic::CancelOk(basic::CancelOk { consumer_tag: s1 })),
        44 => AMQPClass::Basic(Basic::Publish(basic::Publish {
            ticket: 0,
            exchange: s1,
            routing_key: s2,
            mandatory: f,
            immediate: g,
        })),
        45 => AMQPClass::Basic(Basic::Return(basic::Return {
            reply_code: n as u16,
            reply_text: s1.clone(),
            exchange: s2,
            routing_key: s1,
        })),
        46 => AMQPClass::Basic(Basic::Deliver(basic::Deliver {
            consumer_tag: s1,
            delivery_tag: n,
            redelivered: f,
            exchange: s2,
            routing_key: "rk".into(),
        })),
        47 => AMQPClass::Basic(Basic::Get(basic::Get {
            ticket: 0,
            queue: s1,
            no_ack: f,
        })),
        48 => AMQPClass::Basic(Basic::GetOk(basic::GetOk {
            delivery_tag: n,
            redelivered: f,
            exchange: s1,
            routing_key: s2,
            message_count: (n >> 7) as u32,
        })),
        49 => AMQPClass::Basic(Basic::GetEmpty(basic::GetEmpty { cluster_id: s1 })),
        50 => AMQPClass::Basic(Basic::Ack(basic::Ack {
            delivery_tag: n,
            multiple: f,
        })),
        51 => AMQPClass::Basic(Basic::Reject(basic::Reject {
            delivery_tag: n,
            requeue: f,
        })),
        52 => AMQPClass::Basic(Basic::RecoverAsync(basic::RecoverAsync { requeue: f })),
        53 => AMQPClass::Basic(Basic::Recover(basic::Recover { requeue: f })),
        54 => AMQPClass::Basic(Basic::RecoverOk(basic::RecoverOk {})),
        55 => AMQPClass::Basic(Basic::Nack(basic::Nack {
            delivery_tag: n,
            multiple: f,
            requeue: g,
        })),
        56 => AMQPClass::Tx(Tx::Select(tx::Select {})),
        57 => AMQPClass::Tx(Tx::SelectOk(tx::SelectOk {})),
        58 => AMQPClass::Tx(Tx::Commit(tx::Commit {})),
        59 => AMQPClass::Tx(Tx::CommitOk(tx::CommitOk {})),
        60 => AMQPClass::Tx(Tx::Rollback(tx::Rollback {})),
        61 => AMQPClass::Tx(Tx::RollbackOk(tx::RollbackOk {})),
        62 => AMQPClass::Confirm(Confirm::Select(confirm::Select { nowait: f })),
        _ => AMQPClass::Confirm(Confirm::SelectOk(confirm::SelectOk {})),
    }
}
