//! Scripted / reactive AMQP peer living on the harness side of the mock transport.

use crate::codec::{encode, StreamDecoder};
use crate::wire::{InItem, Wire};
use amiquip::FieldTable;
use amq_protocol::frame::{AMQPContentHeader, AMQPFrame};
use amq_protocol::protocol::basic::AMQPMethod as Basic;
use amq_protocol::protocol::channel::AMQPMethod as Chan;
use amq_protocol::protocol::confirm::AMQPMethod as Confirm;
use amq_protocol::protocol::connection::AMQPMethod as Conn;
use amq_protocol::protocol::exchange::AMQPMethod as Exch;
use amq_protocol::protocol::queue::AMQPMethod as Queue;
use amq_protocol::protocol::{basic, channel, confirm, connection, exchange, queue, AMQPClass};
use std::collections::VecDeque;
use std::sync::{Arc, Mutex};
use std::thread::JoinHandle;
use std::time::{Duration, Instant};

/// Server side of the handshake.
#[derive(Clone, Debug)]
pub struct ServerCfg {
    pub mechanisms: String,
    pub locales: String,
    pub server_properties: FieldTable,
    pub channel_max: u16,
    pub frame_max: u32,
    pub heartbeat: u16,
    /// cut the handshake replies into segments of this many bytes (0 = whole frames)
    pub handshake_chunk: usize,
    /// answer Connection.Open only after this many milliseconds (a slow server)
    pub open_ok_delay_ms: u64,
    /// raw bytes the server sends right behind OpenOk (frames of its own accord: blocked
    /// notices, heartbeats, ...); the first `trailer_glue` of them travel in the same read
    /// segment as OpenOk, the rest follows as a second segment
    pub trailer: Vec<u8>,
    pub trailer_glue: usize,
    /// a would-block between the two segments (the read that carries OpenOk then really ends
    /// after `trailer_glue` trailer bytes; without it the client may drain both in one go)
    pub trailer_block: bool,
}

impl Default for ServerCfg {
    fn default() -> Self {
        ServerCfg {
            mechanisms: "PLAIN AMQPLAIN EXTERNAL".into(),
            locales: "en_US".into(),
            server_properties: FieldTable::new(),
            channel_max: 2047,
            frame_max: 131072,
            heartbeat: 0,
            handshake_chunk: 0,
            open_ok_delay_ms: 0,
            trailer: Vec::new(),
            trailer_glue: 0,
            trailer_block: false,
        }
    }
}

/// What the broker thread can do to the client.
pub struct BrokerIo {
    pub wire: Wire,
    /// every frame decoded from the client so far (handshake included)
    pub seen: Vec<AMQPFrame>,
    /// frames sent to the client (in order)
    pub sent: Vec<AMQPFrame>,
    pub start: Instant,
    /// set once Connection.Close has been sent: from then on a compliant server discards every
    /// method except Close / Close-Ok, so responders are no longer called
    pub closing: bool,
    /// channels on which Channel.Close has been sent and CloseOk not yet received: a compliant
    /// server discards every other method on such a channel
    pub closing_channels: std::collections::HashSet<u16>,
}

impl BrokerIo {
    pub fn send(&mut self, f: AMQPFrame) {
        if let AMQPFrame::Method(0, AMQPClass::Connection(Conn::Close(_))) = &f {
            self.closing = true;
        }
        if let AMQPFrame::Method(n, AMQPClass::Channel(Chan::Close(_))) = &f {
            self.closing_channels.insert(*n);
        }
        self.wire.push(encode(&f));
        self.sent.push(f);
    }
    /// Send several frames as one read segment.
    pub fn send_glued(&mut self, fs: Vec<AMQPFrame>) {
        let mut bytes = Vec::new();
        for f in &fs {
            if let AMQPFrame::Method(0, AMQPClass::Connection(Conn::Close(_))) = f {
                self.closing = true;
            }
            if let AMQPFrame::Method(n, AMQPClass::Channel(Chan::Close(_))) = f {
                self.closing_channels.insert(*n);
            }
            bytes.extend_from_slice(&encode(f));
        }
        self.wire.push(bytes);
        self.sent.extend(fs);
    }
    /// Send raw bytes cut into the given segment sizes; `block_between` inserts a would-block
    /// marker between segments.
    pub fn send_cut(&mut self, bytes: &[u8], sizes: &[usize], block_between: bool) {
        let mut items = Vec::new();
        let mut pos = 0;
        for &n in sizes {
            if pos >= bytes.len() {
                break;
            }
            let end = usize::min(bytes.len(), pos + n.max(1));
            items.push(InItem::Data(bytes[pos..end].to_vec()));
            if block_between {
                items.push(InItem::Block);
            }
            pos = end;
        }
        if pos < bytes.len() {
            items.push(InItem::Data(bytes[pos..].to_vec()));
        }
        self.wire.push_items(items);
    }
    pub fn send_method(&mut self, ch: u16, m: AMQPClass) {
        self.send(AMQPFrame::Method(ch, m));
    }
}

pub trait Responder: Send + 'static {
    /// A frame from the client was decoded (steady state, after the handshake).
    fn on_frame(&mut self, io: &mut BrokerIo, frame: &AMQPFrame);
    /// Called on every wake-up (at least every few milliseconds while idle).
    fn on_tick(&mut self, _io: &mut BrokerIo) {}
    /// Wake the broker immediately when the client's writer is held by the transport (true for
    /// responders that grant held writes; false avoids spinning during deliberate stalls).
    fn wake_on_hold(&self) -> bool {
        true
    }
}

type Cmd<R> = Box<dyn FnOnce(&mut R, &mut BrokerIo) + Send>;

struct Ctl<R> {
    cmds: VecDeque<Cmd<R>>,
    stop: bool,
    handshake_done: bool,
    handshake_error: Option<String>,
}

pub struct BrokerHandle<R: Responder> {
    ctl: Arc<Mutex<Ctl<R>>>,
    wire: Wire,
    join: Option<JoinHandle<(R, BrokerIo)>>,
}

impl<R: Responder> BrokerHandle<R> {
    /// Run `f` on the broker thread (ordered with respect to the frames it processes).
    pub fn cmd<F: FnOnce(&mut R, &mut BrokerIo) + Send + 'static>(&self, f: F) {
        self.ctl.lock().unwrap().cmds.push_back(Box::new(f));
        self.wire.notify();
    }
    /// Run `f` on the broker thread and wait for its result.
    pub fn call<T: Send + 'static, F: FnOnce(&mut R, &mut BrokerIo) -> T + Send + 'static>(
        &self,
        f: F,
    ) -> Option<T> {
        let (tx, rx) = std::sync::mpsc::channel();
        self.cmd(move |r, io| {
            let _ = tx.send(f(r, io));
        });
        rx.recv_timeout(Duration::from_secs(10)).ok()
    }
    pub fn handshake_done(&self) -> bool {
        self.ctl.lock().unwrap().handshake_done
    }
    pub fn stop(mut self) -> (R, BrokerIo) {
        self.ctl.lock().unwrap().stop = true;
        self.wire.notify();
        self.join.take().unwrap().join().expect("broker thread panicked")
    }
}

fn send_chunked(io: &mut BrokerIo, f: AMQPFrame, chunk: usize) {
    if chunk == 0 {
        io.send(f);
    } else {
        let bytes = encode(&f);
        let n = (bytes.len() + chunk - 1) / chunk;
        io.send_cut(&bytes, &vec![chunk; n], false);
        io.sent.push(f);
    }
}

/// Spawn a broker thread: serves the handshake per `cfg`, then hands every client frame to `r`.
pub fn spawn_broker<R: Responder>(wire: Wire, cfg: ServerCfg, r: R) -> BrokerHandle<R> {
    let ctl = Arc::new(Mutex::new(Ctl {
        cmds: VecDeque::new(),
        stop: false,
        handshake_done: false,
        handshake_error: None,
    }));
    let ctl2 = ctl.clone();
    let wire2 = wire.clone();
    let join = std::thread::Builder::new()
        .name("avh-broker".into())
        .spawn(move || {
            let mut r = r;
            let wire = wire2;
            let mut io = BrokerIo {
                wire: wire.clone(),
                seen: Vec::new(),
                sent: Vec::new(),
                start: Instant::now(),
                closing: false,
                closing_channels: Default::default(),
            };
            let mut dec = StreamDecoder::new();
            let mut fed_len = 0usize;
            // 0 = waiting header, 1 = sent Start, 2 = sent Tune, 3 = waiting Open, 4 = steady
            let mut phase = 0;
            loop {
                let pos0 = dec.pos();
                let out = {
                    let st = wire.lock();
                    // feed only when bytes have arrived since the last look (an incomplete trailing
                    // frame or an undecodable stream must not make this loop spin)
                    if st.out.len() > fed_len && (pos0 > 0 || st.out.len() >= 8) && dec.error.is_none() {
                        fed_len = st.out.len();
                        Some(st.out[pos0..].to_vec())
                    } else {
                        None
                    }
                };
                // commands run after the client's bytes were snapshotted and before they are processed: a
                // command queued before the client wrote a frame therefore always runs before that frame
                // is answered (a check may queue a server-initiated method and then make a client call)
                loop {
                    let c = {
                        let mut g = ctl2.lock().unwrap();
                        if g.stop {
                            return (r, io);
                        }
                        g.cmds.pop_front()
                    };
                    match c {
                        Some(c) => c(&mut r, &mut io),
                        None => break,
                    }
                }
                if let Some(out) = out {
                    let frames = dec.feed_from(&out, pos0);
                    if dec.error.is_some() && !io.closing {
                        // the client sent something that is not a frame: a real broker drops the
                        // connection; doing the same releases every blocked caller quickly (the
                        // check's oracle on the outbound log reports what was wrong)
                        io.closing = true;
                        ctl2.lock().unwrap().handshake_error = dec.error.clone();
                        wire.push_eof();
                    }
                    if phase == 0 && dec.saw_header() {
                        send_chunked(
                            &mut io,
                            AMQPFrame::Method(
                                0,
                                AMQPClass::Connection(Conn::Start(connection::Start {
                                    version_major: 0,
                                    version_minor: 9,
                                    server_properties: cfg.server_properties.clone(),
                                    mechanisms: cfg.mechanisms.clone(),
                                    locales: cfg.locales.clone(),
                                })),
                            ),
                            cfg.handshake_chunk,
                        );
                        phase = 1;
                    }
                    for (_raw, f) in frames {
                        io.seen.push(f.clone());
                        match phase {
                            1 => {
                                if let AMQPFrame::Method(0, AMQPClass::Connection(Conn::StartOk(_))) = &f {
                                    send_chunked(
                                        &mut io,
                                        AMQPFrame::Method(
                                            0,
                                            AMQPClass::Connection(Conn::Tune(connection::Tune {
                                                channel_max: cfg.channel_max,
                                                frame_max: cfg.frame_max,
                                                heartbeat: cfg.heartbeat,
                                            })),
                                        ),
                                        cfg.handshake_chunk,
                                    );
                                    phase = 2;
                                } else {
                                    ctl2.lock().unwrap().handshake_error =
                                        Some(format!("expected StartOk, got {:?}", f));
                                }
                            }
                            2 => {
                                if let AMQPFrame::Method(0, AMQPClass::Connection(Conn::TuneOk(_))) = &f {
                                    phase = 3;
                                }
                            }
                            3 => {
                                if let AMQPFrame::Method(0, AMQPClass::Connection(Conn::Open(_))) = &f {
                                    if cfg.open_ok_delay_ms > 0 {
                                        std::thread::sleep(Duration::from_millis(cfg.open_ok_delay_ms));
                                    }
                                    let open_ok = AMQPFrame::Method(
                                        0,
                                        AMQPClass::Connection(Conn::OpenOk(connection::OpenOk {
                                            known_hosts: String::new(),
                                        })),
                                    );
                                    if cfg.trailer.is_empty() {
                                        send_chunked(&mut io, open_ok, cfg.handshake_chunk);
                                    } else {
                                        let k = cfg.trailer_glue.min(cfg.trailer.len());
                                        let mut first = encode(&open_ok);
                                        first.extend_from_slice(&cfg.trailer[..k]);
                                        let mut items = vec![crate::wire::InItem::Data(first)];
                                        if k < cfg.trailer.len() {
                                            if cfg.trailer_block {
                                                items.push(crate::wire::InItem::Block);
                                            }
                                            items.push(crate::wire::InItem::Data(cfg.trailer[k..].to_vec()));
                                        }
                                        io.wire.push_items(items);
                                        io.sent.push(open_ok);
                                    }
                                    phase = 4;
                                    ctl2.lock().unwrap().handshake_done = true;
                                }
                            }
                            _ => {
                                let chn = crate::codec::frame_channel(&f);
                                if io.closing_channels.contains(&chn) {
                                    if let AMQPFrame::Method(_, AMQPClass::Channel(Chan::CloseOk(_))) = &f {
                                        io.closing_channels.remove(&chn);
                                    }
                                } else if !io.closing || matches!(&f, AMQPFrame::Method(0, AMQPClass::Connection(Conn::CloseOk(_)))) {
                                    r.on_frame(&mut io, &f)
                                }
                            }
                        }
                    }
                }
                r.on_tick(&mut io);
                // sleep until something happens
                let pos = dec.pos();
                let ctl3 = ctl2.clone();
                let woh = r.wake_on_hold();
                let decodable = dec.error.is_none();
                let fl = fed_len;
                wire.wait_until(Duration::from_millis(2), |st| {
                    (decodable && st.out.len() > fl && (fl > 0 || st.out.len() >= 8))
                        || (woh && st.held)
                        || {
                        let g = ctl3.lock().unwrap();
                        g.stop || !g.cmds.is_empty()
                    }
                });
            }
        })
        .expect("spawn broker");
    BrokerHandle {
        ctl,
        wire,
        join: Some(join),
    }
}

// ---------------------------------------------------------------------------------------------
// reply generation

/// Deterministic unique reply values per (salt, channel, sequence).
pub fn uniq(salt: u64, ch: u16, seq: u32, k: u32) -> u32 {
    let mut h = salt ^ 0x5851_F42D_4C95_7F2D;
    for v in [ch as u64, seq as u64, k as u64] {
        h ^= v.wrapping_add(0x9E37_79B9_7F4A_7C15);
        h = h.wrapping_mul(0xBF58_476D_1CE4_E5B9);
        h ^= h >> 29;
    }
    h as u32
}

/// The reply a well-behaved server gives to a synchronous method, with unique values.
/// Returns None for methods that have no reply (nowait variants, publish, ack, ...).
pub fn reply_for(salt: u64, ch: u16, seq: u32, m: &AMQPClass) -> Option<AMQPClass> {
    let u = |k| uniq(salt, ch, seq, k);
    Some(match m {
        AMQPClass::Channel(Chan::Open(_)) => AMQPClass::Channel(Chan::OpenOk(channel::OpenOk {
            channel_id: String::new(),
        })),
        AMQPClass::Channel(Chan::Close(_)) => AMQPClass::Channel(Chan::CloseOk(channel::CloseOk {})),
        AMQPClass::Connection(Conn::Close(_)) => {
            AMQPClass::Connection(Conn::CloseOk(connection::CloseOk {}))
        }
        AMQPClass::Queue(Queue::Declare(d)) if !d.nowait => {
            AMQPClass::Queue(Queue::DeclareOk(queue::DeclareOk {
                queue: if d.queue.is_empty() {
                    format!("amq.gen-{:08x}", u(0))
                } else {
                    d.queue.clone()
                },
                message_count: u(1),
                consumer_count: u(2),
            }))
        }
        AMQPClass::Queue(Queue::Bind(b)) if !b.nowait => {
            AMQPClass::Queue(Queue::BindOk(queue::BindOk {}))
        }
        AMQPClass::Queue(Queue::Unbind(_)) => AMQPClass::Queue(Queue::UnbindOk(queue::UnbindOk {})),
        AMQPClass::Queue(Queue::Purge(p)) if !p.nowait => {
            AMQPClass::Queue(Queue::PurgeOk(queue::PurgeOk {
                message_count: u(3),
            }))
        }
        AMQPClass::Queue(Queue::Delete(d)) if !d.nowait => {
            AMQPClass::Queue(Queue::DeleteOk(queue::DeleteOk {
                message_count: u(4),
            }))
        }
        AMQPClass::Exchange(Exch::Declare(d)) if !d.nowait => {
            AMQPClass::Exchange(Exch::DeclareOk(exchange::DeclareOk {}))
        }
        AMQPClass::Exchange(Exch::Delete(d)) if !d.nowait => {
            AMQPClass::Exchange(Exch::DeleteOk(exchange::DeleteOk {}))
        }
        AMQPClass::Exchange(Exch::Bind(b)) if !b.nowait => {
            AMQPClass::Exchange(Exch::BindOk(exchange::BindOk {}))
        }
        AMQPClass::Exchange(Exch::Unbind(b)) if !b.nowait => {
            AMQPClass::Exchange(Exch::UnbindOk(exchange::UnbindOk {}))
        }
        AMQPClass::Basic(Basic::Qos(_)) => AMQPClass::Basic(Basic::QosOk(basic::QosOk {})),
        AMQPClass::Basic(Basic::Recover(_)) => {
            AMQPClass::Basic(Basic::RecoverOk(basic::RecoverOk {}))
        }
        AMQPClass::Basic(Basic::Consume(c)) if !c.nowait => {
            AMQPClass::Basic(Basic::ConsumeOk(basic::ConsumeOk {
                consumer_tag: if c.consumer_tag.is_empty() {
                    format!("ctag-{}-{}-{:08x}", ch, seq, u(5))
                } else {
                    c.consumer_tag.clone()
                },
            }))
        }
        AMQPClass::Basic(Basic::Cancel(c)) if !c.nowait => {
            AMQPClass::Basic(Basic::CancelOk(basic::CancelOk {
                consumer_tag: c.consumer_tag.clone(),
            }))
        }
        AMQPClass::Basic(Basic::Get(_)) => AMQPClass::Basic(Basic::GetEmpty(basic::GetEmpty {
            cluster_id: String::new(),
        })),
        AMQPClass::Confirm(Confirm::Select(s)) if !s.nowait => {
            AMQPClass::Confirm(Confirm::SelectOk(confirm::SelectOk {}))
        }
        _ => return None,
    })
}

/// Frames of one content-carrying message: method, header, body frames of the given sizes.
pub fn content_frames(
    ch: u16,
    method: AMQPClass,
    props: &amiquip::AmqpProperties,
    body: &[u8],
    chunk_sizes: &[usize],
) -> Vec<AMQPFrame> {
    let mut v = vec![
        AMQPFrame::Method(ch, method),
        AMQPFrame::Header(
            ch,
            60,
            Box::new(AMQPContentHeader {
                class_id: 60,
                weight: 0,
                body_size: body.len() as u64,
                properties: props.clone(),
            }),
        ),
    ];
    let mut pos = 0;
    for &n in chunk_sizes {
        if pos >= body.len() {
            break;
        }
        let end = usize::min(body.len(), pos + n.max(1));
        v.push(AMQPFrame::Body(ch, body[pos..end].to_vec()));
        pos = end;
    }
    if pos < body.len() {
        v.push(AMQPFrame::Body(ch, body[pos..].to_vec()));
    }
    v
}

/// A broker that answers every synchronous method immediately with unique values.
pub struct AutoBroker {
    pub salt: u64,
    /// per-channel count of synchronous requests answered
    pub seq: std::collections::HashMap<u16, u32>,
    /// (channel, seq, request, reply) log
    pub log: Vec<(u16, u32, AMQPClass, AMQPClass)>,
    /// grant held writes automatically
    pub auto_grant: bool,
    /// answer nothing any more (a server that has gone silent)
    pub mute: bool,
}

impl AutoBroker {
    pub fn new(salt: u64) -> AutoBroker {
        AutoBroker {
            salt,
            seq: Default::default(),
            log: Vec::new(),
            auto_grant: true,
            mute: false,
        }
    }
}

/// The frames a well-behaved server sends in reaction to one client method: the reply (with
/// unique values) plus, for "full." queues, the message a Get returns / the delivery that follows
/// a Consume. None for methods without a reply.
pub fn reply_bundle(salt: u64, ch: u16, seq: u32, m: &AMQPClass) -> Option<Vec<AMQPFrame>> {
    let reply = reply_for(salt, ch, seq, m)?;
    let u = |k| uniq(salt, ch, seq, k);
    Some(match m {
        AMQPClass::Basic(Basic::Get(g)) if crate::ops::is_full_queue(&g.queue) => {
            let body = crate::ops::full_message_body(salt, ch, seq);
            content_frames(
                ch,
                AMQPClass::Basic(Basic::GetOk(basic::GetOk {
                    delivery_tag: crate::ops::delivery_tag_for(salt, ch, seq),
                    redelivered: u(14) & 1 == 1,
                    exchange: format!("ex-{:x}", u(15)),
                    routing_key: format!("rk-{:x}", u(16)),
                    message_count: u(17),
                })),
                &amiquip::AmqpProperties::default(),
                &body,
                &[7, 13],
            )
        }
        AMQPClass::Basic(Basic::Consume(c)) if crate::ops::is_full_queue(&c.queue) => {
            let tag = match &reply {
                AMQPClass::Basic(Basic::ConsumeOk(ok)) => ok.consumer_tag.clone(),
                _ => String::new(),
            };
            let body = crate::ops::full_message_body(salt, ch, seq);
            let mut v = vec![AMQPFrame::Method(ch, reply.clone())];
            v.extend(content_frames(
                ch,
                AMQPClass::Basic(Basic::Deliver(basic::Deliver {
                    consumer_tag: tag,
                    delivery_tag: crate::ops::delivery_tag_for(salt, ch, seq),
                    redelivered: u(14) & 1 == 1,
                    exchange: format!("ex-{:x}", u(15)),
                    routing_key: format!("rk-{:x}", u(16)),
                })),
                &amiquip::AmqpProperties::default(),
                &body,
                &[5, 1000],
            ));
            v
        }
        _ => vec![AMQPFrame::Method(ch, reply)],
    })
}

impl Responder for AutoBroker {
    fn on_frame(&mut self, io: &mut BrokerIo, frame: &AMQPFrame) {
        if self.mute {
            return;
        }
        if let AMQPFrame::Method(ch, m) = frame {
            let seq = self.seq.entry(*ch).or_insert(0);
            if let Some(bundle) = reply_bundle(self.salt, *ch, *seq, m) {
                if let Some(reply) = reply_for(self.salt, *ch, *seq, m) {
                    self.log.push((*ch, *seq, m.clone(), reply));
                }
                *seq += 1;
                for f in bundle {
                    io.send(f);
                }
            }
        }
    }
    fn on_tick(&mut self, io: &mut BrokerIo) {
        if self.auto_grant && io.wire.is_held() {
            io.wire.grant(0);
        }
    }
    fn wake_on_hold(&self) -> bool {
        self.auto_grant
    }
}
