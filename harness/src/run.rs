//! Case loop: per-case seeding, parallel execution, shrinking, replay files, known findings,
//! evidence.

use proptest::strategy::{BoxedStrategy, Strategy, ValueTree};
use proptest::test_runner::{Config, RngAlgorithm, TestRng, TestRunner};
use serde::de::DeserializeOwned;
use serde::{Deserialize, Serialize};
use serde_json::{json, Value};
use std::collections::{BTreeMap, HashMap, HashSet};
use std::fmt::Debug;
use std::path::{Path, PathBuf};
use std::sync::OnceLock;
use std::sync::atomic::{AtomicBool, AtomicUsize, Ordering};
use std::sync::Mutex;
use std::thread::ThreadId;
use std::time::{Duration, Instant};

#[derive(Clone, Copy, Debug, PartialEq, Eq)]
pub enum Tier {
    Quick,
    Thorough,
}

impl Tier {
    pub fn name(self) -> &'static str {
        match self {
            Tier::Quick => "quick",
            Tier::Thorough => "thorough",
        }
    }
    pub fn pick<T>(self, quick: T, thorough: T) -> T {
        match self {
            Tier::Quick => quick,
            Tier::Thorough => thorough,
        }
    }
}

#[derive(Clone, Debug)]
pub struct Failure {
    /// root-cause signature (property-relative), e.g. "explicit-id-reissued-from-freed-set"
    pub sig: String,
    pub msg: String,
    /// true when the failure is "did not return in time" (needs confirmation by replay)
    pub hang: bool,
}

#[derive(Clone, Debug, Default)]
pub struct Outcome {
    pub fail: Option<Failure>,
    pub nontrivial: bool,
    pub labels: Vec<String>,
    /// inconclusive (e.g. harness-side timeout that is not a property statement)
    pub inconclusive: Option<String>,
}

impl Outcome {
    pub fn pass(nontrivial: bool) -> Outcome {
        Outcome {
            nontrivial,
            ..Default::default()
        }
    }
    pub fn label<S: Into<String>>(mut self, l: S) -> Outcome {
        self.labels.push(l.into());
        self
    }
    pub fn fail<S: Into<String>, M: Into<String>>(sig: S, msg: M) -> Outcome {
        Outcome {
            fail: Some(Failure {
                sig: sig.into(),
                msg: msg.into(),
                hang: false,
            }),
            nontrivial: true,
            ..Default::default()
        }
    }
    pub fn hang<S: Into<String>, M: Into<String>>(sig: S, msg: M) -> Outcome {
        Outcome {
            fail: Some(Failure {
                sig: sig.into(),
                msg: msg.into(),
                hang: true,
            }),
            nontrivial: true,
            ..Default::default()
        }
    }
}

// ---------------------------------------------------------------------------------------------
// panic capture

#[derive(Clone, Debug)]
pub struct PanicRecord {
    pub thread: ThreadId,
    pub thread_name: String,
    pub message: String,
    pub location: String,
}

static PANICS: Mutex<Vec<PanicRecord>> = Mutex::new(Vec::new());
static PANIC_VERBOSE: AtomicBool = AtomicBool::new(false);

pub fn install_panic_hook() {
    std::panic::set_hook(Box::new(|info| {
        let msg = if let Some(s) = info.payload().downcast_ref::<&str>() {
            s.to_string()
        } else if let Some(s) = info.payload().downcast_ref::<String>() {
            s.clone()
        } else {
            "<non-string panic payload>".to_string()
        };
        let loc = info
            .location()
            .map(|l| format!("{}:{}", l.file(), l.line()))
            .unwrap_or_default();
        let t = std::thread::current();
        if PANIC_VERBOSE.load(Ordering::Relaxed) {
            eprintln!("[panic] thread {:?} at {}: {}", t.name(), loc, msg);
        }
        let mut g = PANICS.lock().unwrap_or_else(|e| e.into_inner());
        g.push(PanicRecord {
            thread: t.id(),
            thread_name: t.name().unwrap_or("").to_string(),
            message: msg,
            location: loc,
        });
    }));
}

pub fn set_panic_verbose(v: bool) {
    PANIC_VERBOSE.store(v, Ordering::Relaxed);
}

/// Remove and return the panics recorded for one thread.
pub fn take_panics(thread: ThreadId) -> Vec<PanicRecord> {
    let mut g = PANICS.lock().unwrap_or_else(|e| e.into_inner());
    let mut out = Vec::new();
    let mut i = 0;
    while i < g.len() {
        if g[i].thread == thread {
            out.push(g.remove(i));
        } else {
            i += 1;
        }
    }
    out
}

/// Run `f`, catching a panic of the current thread; the record is removed from the global log.
pub fn catch<T, F: FnOnce() -> T + std::panic::UnwindSafe>(f: F) -> Result<T, PanicRecord> {
    match std::panic::catch_unwind(f) {
        Ok(v) => Ok(v),
        Err(_) => {
            let mut p = take_panics(std::thread::current().id());
            Err(p.pop().unwrap_or(PanicRecord {
                thread: std::thread::current().id(),
                thread_name: String::new(),
                message: "<panic>".into(),
                location: String::new(),
            }))
        }
    }
}

// ---------------------------------------------------------------------------------------------
// known findings

#[derive(Clone, Debug, Deserialize)]
pub struct KnownFinding {
    pub property: String,
    pub signature: String,
    pub status: String, // "open" | "fixed"
    #[serde(default)]
    pub commit: Option<String>,
    pub what: String,
}

pub fn verif_root() -> PathBuf {
    if let Ok(p) = std::env::var("VERIF_ROOT") {
        return PathBuf::from(p);
    }
    // harness binary lives in <root>/harness/target/release/avh
    let exe = std::env::current_exe().unwrap_or_default();
    let mut p = exe.as_path();
    for _ in 0..4 {
        p = p.parent().unwrap_or(Path::new("/verif"));
    }
    if p.join("properties.jsonl").exists() {
        p.to_path_buf()
    } else {
        PathBuf::from("/verif")
    }
}

pub fn load_known(root: &Path) -> Vec<KnownFinding> {
    let p = root.join("known_findings.json");
    match std::fs::read_to_string(&p) {
        Ok(s) => {
            let v: Value = serde_json::from_str(&s).unwrap_or(json!({"findings": []}));
            serde_json::from_value(v["findings"].clone()).unwrap_or_default()
        }
        Err(_) => Vec::new(),
    }
}

// ---------------------------------------------------------------------------------------------
// report / evidence

#[derive(Default)]
pub struct PartReport {
    pub name: String,
    pub rule: String,
    pub evaluations: usize,
    pub nontrivial: usize,
    pub distinct_nontrivial: usize,
    pub labels: BTreeMap<String, usize>,
    pub samples: Vec<Value>,
    pub exhaustive: bool,
    pub replays_run: usize,
    pub inconclusive: usize,
    pub extra: BTreeMap<String, Value>,
}

pub struct Violation {
    pub part: String,
    pub sig: String,
    pub msg: String,
    pub replay: PathBuf,
    pub hang: bool,
}

pub struct Report {
    pub property: String,
    pub tier: Tier,
    pub seed: u64,
    pub root: PathBuf,
    pub start: Instant,
    pub parts: Vec<PartReport>,
    pub violations: Vec<Violation>,
    pub known: Vec<KnownFinding>,
    pub known_hits: BTreeMap<String, usize>,
    pub assumptions: Vec<String>,
    pub strict: bool,
    pub min_nontrivial: usize,
}

impl Report {
    pub fn new(property: &str, tier: Tier, seed: u64) -> Report {
        let root = verif_root();
        let known = load_known(&root)
            .into_iter()
            .filter(|k| k.property == property)
            .collect();
        Report {
            property: property.to_string(),
            tier,
            seed,
            root,
            start: Instant::now(),
            parts: Vec::new(),
            violations: Vec::new(),
            known,
            known_hits: BTreeMap::new(),
            assumptions: Vec::new(),
            strict: false,
            min_nontrivial: 2,
        }
    }

    pub fn is_known_open(&self, sig: &str) -> bool {
        !self.strict
            && self
                .known
                .iter()
                .any(|k| k.status == "open" && k.signature == sig)
    }

    pub fn work_dir(&self) -> PathBuf {
        let d = self.root.join("work").join(&self.property);
        let _ = std::fs::create_dir_all(&d);
        d
    }

    pub fn evidence_json(&self) -> Value {
        let evaluations: usize = self.parts.iter().map(|p| p.evaluations).sum();
        let distinct: usize = self.parts.iter().map(|p| p.distinct_nontrivial).sum();
        let mut samples = Vec::new();
        for p in &self.parts {
            for s in p.samples.iter().take(3) {
                samples.push(json!({"part": p.name, "case": s}));
            }
        }
        let rule = self
            .parts
            .iter()
            .map(|p| format!("[{}] {}", p.name, p.rule))
            .collect::<Vec<_>>()
            .join(" || ");
        let parts: Vec<Value> = self
            .parts
            .iter()
            .map(|p| {
                json!({
                    "part": p.name,
                    "evaluations": p.evaluations,
                    "nontrivial": p.nontrivial,
                    "distinct_nontrivial": p.distinct_nontrivial,
                    "classes": p.labels,
                    "exhaustive": p.exhaustive,
                    "committed_replays_run": p.replays_run,
                    "inconclusive_cases": p.inconclusive,
                    "extra": p.extra,
                })
            })
            .collect();
        let excluded: usize = self.known_hits.values().sum();
        json!({
            "property_id": self.property,
            "tier": self.tier.name(),
            "seed": self.seed,
            "level": "exploration",
            "coverage": {
                "evaluations": evaluations,
                "distinct_nontrivial": distinct,
                "rule": rule,
                "samples": samples,
                "exhaustive": !self.parts.is_empty() && self.parts.iter().all(|p| p.exhaustive),
                "parts": parts,
                "excluded_known": excluded,
                "known_findings_hit": self.known_hits,
            },
            "assumptions": self.assumptions,
            "wall_s": self.start.elapsed().as_secs_f64(),
            "violations": self.violations.len(),
        })
    }

    /// Write evidence, print verdict lines, return the process exit code.
    pub fn finish(&self) -> i32 {
        let ev = self.evidence_json();
        // mutation experiments redirect their evidence so that the committed files always stem
        // from runs on the unchanged tree
        let dir = std::env::var("VERIF_EVIDENCE_DIR").map(PathBuf::from).unwrap_or_else(|_| self.root.join("evidence"));
        let _ = std::fs::create_dir_all(&dir);
        let path = dir.join(format!("{}.json", self.property));
        let tmp = dir.join(format!(".{}.json.tmp", self.property));
        let _ = std::fs::write(&tmp, serde_json::to_string_pretty(&ev).unwrap());
        let _ = std::fs::rename(&tmp, &path);
        for k in &self.known {
            if k.status == "open" {
                println!(
                    "KNOWN-FINDING: property={} {} [{}] (matching cases this run: {})",
                    self.property,
                    k.what,
                    k.signature,
                    self.known_hits.get(&k.signature).copied().unwrap_or(0)
                );
            }
        }
        for p in &self.parts {
            println!(
                "part {:<14} evaluations={} nontrivial={} distinct_nontrivial={} inconclusive={} classes={:?}",
                p.name, p.evaluations, p.nontrivial, p.distinct_nontrivial, p.inconclusive, p.labels
            );
        }
        if !self.violations.is_empty() {
            for v in &self.violations {
                println!(
                    "VIOLATION property={} replay={}",
                    self.property,
                    v.replay.display()
                );
                println!("  part={} signature={} hang={}", v.part, v.sig, v.hang);
                // the full text is in the replay file
                for l in v.msg.lines().take(12) {
                    if l.len() > 1200 {
                        let cut = (0..=1200).rev().find(|i| l.is_char_boundary(*i)).unwrap_or(0);
                        println!("  {} ... [{} more bytes]", &l[..cut], l.len() - cut);
                    } else {
                        println!("  {}", l);
                    }
                }
            }
            return 1;
        }
        if std::env::var("AVH_FDS").is_ok() {
            let n = std::fs::read_dir("/proc/self/fd").map(|d| d.count()).unwrap_or(0);
            let evals: usize = self.parts.iter().map(|p| p.evaluations).sum();
            eprintln!("[fds] {} open file descriptors after {} cases", n, evals);
        }
        let distinct: usize = self.parts.iter().map(|p| p.distinct_nontrivial).sum();
        if distinct < self.min_nontrivial {
            println!(
                "INCONCLUSIVE property={} distinct_nontrivial={} below floor {}",
                self.property, distinct, self.min_nontrivial
            );
            return 2;
        }
        // a part in which most cases could not be judged has not explored what it claims
        if let Some(p) = self.parts.iter().find(|p| p.evaluations >= 20 && p.inconclusive * 2 > p.evaluations) {
            println!(
                "INCONCLUSIVE property={} part {}: {} of {} cases could not be judged (see the [note] lines)",
                self.property, p.name, p.inconclusive, p.evaluations
            );
            return 2;
        }
        println!(
            "OK property={} tier={} seed={} wall_s={:.1}",
            self.property,
            self.tier.name(),
            self.seed,
            self.start.elapsed().as_secs_f64()
        );
        0
    }
}

// ---------------------------------------------------------------------------------------------
// handles that must stay alive for the rest of a session although nobody needs them any more

/// Keep `x` alive for now and drop it a few seconds later on a helper thread. Used instead of
/// `mem::forget` for channels whose `Drop` would put a Channel.Close on the wire in the middle
/// of a session: a forgotten channel keeps its connection's readiness queue (two file
/// descriptors) alive for ever, which exhausts the descriptor limit in long runs.
pub fn bury<T: Send + 'static>(x: T) {
    static GRAVEYARD: OnceLock<Mutex<Vec<(Instant, Box<dyn Send>)>>> = OnceLock::new();
    static REAPER: OnceLock<()> = OnceLock::new();
    let g = GRAVEYARD.get_or_init(|| Mutex::new(Vec::new()));
    g.lock().unwrap_or_else(|e| e.into_inner()).push((Instant::now(), Box::new(x)));
    REAPER.get_or_init(|| {
        let _ = std::thread::Builder::new().name("avh-reaper".into()).spawn(move || loop {
            std::thread::sleep(Duration::from_millis(250));
            let due: Vec<Box<dyn Send>> = {
                let mut v = g.lock().unwrap_or_else(|e| e.into_inner());
                let mut due = Vec::new();
                let mut i = 0;
                while i < v.len() {
                    if v[i].0.elapsed() > Duration::from_secs(3) {
                        due.push(v.swap_remove(i).1);
                    } else {
                        i += 1;
                    }
                }
                due
            };
            if !due.is_empty() {
                // a Drop that talks to a connection which is still alive may block: not here
                let _ = std::thread::Builder::new().name("avh-reaper-drop".into()).spawn(move || drop(due));
            }
        });
    });
}

// ---------------------------------------------------------------------------------------------
// parts

fn mix(mut h: u64, v: u64) -> u64 {
    h ^= v.wrapping_add(0x9E37_79B9_7F4A_7C15).wrapping_add(h << 6).wrapping_add(h >> 2);
    h = h.wrapping_mul(0xBF58_476D_1CE4_E5B9);
    h ^ (h >> 31)
}

pub fn hash_str(s: &str) -> u64 {
    let mut h = 0xcbf2_9ce4_8422_2325u64;
    for b in s.bytes() {
        h ^= b as u64;
        h = h.wrapping_mul(0x0000_0100_0000_01B3);
    }
    h
}

fn case_rng(seed: u64, property: &str, part: &str, index: u64) -> TestRng {
    let mut h = mix(seed, hash_str(property));
    h = mix(h, hash_str(part));
    h = mix(h, index);
    let mut bytes = [0u8; 32];
    for i in 0..4 {
        h = mix(h, i as u64 + 1);
        bytes[i * 8..i * 8 + 8].copy_from_slice(&h.to_le_bytes());
    }
    TestRng::from_seed(RngAlgorithm::ChaCha, &bytes)
}

pub trait PartDyn: Sync {
    fn name(&self) -> &'static str;
    fn run(&self, rep: &mut Report);
    fn replay(&self, case: &Value) -> Result<Outcome, String>;
    /// Coverage-guided entry: the fuzzer's bytes are decoded into the part's case type by a
    /// structure-preserving serde decoder (bytede.rs), mapped into the generator's domain by the
    /// part's `fuzz` sanitizer, and judged by the same oracle. Returns the rendered case and the
    /// failure, if the oracle rejected it.
    fn fuzz_bytes(&self, data: &[u8]) -> Option<(Value, Failure)>;
    /// Like `fuzz_bytes`, then shrink with the harness's shrinker and save a replay file.
    fn fuzz_to_replay(&self, data: &[u8], rep: &Report) -> Option<(PathBuf, Failure)>;
}

pub struct Part<C: 'static> {
    pub name: &'static str,
    pub rule: &'static str,
    pub cases: fn(Tier) -> usize,
    pub threads: usize,
    pub strategy: fn(Tier) -> BoxedStrategy<C>,
    pub exec: fn(&C) -> Outcome,
    /// cases enumerated exhaustively before the random ones
    pub enumerate: Option<fn(Tier) -> Vec<C>>,
    /// maximum number of oracle evaluations spent on shrinking one failure
    pub shrink_budget: usize,
    /// how many times a failing (non-hang) case must reproduce out of `confirm_runs` re-runs
    pub confirm_runs: usize,
    /// libFuzzer entry: maps a case decoded from raw bytes (bytede.rs) into the generator's domain;
    /// None = the part is not fuzzed
    pub fuzz: Option<fn(C) -> C>,
    /// per-case watchdog in seconds (0 = none): the case runs on a helper thread; if it does not
    /// finish in time it is reported as a hang suspect (confirmed by re-execution) and the thread is
    /// abandoned. Every end-to-end part has one, so a change that makes some call block for ever
    /// cannot stall the whole check.
    pub watchdog_s: u64,
}

#[derive(Serialize, Deserialize)]
struct ReplayFile {
    property: String,
    part: String,
    signature: String,
    message: String,
    seed: u64,
    index: i64,
    hang: bool,
    case: Value,
}

fn render<C: Serialize>(c: &C) -> Value {
    serde_json::to_value(c).unwrap_or(Value::Null)
}

fn truncate_value(v: &Value, max: usize) -> Value {
    let s = serde_json::to_string(v).unwrap_or_default();
    if s.len() <= max {
        v.clone()
    } else {
        let mut cut = max;
        while !s.is_char_boundary(cut) {
            cut -= 1;
        }
        Value::String(format!("{}… ({} bytes of JSON)", &s[..cut], s.len()))
    }
}

impl<C> Part<C>
where
    C: Clone + Debug + Serialize + DeserializeOwned + Send + 'static,
{
    /// Execute one case, under the part's watchdog if it has one.
    pub fn run_exec(&self, case: &C) -> Outcome {
        if self.watchdog_s == 0 {
            return (self.exec)(case);
        }
        let (tx, rx) = std::sync::mpsc::channel();
        let c = case.clone();
        let exec = self.exec;
        let spawned = std::thread::Builder::new().name(format!("avh-case-{}", self.name)).spawn(move || {
            let _ = tx.send(exec(&c));
        });
        if spawned.is_err() {
            return (self.exec)(case);
        }
        match rx.recv_timeout(Duration::from_secs(self.watchdog_s)) {
            Ok(o) => o,
            Err(_) => Outcome::hang(
                "case-watchdog",
                format!("the case did not finish within {} s (typical: milliseconds to a few seconds); some call never returned", self.watchdog_s),
            ),
        }
    }

    fn shrink(
        &self,
        tree: &mut dyn ValueTree<Value = C>,
        first: &Failure,
    ) -> (C, Failure, usize) {
        let mut best = tree.current();
        let mut best_fail = first.clone();
        let mut evals = 0usize;
        let deadline = Instant::now() + Duration::from_secs(if first.hang { 25 } else { 90 });
        let budget = if std::env::var("AVH_NO_SHRINK").is_ok() {
            0
        } else if first.sig == "case-watchdog" {
            // each evaluation would cost a full watchdog period
            0
        } else if first.hang {
            self.shrink_budget.min(3)
        } else {
            self.shrink_budget
        };
        if budget == 0 || !tree.simplify() {
            return (best, best_fail, evals);
        }
        loop {
            if evals >= budget || Instant::now() > deadline {
                break;
            }
            let cur = tree.current();
            evals += 1;
            let out = self.run_exec(&cur);
            let same = out
                .fail
                .as_ref()
                .map_or(false, |f| f.sig == first.sig);
            if same {
                best = cur;
                best_fail = out.fail.unwrap();
                if !tree.simplify() {
                    break;
                }
            } else if !tree.complicate() {
                break;
            }
        }
        (best, best_fail, evals)
    }

    fn save_replay(&self, rep: &Report, case: &C, f: &Failure, index: i64) -> PathBuf {
        let file = ReplayFile {
            property: rep.property.clone(),
            part: self.name.to_string(),
            signature: f.sig.clone(),
            message: f.msg.clone(),
            seed: rep.seed,
            index,
            hang: f.hang,
            case: render(case),
        };
        let safe: String = f
            .sig
            .chars()
            .map(|c| if c.is_ascii_alphanumeric() || c == '-' { c } else { '_' })
            .take(60)
            .collect();
        let path = rep
            .work_dir()
            .join(format!("{}-{}-{}.case", self.name, safe, index));
        let _ = std::fs::write(&path, serde_json::to_string_pretty(&file).unwrap());
        path
    }
}

enum WorkItem<C> {
    Enumerated(usize, C),
    Generated(u64),
}

struct Shared<C> {
    next: AtomicUsize,
    stop: AtomicBool,
    results: Mutex<Agg<C>>,
}

struct Agg<C> {
    evaluations: usize,
    nontrivial: usize,
    inconclusive: usize,
    inconclusive_reasons: BTreeMap<String, usize>,
    distinct: HashSet<u64>,
    labels: BTreeMap<String, usize>,
    samples: Vec<(u64, Value)>,
    known_hits: BTreeMap<String, usize>,
    failures: Vec<(i64, C, Failure)>,
    seen_sigs: HashMap<String, usize>,
}

impl<C> PartDyn for Part<C>
where
    C: Clone + Debug + Serialize + DeserializeOwned + Send + Sync + 'static,
{
    fn name(&self) -> &'static str {
        self.name
    }

    fn replay(&self, case: &Value) -> Result<Outcome, String> {
        let c: C = serde_json::from_value(case.clone()).map_err(|e| format!("bad case: {}", e))?;
        Ok(self.run_exec(&c))
    }

    fn fuzz_bytes(&self, data: &[u8]) -> Option<(Value, Failure)> {
        let sanitize = self.fuzz?;
        let case: C = crate::bytede::from_bytes(data).ok()?;
        let case = sanitize(case);
        let out = (self.exec)(&case);
        out.fail.map(|f| (render(&case), f))
    }

    fn fuzz_to_replay(&self, data: &[u8], rep: &Report) -> Option<(PathBuf, Failure)> {
        let sanitize = self.fuzz?;
        let case: C = crate::bytede::from_bytes(data).ok()?;
        let case = sanitize(case);
        let out = (self.exec)(&case);
        let f = out.fail?;
        // minimise by deleting chunks of the input (the decoder is total), keeping the signature
        let mut best = data.to_vec();
        let mut best_case = case;
        let mut best_fail = f.clone();
        let mut budget = self.shrink_budget.max(200);
        let mut cut = best.len() / 2;
        while cut >= 1 && budget > 0 {
            let mut progressed = false;
            let mut i = 0;
            while i + cut <= best.len() && budget > 0 {
                budget -= 1;
                let mut cand = best.clone();
                cand.drain(i..i + cut);
                let c2: Option<C> = crate::bytede::from_bytes(&cand).ok().map(sanitize);
                if let Some(c2) = c2 {
                    if let Some(f2) = (self.exec)(&c2).fail {
                        if f2.sig == f.sig {
                            best = cand;
                            best_case = c2;
                            best_fail = f2;
                            progressed = true;
                            continue;
                        }
                    }
                }
                i += cut;
            }
            if !progressed {
                cut /= 2;
            }
        }
        let path = self.save_replay(rep, &best_case, &best_fail, -1_000_000);
        Some((path, best_fail))
    }

    fn run(&self, rep: &mut Report) {
        let tier = rep.tier;
        let mut pr = PartReport {
            name: self.name.to_string(),
            rule: self.rule.to_string(),
            ..Default::default()
        };

        // 1. committed replays first (strict on their own signature unless listed open)
        let rdir = rep.root.join("replays").join(&rep.property);
        if let Ok(rd) = std::fs::read_dir(&rdir) {
            let mut files: Vec<PathBuf> = rd
                .filter_map(|e| e.ok().map(|e| e.path()))
                .filter(|p| p.extension().map_or(false, |e| e == "case"))
                .collect();
            files.sort();
            for f in files {
                let s = match std::fs::read_to_string(&f) {
                    Ok(s) => s,
                    Err(_) => continue,
                };
                let rf: ReplayFile = match serde_json::from_str(&s) {
                    Ok(r) => r,
                    Err(_) => continue,
                };
                if rf.part != self.name {
                    continue;
                }
                let c: C = match serde_json::from_value(rf.case.clone()) {
                    Ok(c) => c,
                    Err(e) => {
                        eprintln!("replay {} no longer matches the case type: {}", f.display(), e);
                        continue;
                    }
                };
                pr.replays_run += 1;
                let out = self.run_exec(&c);
                if let Some(fl) = out.fail {
                    if rep.is_known_open(&fl.sig) {
                        *rep.known_hits.entry(fl.sig.clone()).or_default() += 1;
                    } else {
                        rep.violations.push(Violation {
                            part: self.name.to_string(),
                            sig: fl.sig.clone(),
                            msg: format!("(committed replay) {}", fl.msg),
                            replay: f.clone(),
                            hang: fl.hang,
                        });
                    }
                }
            }
        }

        // 2. enumerated + generated cases
        let enumerated: Vec<C> = self.enumerate.map(|f| f(tier)).unwrap_or_default();
        let n_enum = enumerated.len();
        let n_gen = (self.cases)(tier);
        let total = n_enum + n_gen;
        let shared = Shared::<C> {
            next: AtomicUsize::new(0),
            stop: AtomicBool::new(false),
            results: Mutex::new(Agg {
                evaluations: 0,
                nontrivial: 0,
                inconclusive: 0,
                inconclusive_reasons: BTreeMap::new(),
                distinct: HashSet::new(),
                labels: BTreeMap::new(),
                samples: Vec::new(),
                known_hits: BTreeMap::new(),
                failures: Vec::new(),
                seen_sigs: HashMap::new(),
            }),
        };
        let enumerated = &enumerated;
        let shared_ref = &shared;
        let seed = rep.seed;
        let property = rep.property.clone();
        let known_open: Vec<String> = rep
            .known
            .iter()
            .filter(|k| k.status == "open" && !rep.strict)
            .map(|k| k.signature.clone())
            .collect();
        let known_open = &known_open;
        let journal: Option<PathBuf> = std::env::var("AVH_JOURNAL").ok().map(PathBuf::from);
        let journal = &journal;
        let threads = if journal.is_some() { 1 } else { usize::max(1, usize::min(self.threads, total.max(1))) };
        std::thread::scope(|scope| {
            for _ in 0..threads {
                let property = property.clone();
                scope.spawn(move || {
                    let strat = (self.strategy)(tier);
                    loop {
                        if shared_ref.stop.load(Ordering::Relaxed) {
                            break;
                        }
                        let i = shared_ref.next.fetch_add(1, Ordering::Relaxed);
                        if i >= total {
                            break;
                        }
                        let item = if i < n_enum {
                            WorkItem::Enumerated(i, enumerated[i].clone())
                        } else {
                            WorkItem::Generated((i - n_enum) as u64)
                        };
                        let (index, case, mut tree): (i64, C, Option<Box<dyn ValueTree<Value = C>>>) =
                            match item {
                                WorkItem::Enumerated(i, c) => (-(i as i64) - 1, c, None),
                                WorkItem::Generated(idx) => {
                                    let cfg = Config {
                                        failure_persistence: None,
                                        ..Config::default()
                                    };
                                    let mut runner = TestRunner::new_with_rng(
                                        cfg,
                                        case_rng(seed, &property, self.name, idx),
                                    );
                                    match strat.new_tree(&mut runner) {
                                        Ok(t) => {
                                            let c = t.current();
                                            (idx as i64, c, Some(Box::new(t) as Box<dyn ValueTree<Value = C>>))
                                        }
                                        Err(_) => continue,
                                    }
                                }
                            };
                        if let Some(j) = journal {
                            // journal mode: name the case before running it, so that a case that
                            // kills the whole process can be identified afterwards
                            let file = ReplayFile {
                                property: property.clone(),
                                part: self.name.to_string(),
                                signature: "process-died".into(),
                                message: "the harness process died while executing this case".into(),
                                seed,
                                index,
                                hang: false,
                                case: render(&case),
                            };
                            let _ = std::fs::write(j, serde_json::to_string(&file).unwrap_or_default());
                        }
                        let out = self.run_exec(&case);
                        let rendered = render(&case);
                        let key = hash_str(&serde_json::to_string(&rendered).unwrap_or_default());
                        let mut to_shrink: Option<Failure> = None;
                        {
                            let mut g = shared_ref.results.lock().unwrap_or_else(|e| e.into_inner());
                            g.evaluations += 1;
                            if let Some(why) = &out.inconclusive {
                                let key: String = why.chars().take(120).collect();
                                if g.inconclusive_reasons.len() < 12 || g.inconclusive_reasons.contains_key(&key) {
                                    *g.inconclusive_reasons.entry(key).or_default() += 1;
                                }
                                g.inconclusive += 1;
                            }
                            for l in &out.labels {
                                *g.labels.entry(l.clone()).or_default() += 1;
                            }
                            if out.nontrivial && out.fail.is_none() {
                                g.nontrivial += 1;
                                if g.distinct.insert(key) && g.samples.len() < 4 {
                                    g.samples.push((key, truncate_value(&rendered, 1500)));
                                }
                            }
                            if let Some(f) = &out.fail {
                                if known_open.iter().any(|s| s == &f.sig) {
                                    *g.known_hits.entry(f.sig.clone()).or_default() += 1;
                                } else {
                                    let n = g.seen_sigs.entry(f.sig.clone()).or_default();
                                    *n += 1;
                                    if *n == 1 {
                                        to_shrink = Some(f.clone());
                                    }
                                    // an unknown failure ends the generation of new cases (what
                                    // is running finishes); known findings never stop the search
                                    shared_ref.stop.store(true, Ordering::Relaxed);
                                }
                            }
                        }
                        if let Some(f) = to_shrink {
                            let (min_case, min_fail) = match tree.as_mut() {
                                Some(t) => {
                                    let (c, fl, _) = self.shrink(t.as_mut(), &f);
                                    (c, fl)
                                }
                                None => (case.clone(), f.clone()),
                            };
                            let mut g = shared_ref.results.lock().unwrap_or_else(|e| e.into_inner());
                            g.failures.push((index, min_case, min_fail));
                        }
                    }
                });
            }
        });

        let agg = shared.results.into_inner().unwrap_or_else(|e| e.into_inner());
        pr.evaluations = agg.evaluations;
        pr.nontrivial = agg.nontrivial;
        pr.inconclusive = agg.inconclusive;
        if !agg.inconclusive_reasons.is_empty() {
            for (why, n) in &agg.inconclusive_reasons {
                eprintln!("[note] part {}: {} case(s) inconclusive: {}", self.name, n, why);
            }
            pr.extra.insert("inconclusive_reasons".into(), json!(agg.inconclusive_reasons));
        }
        pr.distinct_nontrivial = agg.distinct.len();
        pr.labels = agg.labels;
        pr.samples = agg.samples.into_iter().map(|(_, v)| v).collect();
        pr.exhaustive = n_gen == 0 && n_enum > 0;
        pr.extra.insert("enumerated".into(), json!(n_enum));
        for (k, v) in agg.known_hits {
            *rep.known_hits.entry(k).or_default() += v;
        }
        for (index, case, fail) in agg.failures {
            // confirm: re-run the minimal case
            let mut reproduced = 0;
            let runs = self.confirm_runs.max(1);
            let mut last = fail.clone();
            let outs: Vec<Outcome> = if fail.sig == "case-watchdog" {
                // pure waiting: the re-executions run side by side
                std::thread::scope(|sc| {
                    let hs: Vec<_> = (0..runs).map(|_| sc.spawn(|| self.run_exec(&case))).collect();
                    hs.into_iter().filter_map(|h| h.join().ok()).collect()
                })
            } else {
                (0..runs).map(|_| self.run_exec(&case)).collect()
            };
            for out in outs {
                if let Some(f) = out.fail {
                    if f.sig == fail.sig {
                        reproduced += 1;
                        last = f;
                    }
                }
            }
            let mut fl = last;
            fl.msg = format!(
                "{}\n(minimal case reproduced {}/{} times on re-execution)",
                fl.msg, reproduced, runs
            );
            // A call that never returned (as opposed to a lateness bound that was exceeded) may
            // depend on the schedule: the generation phase runs many cases side by side, the
            // re-executions above run alone. Such a failure gets a second chance under
            // concurrency - twelve copies of the case at once; it is confirmed if any of them
            // gets stuck in the same way (a machine hiccup does not repeat itself like that).
            let lateness = ["late", "exceeds-tuning", "silence-not-detected", "did-not-end"].iter().any(|w| fail.sig.contains(w));
            if fl.hang && reproduced < runs && !lateness && self.watchdog_s > 0 {
                let outs: Vec<Outcome> = std::thread::scope(|sc| {
                    let hs: Vec<_> = (0..12).map(|_| sc.spawn(|| self.run_exec(&case))).collect();
                    hs.into_iter().filter_map(|h| h.join().ok()).collect()
                });
                let again = outs.iter().filter(|o| o.fail.as_ref().map_or(false, |f| f.sig == fail.sig)).count();
                if again > 0 {
                    fl.msg = format!("{}\n(and {}/12 times when twelve copies of the case ran concurrently: schedule dependent)", fl.msg, again);
                    reproduced = runs;
                }
            }
            if fl.hang && reproduced < runs {
                // a hang that does not recur every time is not reported as a violation
                pr.inconclusive += 1;
                let first = fl.msg.lines().next().unwrap_or("");
                eprintln!(
                    "[note] part {}: hang-type failure `{}` at index {} recurred {}/{} times on re-execution - not reported ({})",
                    self.name,
                    fl.sig,
                    index,
                    reproduced,
                    runs,
                    &first[..first.len().min(300)]
                );
                // kept for diagnosis (not a replay file of a violation)
                let mut f2 = fl.clone();
                f2.sig = format!("unconfirmed-{}", f2.sig);
                let _ = self.save_replay(rep, &case, &f2, index);
                continue;
            }
            let path = self.save_replay(rep, &case, &fl, index);
            rep.violations.push(Violation {
                part: self.name.to_string(),
                sig: fl.sig.clone(),
                msg: fl.msg.clone(),
                replay: path,
                hang: fl.hang,
            });
        }
        rep.parts.push(pr);
    }
}

/// Replay a saved case file against the given parts; returns exit code.
pub fn replay_file(path: &Path, property: &str, parts: &[Box<dyn PartDyn>]) -> i32 {
    let s = match std::fs::read_to_string(path) {
        Ok(s) => s,
        Err(e) => {
            eprintln!("cannot read {}: {}", path.display(), e);
            return 2;
        }
    };
    let rf: ReplayFile = match serde_json::from_str(&s) {
        Ok(r) => r,
        Err(e) => {
            eprintln!("cannot parse {}: {}", path.display(), e);
            return 2;
        }
    };
    if rf.property != property {
        eprintln!("replay file is for {}, not {}", rf.property, property);
        return 2;
    }
    for p in parts {
        if p.name() == rf.part {
            set_panic_verbose(true);
            return match p.replay(&rf.case) {
                Ok(out) => match out.fail {
                    Some(f) => {
                        println!("VIOLATION property={} replay={}", property, path.display());
                        println!("  signature={} hang={}", f.sig, f.hang);
                        println!("  {}", f.msg);
                        1
                    }
                    None => {
                        println!("replay passed (nontrivial={})", out.nontrivial);
                        0
                    }
                },
                Err(e) => {
                    eprintln!("{}", e);
                    2
                }
            };
        }
    }
    eprintln!("no part named {}", rf.part);
    2
}
