use avh::run::{install_panic_hook, replay_file, Report, Tier};
use std::path::PathBuf;

fn usage() -> ! {
    eprintln!("usage: avh run <PROPERTY> [--tier quick|thorough] [--seed N] [--strict] [--part NAME]\n       avh replay <PROPERTY> <file.case>");
    std::process::exit(2);
}

fn main() {
    install_panic_hook();
    let args: Vec<String> = std::env::args().collect();
    if args.len() < 3 {
        usage();
    }
    let property = args[2].clone();
    let parts = match avh::checks::parts_for(&property) {
        Some(p) => p,
        None => {
            eprintln!("unknown property {}", property);
            std::process::exit(2);
        }
    };
    match args[1].as_str() {
        "run" => {
            let mut tier = match std::env::var("VERIF_TIER").ok().as_deref() {
                Some("thorough") => Tier::Thorough,
                _ => Tier::Quick,
            };
            let mut seed: u64 = std::env::var("VERIF_SEED")
                .ok()
                .and_then(|s| s.trim().parse::<i64>().ok())
                .map(|v| v as u64)
                .unwrap_or(1);
            let mut strict = false;
            let mut only: Option<String> = None;
            let mut i = 3;
            while i < args.len() {
                match args[i].as_str() {
                    "--tier" => {
                        i += 1;
                        tier = if args.get(i).map(|s| s.as_str()) == Some("thorough") {
                            Tier::Thorough
                        } else {
                            Tier::Quick
                        };
                    }
                    "--seed" => {
                        i += 1;
                        seed = args.get(i).and_then(|s| s.parse::<i64>().ok()).map(|v| v as u64).unwrap_or(1);
                    }
                    "--strict" => strict = true,
                    "--part" => {
                        i += 1;
                        only = args.get(i).cloned();
                    }
                    _ => usage(),
                }
                i += 1;
            }
            let mut rep = Report::new(&property, tier, seed);
            rep.strict = strict;
            for p in &parts {
                if only.as_deref().map_or(true, |o| o == p.name()) {
                    p.run(&mut rep);
                }
            }
            std::process::exit(rep.finish());
        }
        "fuzzcase" => {
            // avh fuzzcase <PROPERTY> <part> <artifact>: turn a libFuzzer artifact into a shrunk
            // replay file (the artifact's bytes are the generator's random stream)
            if args.len() < 5 {
                usage();
            }
            let data = std::fs::read(&args[4]).unwrap_or_default();
            let rep = Report::new(&property, Tier::Thorough, 0);
            for p in &parts {
                if p.name() == args[3] {
                    match p.fuzz_to_replay(&data, &rep) {
                        Some((path, f)) => {
                            if rep.is_known_open(&f.sig) {
                                println!("KNOWN-FINDING: property={} [{}] (found by the fuzzer)", property, f.sig);
                                std::process::exit(0);
                            }
                            println!("VIOLATION property={} replay={}", property, path.display());
                            println!("  part={} signature={} (found by libFuzzer)", args[3], f.sig);
                            println!("  {}", f.msg);
                            std::process::exit(1);
                        }
                        None => {
                            println!("artifact does not fail the oracle outside the fuzzer build");
                            std::process::exit(2);
                        }
                    }
                }
            }
            std::process::exit(2);
        }
        "replay" => {
            if args.len() < 4 {
                usage();
            }
            let code = replay_file(&PathBuf::from(&args[3]), &property, &parts);
            std::process::exit(code);
        }
        _ => usage(),
    }
}
