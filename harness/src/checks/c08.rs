//! C08 — connection close handshake: final frame, notifications, result.

use crate::broker::{content_frames, reply_for, BrokerIo, Responder, ServerCfg};
use crate::codec::encode;
use crate::oracle::{brief, per_channel};
use crate::run::{take_panics, Outcome, Part, PartDyn, Tier};
use crate::session::{open_session, timed, ClientCfg, CALL_TIMEOUT};
use crate::wire::InItem;
use amiquip::{Channel, ConsumerMessage, ConsumerOptions, Error, Publish};
use amq_protocol::frame::AMQPFrame;
use amq_protocol::protocol::basic::AMQPMethod as Basic;
use amq_protocol::protocol::connection::AMQPMethod as Conn;
use amq_protocol::protocol::{basic, connection, AMQPClass};
use proptest::prelude::*;
use serde::{Deserialize, Serialize};
use std::collections::HashMap;
use std::sync::atomic::{AtomicBool, Ordering};
use std::sync::{mpsc, Arc};
use std::time::Duration;

#[derive(Clone, Debug, Serialize, Deserialize, PartialEq)]
pub enum FollowUp {
    /// CloseOk, socket stays open until the client goes away
    CloseOk,
    /// CloseOk, then EOF in a later read
    CloseOkThenEof,
    /// CloseOk and EOF visible in the same read
    CloseOkAndEofSameRead,
    /// a few deliveries, then CloseOk
    DeliveriesThenCloseOk,
    /// heartbeats negotiated at 1 s; the server (sending its own heartbeats) takes this long to
    /// answer CloseOk - longer than a heartbeat interval
    SlowCloseOk { delay_ms: u16 },
}

#[derive(Clone, Debug, Serialize, Deserialize, PartialEq)]
pub enum Direction {
    Client(FollowUp),
    Server { code: u16, text: String, eof_after_close_ok: bool },
}

#[derive(Clone, Debug, Serialize, Deserialize, PartialEq)]
pub struct Case {
    /// per channel: number of consumers; whether its thread races publishes/calls against the close
    pub channels: Vec<(u8, bool)>,
    pub direction: Direction,
    /// how long the racing threads run before the close (microseconds)
    pub delay_us: u16,
    /// the transport accepts nothing at the moment of closing and is released a little later
    pub stalled: bool,
    pub salt: u64,
}

pub struct Broker {
    salt: u64,
    seq: HashMap<u16, u32>,
    follow: Option<FollowUp>,
    server_eof_after_close_ok: bool,
    pub consumer_tags: Vec<(u16, String)>,
    close_ok_due: Option<std::time::Instant>,
    last_hb: std::time::Instant,
}

impl Responder for Broker {
    fn on_frame(&mut self, io: &mut BrokerIo, frame: &AMQPFrame) {
        if let AMQPFrame::Method(ch, m) = frame {
            match m {
                AMQPClass::Connection(Conn::Close(_)) => {
                    let ok = encode(&AMQPFrame::Method(0, AMQPClass::Connection(Conn::CloseOk(connection::CloseOk {}))));
                    match self.follow.clone().unwrap_or(FollowUp::CloseOk) {
                        FollowUp::CloseOk => io.wire.push(ok),
                        FollowUp::SlowCloseOk { delay_ms } => {
                            self.close_ok_due = Some(std::time::Instant::now() + Duration::from_millis(1100 + delay_ms as u64 % 1500));
                        }
                        FollowUp::CloseOkThenEof => {
                            io.wire.push_items(vec![InItem::Data(ok), InItem::Block, InItem::Eof]);
                        }
                        FollowUp::CloseOkAndEofSameRead => {
                            io.wire.push_items(vec![InItem::Data(ok), InItem::Eof]);
                        }
                        FollowUp::DeliveriesThenCloseOk => {
                            let mut bytes = Vec::new();
                            for (i, (chid, tag)) in self.consumer_tags.iter().enumerate().take(3) {
                                for f in content_frames(
                                    *chid,
                                    AMQPClass::Basic(Basic::Deliver(basic::Deliver {
                                        consumer_tag: tag.clone(),
                                        delivery_tag: 900 + i as u64,
                                        redelivered: false,
                                        exchange: "x".into(),
                                        routing_key: "late".into(),
                                    })),
                                    &amiquip::AmqpProperties::default(),
                                    b"late delivery",
                                    &[5, 100],
                                ) {
                                    bytes.extend_from_slice(&encode(&f));
                                }
                            }
                            bytes.extend_from_slice(&ok);
                            io.wire.push(bytes);
                        }
                    }
                    return;
                }
                AMQPClass::Connection(Conn::CloseOk(_)) => {
                    if self.server_eof_after_close_ok {
                        io.wire.push_eof();
                    }
                    return;
                }
                _ => {}
            }
            let seq = self.seq.entry(*ch).or_insert(0);
            if let Some(reply) = reply_for(self.salt, *ch, *seq, m) {
                *seq += 1;
                io.send_method(*ch, reply);
            }
        }
    }
    fn on_tick(&mut self, io: &mut BrokerIo) {
        if let Some(due) = self.close_ok_due {
            if std::time::Instant::now() >= due {
                self.close_ok_due = None;
                io.wire.push(encode(&AMQPFrame::Method(0, AMQPClass::Connection(Conn::CloseOk(connection::CloseOk {})))));
            } else if self.last_hb.elapsed() > Duration::from_millis(400) {
                self.last_hb = std::time::Instant::now();
                io.wire.push(encode(&AMQPFrame::Heartbeat(0)));
            }
        }
    }
}

struct ChanReport {
    /// number of publishes that returned Ok
    accepted: usize,
    first_error: Option<String>,
    later_error: Option<String>,
    consumer_tails: Vec<(Vec<String>, bool)>,
}

fn racing_body(ch: u16, k: usize) -> Vec<u8> {
    format!("race-ch{}-#{:06}", ch, k).into_bytes()
}

pub fn exec(c: &Case) -> Outcome {
    let nch = c.channels.len();
    let (follow, server) = match &c.direction {
        Direction::Client(f) => (Some(f.clone()), None),
        Direction::Server { code, text, eof_after_close_ok } => (None, Some((*code, text.clone(), *eof_after_close_ok))),
    };
    let broker = Broker {
        salt: c.salt,
        seq: HashMap::new(),
        follow,
        server_eof_after_close_ok: server.as_ref().map_or(false, |s| s.2),
        consumer_tags: Vec::new(),
        close_ok_due: None,
        last_hb: std::time::Instant::now(),
    };
    let slow = matches!(c.direction, Direction::Client(FollowUp::SlowCloseOk { .. }));
    let hb = if slow { 1 } else { 0 };
    let mut sess = open_session(
        &ClientCfg {
            heartbeat: hb,
            // the write-buffer water marks are tuning, not protocol: closing must not depend on
            // them (a third of the sessions run with a low-water mark of 12 bytes or 1 MiB)
            low_water: match (c.salt >> 33) % 6 {
                0 => 12,
                1 => 1 << 20,
                _ => 0,
            },
            ..Default::default()
        },
        ServerCfg {
            heartbeat: hb,
            ..Default::default()
        },
        vec![],
        broker,
    );
    let mut conn = match sess.conn.take() {
        Some(c) => c,
        None => {
            let _ = sess.broker.stop();
            return Outcome {
                inconclusive: Some(format!("open failed {:?}", sess.open_error)),
                ..Default::default()
            };
        }
    };
    let wire = sess.wire.clone();
    let mut chans: Vec<Channel> = Vec::new();
    for _ in 0..nch {
        match conn.open_channel(None) {
            Ok(ch) => chans.push(ch),
            Err(e) => {
                let _ = sess.broker.stop();
                return Outcome::fail("open-channel-failed", format!("{:?}", e));
            }
        }
    }
    let ids: Vec<u16> = chans.iter().map(|c| c.channel_id()).collect();
    let stop = Arc::new(AtomicBool::new(false));
    let (tx, rx) = mpsc::channel::<(usize, ChanReport, Channel)>();
    let (ready_tx, ready_rx) = mpsc::channel::<(u16, Vec<String>)>();
    for (i, ch) in chans.into_iter().enumerate() {
        let (ncons, racing) = c.channels[i];
        let tx = tx.clone();
        let ready_tx = ready_tx.clone();
        let stop = stop.clone();
        let salt = c.salt;
        std::thread::Builder::new()
            .name(format!("avh-c08-{}", i))
            .spawn(move || {
                let chid = ch.channel_id();
                let mut rxs = Vec::new();
                let mut tags = Vec::new();
                for _ in 0..ncons {
                    if let Ok(cn) = ch.basic_consume("q", ConsumerOptions::default()) {
                        tags.push(cn.consumer_tag().to_string());
                        rxs.push(cn.receiver().clone());
                        std::mem::forget(cn);
                    }
                }
                // consumers that the thread owns as objects and drops the moment its racing
                // operation fails (an application's natural reaction): thousands of them in one
                // session out of sixteen, so that the I/O thread is still busy notifying when the
                // first of them goes away
                let flood_every: u64 = std::env::var("AVH_C08_FLOOD_EVERY").ok().and_then(|v| v.parse().ok()).unwrap_or(16);
                let n_extra = if racing && (salt >> (40 + i)) % flood_every == 0 { 2500 + (salt >> 13) as usize % 2000 } else { (salt >> (44 + i)) as usize % 3 };
                let mut disposable = Vec::new();
                for _ in 0..(if racing { n_extra } else { 0 }) {
                    if let Ok(cn) = ch.basic_consume("q", ConsumerOptions::default()) {
                        disposable.push(cn);
                    }
                }
                let _ = ready_tx.send((chid, tags));
                let mut rep = ChanReport {
                    accepted: 0,
                    first_error: None,
                    later_error: None,
                    consumer_tails: Vec::new(),
                };
                let mut k = 0usize;
                loop {
                    if !racing {
                        // idle until told to look; then make one call to observe the error
                        if stop.load(Ordering::SeqCst) {
                            break;
                        }
                        std::thread::sleep(Duration::from_micros(200));
                        continue;
                    }
                    if disposable.len() > 100 {
                        // flood mode: the racing operation is Consumer::cancel, one consumer after
                        // the other; a consumer whose cancel fails is dropped on the spot
                        let cn = disposable.pop().unwrap();
                        match cn.cancel() {
                            Ok(()) => {
                                drop(cn);
                                continue;
                            }
                            Err(e) => {
                                drop(cn);
                                rep.first_error = Some(format!("{:?}", e));
                                break;
                            }
                        }
                    }
                    let body = racing_body(chid, k);
                    match ch.basic_publish("", Publish::new(&body, "race")) {
                        Ok(()) => {
                            rep.accepted += 1;
                            k += 1;
                        }
                        Err(e) => {
                            rep.first_error = Some(format!("{:?}", e));
                            break;
                        }
                    }
                    if k % 5 == 4 {
                        if let Err(e) = ch.qos(0, 0, false) {
                            rep.first_error = Some(format!("{:?}", e));
                            break;
                        }
                    }
                    if k > 200_000 {
                        break;
                    }
                }
                drop(disposable);
                if rep.first_error.is_none() {
                    // "every still-open channel's next call fails with ..."
                    match ch.qos(0, 1, false) {
                        Ok(()) => rep.first_error = Some("Ok".into()),
                        Err(e) => rep.first_error = Some(format!("{:?}", e)),
                    }
                }
                rep.later_error = Some(match ch.qos(0, 2, false) {
                    Ok(()) => "Ok".into(),
                    Err(e) => format!("{:?}", e),
                });
                for r in rxs {
                    let mut tail = Vec::new();
                    let mut disc = false;
                    loop {
                        match r.recv_timeout(Duration::from_secs(3)) {
                            Ok(ConsumerMessage::Delivery(_)) => tail.push("Delivery".to_string()),
                            Ok(other) => tail.push(format!("{:?}", other)),
                            Err(crossbeam_channel::RecvTimeoutError::Disconnected) => {
                                disc = true;
                                break;
                            }
                            Err(_) => break,
                        }
                    }
                    rep.consumer_tails.push((tail, disc));
                }
                let _ = tx.send((i, rep, ch));
            })
            .expect("spawn");
    }
    drop(tx);
    drop(ready_tx);
    let mut all_tags = Vec::new();
    for _ in 0..nch {
        match ready_rx.recv_timeout(Duration::from_secs(8)) {
            Ok((chid, tags)) => {
                for t in tags {
                    all_tags.push((chid, t));
                }
            }
            Err(_) => {
                wire.push_eof();
                stop.store(true, Ordering::SeqCst);
                let _ = sess.broker.stop();
                return Outcome::hang("setup-hang", "channel threads did not become ready");
            }
        }
    }
    let tags2 = all_tags.clone();
    sess.broker.call(move |b, _| b.consumer_tags = tags2);
    // let the racing threads run a little
    std::thread::sleep(Duration::from_micros(c.delay_us as u64 % 3000));
    if c.stalled {
        // a few bytes of budget are left: the racing threads' next frame is then cut by a short
        // write, so the backlog that the close meets begins in the middle of a frame
        wire.set_budget(Some((c.salt >> 20) as usize % 48));
    }
    let stalled = c.stalled;
    let wire2 = wire.clone();
    // release the stall shortly after the close was initiated
    let trickle = c.salt % 3 != 0;
    let releaser = std::thread::spawn(move || {
        if stalled {
            std::thread::sleep(Duration::from_millis(3));
            if trickle {
                // let the backlog (and the close frame behind it) out in small partial writes
                for k in 0..40u64 {
                    wire2.grant(1 + ((k * 7 + 3) % 23) as usize);
                    std::thread::sleep(Duration::from_micros(150));
                }
            }
            wire2.set_budget(None);
        }
    });
    let mut queued_at_close = 0usize;
    let close_result = match &server {
        None => {
            queued_at_close = wire.out_len();
            timed(CALL_TIMEOUT, "avh-c08-close", move || conn.close())
        }
        Some((code, text, _)) => {
            let (code, text) = (*code, text.clone());
            sess.broker.cmd(move |_b, io| {
                io.send_method(
                    0,
                    AMQPClass::Connection(Conn::Close(connection::Close {
                        reply_code: code,
                        reply_text: text,
                        class_id: 0,
                        method_id: 0,
                    })),
                );
            });
            // wait until the I/O thread is gone (it leaves after flushing CloseOk), then ask
            wire.wait_until(Duration::from_secs(6), |st| st.dropped);
            timed(CALL_TIMEOUT, "avh-c08-close", move || conn.close())
        }
    };
    let _ = queued_at_close;
    stop.store(true, Ordering::SeqCst);
    let _ = releaser.join();
    let mut reports: Vec<Option<ChanReport>> = (0..nch).map(|_| None).collect();
    let mut back = Vec::new();
    for _ in 0..nch {
        match rx.recv_timeout(Duration::from_secs(12)) {
            Ok((i, r, ch)) => {
                reports[i] = Some(r);
                back.push(ch);
            }
            Err(_) => {
                wire.push_eof();
                let _ = sess.broker.stop();
                return Outcome::hang("racing-call-hang", "a channel thread did not return after the close");
            }
        }
    }
    drop(back);
    let io_thread = wire.io_thread();
    let _ = sess.broker.stop();
    if let Some(t) = io_thread {
        let p = take_panics(t);
        if !p.is_empty() {
            return Outcome::fail("io-thread-panic", format!("{} at {}", p[0].message, p[0].location));
        }
    }
    let close_result = match close_result {
        Some(r) => r,
        None => return Outcome::hang("close-hang", "Connection::close did not return"),
    };
    let ctx = format!("case {:?}", c);
    // result of close
    let (want_close, want_chan_err, want_consumer) = match &server {
        None => ("Ok(())".to_string(), "ClientClosedConnection".to_string(), "ClientClosedConnection".to_string()),
        Some((code, text, _)) => {
            let e = format!("ServerClosedConnection {{ code: {}, message: {:?} }}", code, text);
            (format!("Err({})", e), e.clone(), format!("ServerClosedConnection({})", e))
        }
    };
    let got_close = format!("{:?}", close_result);
    if got_close != want_close {
        let sig = match (&c.direction, &close_result) {
            (Direction::Client(FollowUp::CloseOkAndEofSameRead), Err(Error::UnexpectedSocketClose)) => "client-close-fails-when-socket-closes-with-close-ok",
            (Direction::Client(_), _) => "client-close-result",
            (Direction::Server { .. }, _) => "server-close-result",
        };
        return Outcome::fail(sig, format!("Connection::close returned {}, expected {}\n{}", got_close, want_close, ctx));
    }
    // channels and consumers
    for (i, rep) in reports.iter().enumerate() {
        let rep = rep.as_ref().unwrap();
        if rep.first_error.as_deref() != Some(want_chan_err.as_str()) {
            return Outcome::fail("channel-first-error", format!("channel {}: first error {:?}, expected {}\n{}", ids[i], rep.first_error, want_chan_err, ctx));
        }
        if rep.later_error.as_deref() == Some("Ok") {
            return Outcome::fail("call-succeeded-after-close", format!("channel {}\n{}", ids[i], ctx));
        }
        for (tail, disc) in &rep.consumer_tails {
            let last = tail.last().cloned().unwrap_or_default();
            if last != want_consumer {
                return Outcome::fail("consumer-terminal", format!("channel {}: consumer saw {:?}, expected to end with {}\n{}", ids[i], tail, want_consumer, ctx));
            }
            if tail.iter().filter(|m| m.as_str() != "Delivery").count() != 1 {
                return Outcome::fail("consumer-several-terminals", format!("channel {}: {:?}\n{}", ids[i], tail, ctx));
            }
            if !*disc {
                return Outcome::fail("consumer-not-disconnected", format!("channel {}\n{}", ids[i], ctx));
            }
        }
    }
    // the wire
    let out = wire.out_snapshot();
    let d = crate::codec::decode_stream(&out);
    if let Some(e) = &d.error {
        return Outcome::fail("outbound-stream-not-whole-frames", format!("{}\n{}", e, ctx));
    }
    if d.trailing != 0 {
        return Outcome::fail("outbound-stream-trailing-partial-frame", format!("{} bytes\n{}", d.trailing, ctx));
    }
    let last = d.frames.last().map(|(_, f)| f.clone());
    match &server {
        None => {
            let n_close = d.frames.iter().filter(|(_, f)| matches!(f, AMQPFrame::Method(0, AMQPClass::Connection(Conn::Close(_))))).count();
            match &last {
                Some(AMQPFrame::Method(0, AMQPClass::Connection(Conn::Close(cl)))) if cl.reply_code == 200 && cl.reply_text == "goodbye" && cl.class_id == 0 && cl.method_id == 0 && n_close == 1 => {}
                other => {
                    return Outcome::fail(
                        "client-close-not-last-frame",
                        format!("last frame {:?}, {} Connection.Close frames\n{}", other.as_ref().map(brief), n_close, ctx),
                    )
                }
            }
        }
        Some(_) => {
            let n_ok = d.frames.iter().filter(|(_, f)| matches!(f, AMQPFrame::Method(0, AMQPClass::Connection(Conn::CloseOk(_))))).count();
            match &last {
                Some(AMQPFrame::Method(0, AMQPClass::Connection(Conn::CloseOk(_)))) if n_ok == 1 => {}
                other => {
                    return Outcome::fail(
                        "close-ok-not-last-frame",
                        format!("last frame {:?}, {} CloseOk frames\n{}", other.as_ref().map(brief), n_ok, ctx),
                    )
                }
            }
        }
    }
    // per channel: the racing publishes on the wire are #0..#m without gaps, m <= accepted
    let chans_w = per_channel(&d);
    let mut raced = false;
    for (i, rep) in reports.iter().enumerate() {
        let rep = rep.as_ref().unwrap();
        let frames = chans_w.get(&ids[i]).cloned().unwrap_or_default();
        let mut next = 0usize;
        let mut j = 0;
        while j < frames.len() {
            if let AMQPFrame::Method(_, AMQPClass::Basic(Basic::Publish(_))) = &frames[j].1 {
                // publish, header, one body frame
                let body = match (frames.get(j + 1), frames.get(j + 2)) {
                    (Some((_, AMQPFrame::Header(..))), Some((_, AMQPFrame::Body(_, b)))) => b.clone(),
                    _ => {
                        // a publish cut short by the close (its remaining frames were submitted after
                        // the close point) is acceptable only as the very last thing on the channel
                        if frames.len() - j <= 2 {
                            break;
                        }
                        return Outcome::fail("publish-frames-torn-mid-stream", format!("channel {}: publish #{} is not followed by its header and body although more frames follow\n{}", ids[i], next, ctx));
                    }
                };
                if body != racing_body(ids[i], next) {
                    return Outcome::fail(
                        "queued-frames-lost-or-reordered",
                        format!("channel {}: expected publish #{} next, wire has {:?}\n{}", ids[i], next, String::from_utf8_lossy(&body), ctx),
                    );
                }
                next += 1;
                j += 3;
            } else {
                j += 1;
            }
        }
        if next > rep.accepted + 1 {
            return Outcome::fail("publish-on-wire-never-issued", format!("channel {}: {} on the wire, {} accepted\n{}", ids[i], next, rep.accepted, ctx));
        }
        if c.channels[i].1 && rep.accepted > 0 {
            raced = true;
        }
    }
    let has_consumer_channel = c.channels.iter().any(|(n, _)| *n > 0);
    let special = c.stalled || matches!(c.direction, Direction::Client(FollowUp::CloseOkAndEofSameRead) | Direction::Client(FollowUp::SlowCloseOk { .. }));
    let mut o = Outcome::pass(has_consumer_channel && (raced || special));
    o.labels.push(match &c.direction {
        Direction::Client(f) => format!("client-close/{}", format!("{:?}", f).split(' ').next().unwrap_or("")),
        Direction::Server { eof_after_close_ok, .. } => format!("server-close/eof={}", eof_after_close_ok),
    });
    if raced {
        o.labels.push("racing-ops".into());
    }
    if c.stalled {
        o.labels.push("transport-stalled-at-close".into());
    }
    o
}

pub fn strat(_t: Tier) -> BoxedStrategy<Case> {
    let follow = prop_oneof![
        8 => Just(FollowUp::CloseOk),
        8 => Just(FollowUp::CloseOkThenEof),
        8 => Just(FollowUp::CloseOkAndEofSameRead),
        8 => Just(FollowUp::DeliveriesThenCloseOk),
        1 => any::<u16>().prop_map(|delay_ms| FollowUp::SlowCloseOk { delay_ms }),
    ];
    let dir = prop_oneof![
        1 => follow.prop_map(Direction::Client),
        1 => (any::<u16>(), crate::gen::short_string(), any::<bool>()).prop_map(|(code, text, eof_after_close_ok)| Direction::Server { code, text, eof_after_close_ok }),
    ];
    (proptest::collection::vec((0u8..=3, any::<bool>()), 0..=4), dir, any::<u16>(), prop::bool::weighted(0.3), any::<u64>())
        .prop_map(|(channels, direction, delay_us, stalled, salt)| Case {
            channels,
            direction,
            delay_us,
            stalled,
            salt,
        })
        .boxed()
}

// ---------------------------------------------------------------------------------------------
// part `remainder`: the server closes onto a known backlog and the transport then accepts all of
// it but a chosen remainder - "the client writes everything queued before and then CloseOk"
// must not depend on how many bytes happen to be left at a would-block

#[derive(Clone, Debug, Serialize, Deserialize, PartialEq)]
pub struct RCase {
    /// body length of the one message that is queued when the server closes
    pub body_len: u32,
    /// index into the remainder table (powers of two and their neighbours, small values)
    pub remainder: u8,
    pub code: u16,
    pub text: String,
    pub salt: u64,
}

const REMAINDERS: [usize; 14] = [1, 11, 12, 13, 255, 256, 4096, 32768, 65535, 65536, 65537, 131072, 196608, 262144];

pub fn exec_remainder(c: &RCase) -> Outcome {
    use crate::broker::AutoBroker;
    let mut broker = AutoBroker::new(c.salt);
    broker.auto_grant = false;
    let mut sess = open_session(&ClientCfg::default(), ServerCfg::default(), vec![], broker);
    let mut conn = match sess.conn.take() {
        Some(c) => c,
        None => {
            let _ = sess.broker.stop();
            return Outcome {
                inconclusive: Some(format!("open failed {:?}", sess.open_error)),
                ..Default::default()
            };
        }
    };
    let wire = sess.wire.clone();
    let ch = match conn.open_channel(Some(1)) {
        Ok(ch) => ch,
        Err(e) => {
            let _ = sess.broker.stop();
            return Outcome::fail("session-setup-failed", format!("{:?}", e));
        }
    };
    // everything so far is on the wire; from now on the transport accepts nothing
    let base = wire.out_len();
    wire.set_budget(Some(0));
    let body = crate::gen::body_bytes(70_000 + c.body_len as usize % 400_000, c.salt);
    if let Err(e) = ch.basic_publish("x", Publish::new(&body, "remainder")) {
        let _ = sess.broker.stop();
        return Outcome::fail("publish-call-failed", format!("{:?}", e));
    }
    // the I/O thread has taken the publish over once it has tried to write it (a publish that is
    // still on its way to the I/O thread when the close arrives is not "queued" yet)
    if !wire.wait_until(Duration::from_secs(5), |st| st.held) {
        let _ = sess.broker.stop();
        return Outcome {
            inconclusive: Some("the I/O thread did not try to write the publish within 5 s".into()),
            ..Default::default()
        };
    }
    // what the client has queued, byte for byte: the publish (frame_max 131072) ...
    let mut chunks = Vec::new();
    let mut left = body.len();
    while left > 0 {
        let n = left.min(131072 - 8);
        chunks.push(n);
        left -= n;
    }
    let publish_len: usize = content_frames(
        1,
        AMQPClass::Basic(Basic::Publish(basic::Publish {
            ticket: 0,
            exchange: "x".into(),
            routing_key: "remainder".into(),
            mandatory: false,
            immediate: false,
        })),
        &amiquip::AmqpProperties::default(),
        &body,
        &chunks,
    )
    .iter()
    .map(|f| encode(f).len())
    .sum();
    // ... and, once it has read the server's Close, CloseOk (12 bytes)
    let (code, text) = (c.code, c.text.clone());
    let t2 = text.clone();
    let _ = sess.broker.call(move |_b, io| {
        io.send_method(
            0,
            AMQPClass::Connection(Conn::Close(connection::Close {
                reply_code: code,
                reply_text: t2,
                class_id: 0,
                method_id: 0,
            })),
        );
    });
    std::thread::sleep(Duration::from_millis(40));
    let pending = publish_len + 12;
    let r = REMAINDERS[c.remainder as usize % REMAINDERS.len()];
    let r = if r >= pending { 12 } else { r };
    wire.grant(pending - r);
    // the client writes what it may and meets a would-block with `r` bytes left
    wire.wait_until(Duration::from_secs(3), |st| st.held && st.out.len() >= base + pending - r);
    std::thread::sleep(Duration::from_millis(20));
    let at_hold = wire.out_len() - base;
    wire.set_budget(None);
    wire.grant(0);
    wire.wait_until(Duration::from_secs(6), |st| st.dropped);
    let close = timed(CALL_TIMEOUT, "avh-c08-rem-close", move || conn.close());
    let call_after = ch.qos(0, 0, false);
    drop(ch);
    let io = wire.io_thread();
    let _ = sess.broker.stop();
    if let Some(t) = io {
        let p = take_panics(t);
        if !p.is_empty() {
            return Outcome::fail("io-thread-panic", format!("{} at {}", p[0].message, p[0].location));
        }
    }
    let ctx = format!("{:?}: {} bytes queued when the server closed (+12 for CloseOk), transport accepted all but {} and reported would-block ({} written at that point)", c, publish_len, r, at_hold);
    match close {
        Some(Err(Error::ServerClosedConnection { code: c2, message })) if c2 == code && message == text => {}
        Some(other) => return Outcome::fail("server-close-result", format!("Connection::close returned {:?}\n{}", other, ctx)),
        None => return Outcome::hang("close-hang", ctx),
    }
    match call_after {
        Err(Error::ServerClosedConnection { code: c2, .. }) if c2 == code => {}
        other => return Outcome::fail("channel-first-error", format!("call after the close returned {:?}\n{}", other, ctx)),
    }
    let out = wire.out_snapshot();
    let d = crate::codec::decode_stream(&out);
    if d.error.is_some() || d.trailing > 0 {
        return Outcome::fail("outbound-stream-not-whole-frames", format!("{:?}, {} trailing bytes\n{}", d.error, d.trailing, ctx));
    }
    let written = out.len() - base;
    if written != pending {
        return Outcome::fail("queued-output-not-flushed-before-the-end", format!("{} of {} queued bytes were written\n{}", written, pending, ctx));
    }
    if !matches!(d.frames.last(), Some((_, AMQPFrame::Method(0, AMQPClass::Connection(Conn::CloseOk(_)))))) {
        return Outcome::fail("close-ok-not-last-frame", format!("last frame {:?}\n{}", d.frames.last().map(|(_, f)| brief(f)), ctx));
    }
    let got: Vec<u8> = d.frames.iter().filter_map(|(_, f)| if let AMQPFrame::Body(1, b) = f { Some(b.clone()) } else { None }).flatten().collect();
    if got != body {
        return Outcome::fail("queued-message-damaged", format!("{} body bytes on the wire, {} published\n{}", got.len(), body.len(), ctx));
    }
    let achieved = pending - at_hold == r;
    Outcome::pass(achieved).label(if achieved { format!("would-block-with-{}-bytes-left", r) } else { "aimed-remainder-not-achieved".to_string() })
}

fn rstrat(_t: Tier) -> BoxedStrategy<RCase> {
    (any::<u32>(), any::<u8>(), any::<u16>(), "[a-zA-Z -]{0,16}", any::<u64>())
        .prop_map(|(body_len, remainder, code, text, salt)| RCase {
            body_len,
            remainder,
            code,
            text,
            salt,
        })
        .boxed()
}

pub fn parts() -> Vec<Box<dyn PartDyn>> {
    vec![Box::new(Part::<Case> {
        name: "e2e",
        rule: "sessions with 0-4 open channels (a thread each, 0-3 consumers, optionally racing numbered nowait publishes and synchronous calls against the close, and then owning 0-2 - in one session of sixteen 2500-4500 - further consumers which it drops the moment its racing operation fails (with thousands of consumers the racing operation is Consumer::cancel, one after the other)), closed after 0-3 ms either by the client (server follow-up: CloseOk / CloseOk then EOF in a later read / CloseOk and EOF in the same read / deliveries then CloseOk) or by the server (arbitrary reply code and text, socket closed or kept after the client's CloseOk), optionally with the transport stalled at the moment of closing and released 3 ms later, with buffered_writes_low_water 0 (default), 12 bytes or 1 MiB; oracle: client close - exactly one Connection.Close(200, goodbye, 0, 0) and it is the last frame, close returns Ok in all four follow-up variants, every channel's first error is ClientClosedConnection, every consumer ends with ClientClosedConnection and is disconnected; server close - CloseOk is the last frame (exactly one), every channel's first error / every consumer / Connection::close carry ServerClosedConnection{code, text}; both - later calls fail, whole frames only, each channel's racing publishes appear as #0..#m without gaps or reordering and none that was not issued; non-trivial = a channel with a consumer and (racing ops or stalled transport or the same-read EOF variant); distinct by case hash",
        cases: |t| t.pick(2000, 30_000),
        threads: 10,
        strategy: strat,
        exec,
        enumerate: None,
        shrink_budget: 120,
        confirm_runs: 3,
            fuzz: None,
            watchdog_s: 60,
    }),
    Box::new(Part::<RCase> {
        name: "remainder",
        rule: "one channel, the transport accepting nothing, one publish of 70 000-470 000 bytes queued, then the server closes (arbitrary code and text); the transport then accepts everything queued (the publish and CloseOk, a byte count the harness computes from the frames) except a remainder taken from {1, 11, 12, 13, 255, 256, 4096, 32768, 65535, 65536, 65537, 131072, 196608, 262144}, reports would-block, and is released a moment later; oracle: every queued byte is written, the message is intact, CloseOk is the last frame, Connection::close and the channel's next call carry the server's code and text; non-trivial = the would-block really left the aimed remainder (measured); distinct by case hash",
        cases: |t| t.pick(150, 3000),
        threads: 16,
        strategy: rstrat,
        exec: exec_remainder,
        enumerate: None,
        shrink_budget: 30,
        confirm_runs: 2,
        fuzz: None,
        watchdog_s: 60,
    })]
}
