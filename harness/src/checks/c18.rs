//! C18 — backpressure bounds buffering, loses nothing, and always resumes.

use crate::broker::{AutoBroker, ServerCfg};
use crate::oracle::per_channel;
use crate::run::{take_panics, Outcome, Part, PartDyn, Tier};
use crate::session::{open_session_opts, timed, CALL_TIMEOUT};
use amiquip::{Auth, Channel, ConnectionOptions, ConnectionTuning, Publish};
use amq_protocol::frame::AMQPFrame;
use amq_protocol::protocol::basic::AMQPMethod as Basic;
use amq_protocol::protocol::AMQPClass;
use proptest::prelude::*;
use serde::{Deserialize, Serialize};
use std::sync::atomic::{AtomicBool, AtomicUsize, Ordering};
use std::sync::{mpsc, Arc};
use std::time::{Duration, Instant};

#[derive(Clone, Debug, Serialize, Deserialize, PartialEq)]
pub struct Case {
    pub mem_channel_bound: u8,
    pub high_water_kib: u8,
    /// low-water mark as a percentage of the high-water mark
    pub low_pct: u8,
    /// message size per publisher (one publisher thread and channel each)
    pub publishers: Vec<u16>,
    /// open a channel (and close it again) from the connection thread during the first stall
    pub open_during_stall: bool,
    /// trickle phase: number of small grants and their size
    pub trickle_rounds: u8,
    pub trickle_bytes: u16,
    pub second_stall: bool,
    /// while the publishers are blocked the server closes every one of their channels
    /// (Channel.Close 404, as for publishes to a vanished exchange): the throttle episode ends
    /// with no channel left, and a channel opened afterwards must still work
    #[serde(default)]
    pub server_closes_all: bool,
}

fn msg_body(p: usize, k: usize, size: usize) -> Vec<u8> {
    let mut v = format!("p{}-{:08}-", p, k).into_bytes();
    while v.len() < size {
        let b = (v.len() * 31 + k * 7 + p) as u8;
        v.push(b);
    }
    v.truncate(size.max(12));
    v
}

/// bytes one publish puts on the wire: method frame + header frame + body frame
fn publish_wire_bytes(body: usize) -> usize {
    // Basic.Publish("", "k"): 8 framing + 4 class/method + 2 ticket + 1 + 2 + 1 flags = 18;
    // header: 8 + 2 + 2 + 8 + 2 = 22; body: 8 + len
    18 + 22 + 8 + body
}

struct Sample {
    excess: usize,
    any_blocked: bool,
}

pub fn exec(c: &Case) -> Outcome {
    let bound = c.mem_channel_bound as usize;
    let high = (c.high_water_kib as usize).max(1) * 1024;
    let low = high * (c.low_pct as usize % 101) / 100;
    let np = c.publishers.len().max(1);
    let sizes: Vec<usize> = if c.publishers.is_empty() { vec![500] } else { c.publishers.iter().map(|s| 100 + (*s as usize % 8000)).collect() };
    let largest = sizes.iter().copied().max().unwrap_or(500);
    // Deliberately generous: the I/O loop tests the mark only between event batches, and within
    // a batch it drains a channel for as long as its publisher keeps it non-empty, so the
    // overshoot beyond the high-water mark depends on scheduling. What the property demands is
    // "bounded in terms of the tuning, publishers block instead of memory growing without
    // limit": the quotas are four times this limit, so missing throttling overshoots it (and
    // lets the publishers finish during the stall, which is checked separately).
    let limit = high + np * (16 * bound + 64) * (publish_wire_bytes(largest) + 8);
    // total quota: four times the limit, split evenly
    let quotas: Vec<usize> = sizes.iter().map(|s| (4 * limit / np) / publish_wire_bytes(*s) + 4).collect();
    let tuning = ConnectionTuning::default().mem_channel_bound(bound).buffered_writes_high_water(high).buffered_writes_low_water(low);
    let mut broker = AutoBroker::new(3);
    broker.auto_grant = false;
    let mut sess = open_session_opts(ConnectionOptions::<Auth>::default().heartbeat(0), tuning, ServerCfg::default(), vec![], broker);
    if sess.open_hung {
        sess.wire.push_eof();
        let _ = sess.broker.stop();
        return Outcome::hang("open-hang", format!("insecure_open_stream did not return with tuning {:?}", c));
    }
    let mut conn = match sess.conn.take() {
        Some(c) => c,
        None => {
            let _ = sess.broker.stop();
            return Outcome {
                inconclusive: Some(format!("open failed {:?}", sess.open_error)),
                ..Default::default()
            };
        }
    };
    let wire = sess.wire.clone();
    // channels are opened while the transport is still free; with bound 0 even this may hang
    let nplan = np;
    let opened = timed(CALL_TIMEOUT, "avh-c18-open", move || {
        let mut v = Vec::new();
        for _ in 0..nplan {
            match conn.open_channel(None) {
                Ok(ch) => v.push(ch),
                Err(e) => return Err(format!("{:?}", e)),
            }
        }
        Ok((conn, v))
    });
    let (mut conn, chans): (amiquip::Connection, Vec<Channel>) = match opened {
        Some(Ok(x)) => x,
        Some(Err(e)) => {
            let _ = sess.broker.stop();
            return Outcome::fail("open-channel-failed", e);
        }
        None => {
            wire.push_eof();
            let _ = sess.broker.stop();
            return Outcome::hang(
                if bound == 0 { "open-channel-deadlocks-with-mem-channel-bound-0" } else { "open-channel-hang" },
                format!("open_channel did not return (mem_channel_bound = {}, transport unrestricted)", bound),
            );
        }
    };
    let ids: Vec<u16> = chans.iter().map(|c| c.channel_id()).collect();
    let baseline = wire.out_len();
    // stall the transport, then start the publishers
    wire.set_budget(Some(0));
    let accepted = Arc::new(AtomicUsize::new(0));
    let progress: Vec<Arc<AtomicUsize>> = (0..np).map(|_| Arc::new(AtomicUsize::new(0))).collect();
    let abort = Arc::new(AtomicBool::new(false));
    let (tx, rx) = mpsc::channel::<(usize, Result<usize, String>, Channel)>();
    for (i, ch) in chans.into_iter().enumerate() {
        let size = sizes[i];
        let quota = quotas[i];
        let accepted = accepted.clone();
        let prog = progress[i].clone();
        let abort = abort.clone();
        let tx = tx.clone();
        std::thread::Builder::new()
            .name(format!("avh-c18-pub{}", i))
            .spawn(move || {
                let mut res = Ok(quota);
                for k in 0..quota {
                    if abort.load(Ordering::SeqCst) {
                        res = Ok(k);
                        break;
                    }
                    let body = msg_body(i, k, size);
                    if let Err(e) = ch.basic_publish("", Publish::new(&body, "k")) {
                        res = Err(format!("publish #{}: {:?}", k, e));
                        break;
                    }
                    accepted.fetch_add(publish_wire_bytes(body.len()), Ordering::SeqCst);
                    prog.store(k + 1, Ordering::SeqCst);
                }
                let _ = tx.send((i, res, ch));
            })
            .expect("spawn");
    }
    drop(tx);
    let total = |p: &Vec<Arc<AtomicUsize>>| -> usize { p.iter().map(|a| a.load(Ordering::SeqCst)).sum() };
    // wait until nobody has made progress for `quiet`
    let wait_quiet = |quiet: Duration, maxwait: Duration| -> (bool, Sample) {
        let t0 = Instant::now();
        let mut last = total(&progress);
        let mut last_change = Instant::now();
        let mut worst = 0usize;
        loop {
            std::thread::sleep(Duration::from_millis(3));
            let now_total = total(&progress);
            let written = wire.out_len() - baseline;
            let acc = accepted.load(Ordering::SeqCst);
            worst = worst.max(acc.saturating_sub(written));
            if now_total != last {
                last = now_total;
                last_change = Instant::now();
            }
            let finished = (0..np).all(|i| progress[i].load(Ordering::SeqCst) >= quotas[i]);
            if last_change.elapsed() >= quiet {
                return (
                    true,
                    Sample {
                        excess: worst,
                        any_blocked: !finished,
                    },
                );
            }
            if t0.elapsed() > maxwait {
                return (
                    false,
                    Sample {
                        excess: worst,
                        any_blocked: !finished,
                    },
                );
            }
        }
    };
    let ctx = format!("{:?}\n  limit {} bytes (high {} low {} bound {}), quotas {:?} x sizes {:?}", c, limit, high, low, bound, quotas, sizes);
    let mut opener: Option<std::thread::JoinHandle<(amiquip::Connection, Result<(), String>)>> = None;
    let mut conn_opt = Some(conn);
    // first stall
    let (quiet, s1) = wait_quiet(Duration::from_millis(150), Duration::from_secs(8));
    let fail_and_cleanup = |o: Outcome| -> Outcome {
        abort.store(true, Ordering::SeqCst);
        wire.set_budget(None);
        wire.push_eof();
        o
    };
    if !quiet {
        let _ = sess.broker.stop();
        return fail_and_cleanup(Outcome::fail(
            "publishers-not-throttled",
            format!("publishers kept making progress for 8 s although the transport accepts nothing; accepted - written peaked at {} bytes\n{}", s1.excess, ctx),
        ));
    }
    if s1.excess > 2 * limit {
        let _ = sess.broker.stop();
        // schedule dependent: must recur on every re-execution before it is reported
        return fail_and_cleanup(Outcome::hang("buffering-exceeds-tuning-bound", format!("accepted - written = {} bytes during the stall, limit {}\n{}", s1.excess, limit, ctx)));
    }
    if !s1.any_blocked {
        let _ = sess.broker.stop();
        return fail_and_cleanup(Outcome::fail("publishers-finished-during-stall", format!("all quotas were accepted although nothing could be written (excess {})\n{}", s1.excess, ctx)));
    }
    let above_high = s1.excess > high;
    let mut early_results: Vec<(usize, Result<usize, String>)> = Vec::new();
    let mut early_back: Vec<Channel> = Vec::new();
    if c.server_closes_all {
        let ids2 = ids.clone();
        let _ = sess.broker.call(move |_, io| {
            for id in &ids2 {
                io.send_method(
                    *id,
                    AMQPClass::Channel(amq_protocol::protocol::channel::AMQPMethod::Close(amq_protocol::protocol::channel::Close {
                        reply_code: 404,
                        reply_text: "NOT_FOUND - no exchange".into(),
                        class_id: 60,
                        method_id: 40,
                    })),
                );
            }
        });
        // every publisher is released by the close although nothing can be written; only then
        // (all slots gone) is the transport released
        for _ in 0..np {
            match rx.recv_timeout(Duration::from_secs(8)) {
                Ok((i, r, ch)) => {
                    early_results.push((i, r));
                    early_back.push(ch);
                }
                Err(_) => {
                    let _ = sess.broker.stop();
                    return fail_and_cleanup(Outcome::hang("publisher-not-released-by-server-close-during-stall", ctx.clone()));
                }
            }
        }
    }
    if c.open_during_stall && !c.server_closes_all {
        let mut cn = conn_opt.take().unwrap();
        opener = Some(std::thread::spawn(move || {
            let r = match cn.open_channel(None) {
                Ok(ch) => ch.close().map_err(|e| format!("close: {:?}", e)),
                Err(e) => Err(format!("open_channel: {:?}", e)),
            };
            (cn, r)
        }));
        std::thread::sleep(Duration::from_millis(10));
    }
    // trickle
    for _ in 0..(if c.server_closes_all { 0 } else { c.trickle_rounds % 24 }) {
        wire.grant(1 + c.trickle_bytes as usize % 3000);
        std::thread::sleep(Duration::from_millis(2));
    }
    let mut s2_excess = 0;
    if c.second_stall && !c.server_closes_all {
        let (_q, s2) = wait_quiet(Duration::from_millis(100), Duration::from_secs(6));
        s2_excess = s2.excess;
        if s2.excess > 2 * limit {
            let _ = sess.broker.stop();
            return fail_and_cleanup(Outcome::hang("buffering-exceeds-tuning-bound", format!("second stall: accepted - written = {} bytes, limit {}\n{}", s2.excess, limit, ctx)));
        }
    }
    // release
    wire.set_budget(None);
    let mut results: Vec<Option<Result<usize, String>>> = (0..np).map(|_| None).collect();
    let mut back = early_back;
    let n_early = early_results.len();
    for (i, r) in early_results {
        results[i] = Some(r);
    }
    for _ in n_early..np {
        match rx.recv_timeout(Duration::from_secs(12)) {
            Ok((i, r, ch)) => {
                results[i] = Some(r);
                back.push(ch);
            }
            Err(_) => {
                let stuck: Vec<(usize, usize)> = (0..np).map(|i| (progress[i].load(Ordering::SeqCst), quotas[i])).collect();
                let _ = sess.broker.stop();
                return fail_and_cleanup(Outcome::hang("publisher-never-resumed", format!("after the transport was released a publisher stayed blocked; progress/quota {:?}\n{}", stuck, ctx)));
            }
        }
    }
    if let Some(o) = opener {
        let t0 = Instant::now();
        while !o.is_finished() && t0.elapsed() < Duration::from_secs(10) {
            std::thread::sleep(Duration::from_millis(2));
        }
        if !o.is_finished() {
            let _ = sess.broker.stop();
            return fail_and_cleanup(Outcome::hang("open-channel-during-stall-never-completed", ctx));
        }
        let (cn, r) = o.join().unwrap();
        conn_opt = Some(cn);
        if let Err(e) = r {
            let _ = sess.broker.stop();
            return fail_and_cleanup(Outcome::fail("open-channel-during-stall-failed", format!("{}\n{}", e, ctx)));
        }
    }
    if c.server_closes_all {
        // let the episode really end first: every CloseOk written (the buffer has drained), quiet
        let want = np;
        wire.wait_until(Duration::from_secs(6), |st| {
            crate::codec::decode_stream(&st.out)
                .frames
                .iter()
                .filter(|(_, f)| matches!(f, AMQPFrame::Method(_, AMQPClass::Channel(amq_protocol::protocol::channel::AMQPMethod::CloseOk(_)))))
                .count()
                >= want
        });
        std::thread::sleep(Duration::from_millis(30));
    }
    // a channel opened after the throttle episode is over must work like any other
    let mut conn = conn_opt.take().unwrap();
    let late = timed(CALL_TIMEOUT, "avh-c18-late", move || {
        let r = match conn.open_channel(None) {
            Ok(ch) => {
                let id = ch.channel_id();
                let r = ch.basic_publish("", Publish::new(b"after the stall", "late")).and_then(|_| ch.qos(0, 0, false));
                crate::run::bury(ch);
                r.map(|_| id).map_err(|e| format!("{:?}", e))
            }
            Err(e) => Err(format!("open_channel: {:?}", e)),
        };
        (conn, r)
    });
    let (conn, late_id) = match late {
        Some((c, Ok(id))) => (c, id),
        Some((_c, Err(e))) => {
            let _ = sess.broker.stop();
            return fail_and_cleanup(Outcome::fail("channel-after-stall-failed", format!("{}\n{}", e, ctx)));
        }
        None => {
            let _ = sess.broker.stop();
            return fail_and_cleanup(Outcome::hang("channel-opened-after-stall-never-works", format!("open_channel / publish / qos on a channel opened after the throttle episode did not return\n{}", ctx)));
        }
    };
    let close = timed(CALL_TIMEOUT, "avh-c18-close", move || conn.close());
    drop(back);
    let io = wire.io_thread();
    let _ = sess.broker.stop();
    if let Some(t) = io {
        let p = take_panics(t);
        if !p.is_empty() {
            return Outcome::fail("io-thread-panic", format!("{} at {}", p[0].message, p[0].location));
        }
    }
    match close {
        Some(Ok(())) => {}
        Some(Err(e)) => return Outcome::fail("connection-failed", format!("{:?}\n{}", e, ctx)),
        None => return Outcome::hang("close-hang", ctx),
    }
    for (i, r) in results.iter().enumerate() {
        match r {
            Some(Ok(n)) if *n == quotas[i] => {}
            // a publisher whose channel the server closed ends with that close's error
            Some(Err(e)) if c.server_closes_all && e.contains("ServerClosedChannel") && e.contains("404") => {}
            other => return Outcome::fail("publisher-failed", format!("publisher {}: {:?}\n{}", i, other, ctx)),
        }
    }
    // every accepted message is on the wire exactly once, in order, intact
    let out = wire.out_snapshot();
    let d = match crate::oracle::check_stream_wellformed(&out) {
        Ok(d) => d,
        Err((s, m)) => return Outcome::fail(s, m),
    };
    let chans_w = per_channel(&d);
    for i in 0..np {
        let frames = chans_w.get(&ids[i]).cloned().unwrap_or_default();
        let mut k = 0usize;
        let mut j = 0;
        while j < frames.len() {
            if c.server_closes_all && matches!(&frames[j].1, AMQPFrame::Method(_, AMQPClass::Channel(amq_protocol::protocol::channel::AMQPMethod::CloseOk(_)))) {
                // the channel ended here (its id may have been given to the late channel)
                break;
            }
            if let AMQPFrame::Method(_, AMQPClass::Basic(Basic::Publish(_))) = &frames[j].1 {
                let want = msg_body(i, k, sizes[i]);
                let mut got = Vec::new();
                let mut jj = j + 2;
                match frames.get(j + 1) {
                    Some((_, AMQPFrame::Header(_, _, h))) if h.body_size == want.len() as u64 => {}
                    other => return Outcome::fail("message-header-wrong", format!("publisher {} message #{}: {:?}\n{}", i, k, other.map(|(_, f)| crate::oracle::brief(f)), ctx)),
                }
                while let Some((_, AMQPFrame::Body(_, b))) = frames.get(jj) {
                    got.extend_from_slice(b);
                    jj += 1;
                }
                if got != want {
                    let what = if got.starts_with(format!("p{}-", i).as_bytes()) { String::from_utf8_lossy(&got[..got.len().min(12)]).to_string() } else { format!("{} bytes", got.len()) };
                    return Outcome::fail("message-lost-duplicated-or-reordered", format!("publisher {}: expected message #{} next, wire has {}\n{}", i, k, what, ctx));
                }
                k += 1;
                j = jj;
            } else {
                j += 1;
            }
        }
        // (messages a publisher had handed over but the I/O thread had not yet taken when the
        // server closed the channel go with the channel: a prefix is all that can be demanded)
        let accepted_i = progress[i].load(Ordering::SeqCst);
        if (!c.server_closes_all && k != quotas[i]) || k > accepted_i {
            return Outcome::fail("message-lost-duplicated-or-reordered", format!("publisher {}: {} messages on the wire, {} accepted\n{}", i, k, accepted_i, ctx));
        }
    }
    let late_ok = chans_w.get(&late_id).map_or(false, |fs| fs.iter().any(|(_, f)| matches!(f, AMQPFrame::Body(_, b) if b == b"after the stall")));
    if !late_ok {
        return Outcome::fail("message-lost-duplicated-or-reordered", format!("the message published on the channel opened after the stall is not on the wire\n{}", ctx));
    }
    let mut o = Outcome::pass(above_high && s1.any_blocked);
    if above_high {
        o.labels.push("excess-above-high-water".into());
    }
    if c.server_closes_all {
        o.labels.push("server-closed-every-channel-during-stall".into());
    }
    if c.open_during_stall {
        o.labels.push("channel-opened-during-stall".into());
    }
    if c.second_stall && s2_excess > 0 {
        o.labels.push("second-stall".into());
    }
    o.labels.push(format!("bound={}", bound));
    o
}

fn strat(_t: Tier) -> BoxedStrategy<Case> {
    (
        1u8..=8,
        4u8..=64,
        0u8..=100,
        proptest::collection::vec(any::<u16>(), 1..=3),
        any::<bool>(),
        any::<u8>(),
        any::<u16>(),
        any::<bool>(),
        prop::bool::weighted(0.2),
    )
        .prop_map(|(mem_channel_bound, high_water_kib, low_pct, publishers, open_during_stall, trickle_rounds, trickle_bytes, second_stall, server_closes_all)| Case {
            mem_channel_bound,
            high_water_kib,
            low_pct,
            publishers,
            open_during_stall,
            trickle_rounds,
            trickle_bytes,
            second_stall,
            server_closes_all,
        })
        .boxed()
}

/// mem_channel_bound = 0 is documented as valid ("all communications ... will block until the
/// I/O thread is ready to receive the message"): one deterministic scenario per publisher count.
fn enumerate(_t: Tier) -> Vec<Case> {
    (1..=2)
        .map(|n| Case {
            mem_channel_bound: 0,
            high_water_kib: 16,
            low_pct: 0,
            publishers: vec![700; n],
            open_during_stall: false,
            server_closes_all: false,
            trickle_rounds: 3,
            trickle_bytes: 500,
            second_stall: false,
        })
        .collect()
}

pub fn parts() -> Vec<Box<dyn PartDyn>> {
    vec![Box::new(Part::<Case> {
        name: "e2e",
        rule: "tuning (mem_channel_bound 1-8 plus the documented value 0 as an enumerated scenario, high-water 4-64 KiB, low-water 0-100 % of it), 1-3 publisher threads with a channel each and messages of 100-8100 bytes, total quota four times the tuning-derived buffering limit; the mock transport grants no write budget until every publisher has made no progress for 150 ms, optionally a channel is opened and closed from the connection thread during the stall, or (one session in five) the server closes every publisher channel during the stall so that the throttle episode ends with no channel left, then budget trickles in (0-23 grants of 1-3000 bytes), optionally a second stall, finally the transport is unrestricted; oracle: (1) accepted minus written bytes stays below high-water + channels x (16 x bound + 64) x (largest message + framing) while stalled (a generous, tuning-derived limit; the quotas are four times it; an excess is reported only beyond twice the limit, i.e. half of the total quota, and only if it recurs on every re-execution), (2) publishers really block (quotas unfinished, no progress), (3) once budget returns every publisher finishes and the open_channel issued during the stall completes, (4) every accepted message is on the final wire exactly once, in order, intact; non-trivial = a publisher blocked during a stall in which the excess was above the high-water mark; distinct by case hash",
        cases: |t| t.pick(200, 3000),
        threads: 12,
        strategy: strat,
        exec,
        enumerate: Some(enumerate),
        shrink_budget: 30,
        confirm_runs: 2,
            fuzz: None,
            watchdog_s: 60,
    })]
}
