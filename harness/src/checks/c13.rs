//! C13 — confirms, returns and blocked notices are forwarded verbatim, in order.

use crate::broker::{content_frames, reply_for, BrokerIo, Responder, ServerCfg};
use crate::gen::{body_bytes, pick};
use crate::run::{take_panics, Outcome, Part, PartDyn, Tier};
use crate::session::{open_session, timed, ClientCfg, CALL_TIMEOUT};
use amiquip::{Channel, Confirm, ConfirmPayload, ConnectionBlockedNotification, Publish, Return};
use amq_protocol::frame::AMQPFrame;
use amq_protocol::protocol::basic::AMQPMethod as Basic;
use amq_protocol::protocol::connection::AMQPMethod as Conn;
use amq_protocol::protocol::{basic, connection, AMQPClass};
use crossbeam_channel::Receiver;
use proptest::collection::vec;
use proptest::prelude::*;
use serde::{Deserialize, Serialize};
use std::collections::HashMap;
use std::time::Duration;

#[derive(Clone, Debug, Serialize, Deserialize, PartialEq)]
pub enum Ev {
    /// register (or replace) the confirm listener of a channel; `barrier`: follow with a
    /// synchronous call before anything else happens
    ListenConfirms { ch: u8, barrier: bool },
    DropConfirms { ch: u8 },
    ListenReturns { ch: u8, barrier: bool },
    DropReturns { ch: u8 },
    ListenBlocked { barrier: bool },
    DropBlocked,
    /// client publishes; the broker confirms it (ack / nack) as soon as it has seen it
    Publish { ch: u8, nack: bool },
    /// unsolicited confirmation with arbitrary tag / multiple flag
    ServerConfirm { ch: u8, nack: bool, tag: u64, multiple: bool },
    ServerReturn { ch: u8, len: u16, code: u16 },
    Blocked { reason: String },
    Unblocked,
    /// the server sends a burst of 1030-3000 events of one kind (0 = returns with tiny bodies,
    /// 1 = acks with ascending tags, 2 = blocked notices) which nobody reads until the history is
    /// over: listener queues are unbounded, a listener that lags behind loses nothing
    Burst { ch: u8, kind: u8, n: u16 },
}

#[derive(Clone, Debug, Serialize, Deserialize, PartialEq)]
pub struct Case {
    pub channels: u8,
    pub events: Vec<Ev>,
    pub salt: u64,
}

pub struct Broker {
    salt: u64,
    seq: HashMap<u16, u32>,
    /// per channel: publishes seen (a publish is complete with its header when the body is empty)
    published: HashMap<u16, u64>,
    /// per channel: how the next publishes are confirmed (true = nack)
    pub confirm_plan: HashMap<u16, Vec<bool>>,
}

impl Responder for Broker {
    fn on_frame(&mut self, io: &mut BrokerIo, frame: &AMQPFrame) {
        match frame {
            AMQPFrame::Header(ch, _, _) => {
                // publishes in this check have empty bodies: the header completes them
                let n = self.published.entry(*ch).or_insert(0);
                *n += 1;
                let tag = *n;
                let nack = self.confirm_plan.get_mut(ch).and_then(|v| if v.is_empty() { None } else { Some(v.remove(0)) }).unwrap_or(false);
                let m = if nack {
                    AMQPClass::Basic(Basic::Nack(basic::Nack { delivery_tag: tag, multiple: false, requeue: false }))
                } else {
                    AMQPClass::Basic(Basic::Ack(basic::Ack { delivery_tag: tag, multiple: false }))
                };
                io.send_method(*ch, m);
            }
            AMQPFrame::Method(ch, m) => {
                let seq = self.seq.entry(*ch).or_insert(0);
                if let Some(reply) = reply_for(self.salt, *ch, *seq, m) {
                    *seq += 1;
                    io.send_method(*ch, reply);
                }
            }
            _ => {}
        }
    }
}

#[derive(Debug, Clone, PartialEq)]
enum Note {
    Confirm(bool, u64, bool),
    Return(u16, Vec<u8>),
    Blocked(Option<String>),
}

struct Listener<T> {
    rx: Receiver<T>,
    expected: Vec<Note>,
    replaced_or_dropped: bool,
}

struct Report {
    /// (description, got, expected, must_be_disconnected, was_disconnected)
    listeners: Vec<(String, Vec<Note>, Vec<Note>, bool, bool)>,
    errors: Vec<String>,
    close: Result<(), String>,
    replaced: bool,
    interleaved: bool,
    bursts: usize,
}

fn drain_confirm(rx: &Receiver<Confirm>) -> (Vec<Note>, bool) {
    let mut v = Vec::new();
    loop {
        match rx.recv_timeout(Duration::from_millis(300)) {
            Ok(Confirm::Ack(ConfirmPayload { delivery_tag, multiple })) => v.push(Note::Confirm(false, delivery_tag, multiple)),
            Ok(Confirm::Nack(ConfirmPayload { delivery_tag, multiple })) => v.push(Note::Confirm(true, delivery_tag, multiple)),
            Err(crossbeam_channel::RecvTimeoutError::Disconnected) => return (v, true),
            Err(_) => return (v, false),
        }
    }
}
fn drain_return(rx: &Receiver<Return>) -> (Vec<Note>, bool) {
    let mut v = Vec::new();
    loop {
        match rx.recv_timeout(Duration::from_millis(300)) {
            Ok(r) => v.push(Note::Return(r.reply_code, r.content)),
            Err(crossbeam_channel::RecvTimeoutError::Disconnected) => return (v, true),
            Err(_) => return (v, false),
        }
    }
}
fn drain_blocked(rx: &Receiver<ConnectionBlockedNotification>) -> (Vec<Note>, bool) {
    let mut v = Vec::new();
    loop {
        match rx.recv_timeout(Duration::from_millis(300)) {
            Ok(ConnectionBlockedNotification::Blocked(r)) => v.push(Note::Blocked(Some(r))),
            Ok(ConnectionBlockedNotification::Unblocked) => v.push(Note::Blocked(None)),
            Err(crossbeam_channel::RecvTimeoutError::Disconnected) => return (v, true),
            Err(_) => return (v, false),
        }
    }
}

pub fn exec(c: &Case) -> Outcome {
    let broker = Broker {
        salt: c.salt,
        seq: HashMap::new(),
        published: HashMap::new(),
        confirm_plan: HashMap::new(),
    };
    let mut sess = open_session(&ClientCfg::default(), ServerCfg::default(), vec![], broker);
    let mut conn = match sess.conn.take() {
        Some(c) => c,
        None => {
            let _ = sess.broker.stop();
            return Outcome {
                inconclusive: Some(format!("open failed {:?}", sess.open_error)),
                ..Default::default()
            };
        }
    };
    let wire = sess.wire.clone();
    let bh = std::sync::Arc::new(sess.broker);
    let bh2 = bh.clone();
    let case = c.clone();
    let res = timed(CALL_TIMEOUT * 4, "avh-c13", move || -> Result<Report, String> {
        let nch = case.channels.max(1) as usize;
        let mut chans: Vec<Channel> = Vec::new();
        for _ in 0..nch {
            chans.push(conn.open_channel(None).map_err(|e| format!("open_channel: {:?}", e))?);
        }
        let ids: Vec<u16> = chans.iter().map(|c| c.channel_id()).collect();
        let mut confirm: Vec<Option<Listener<Confirm>>> = (0..nch).map(|_| None).collect();
        let mut returns: Vec<Option<Listener<Return>>> = (0..nch).map(|_| None).collect();
        let mut blocked: Option<Listener<ConnectionBlockedNotification>> = None;
        let mut done_confirm: Vec<(String, Listener<Confirm>)> = Vec::new();
        let mut done_returns: Vec<(String, Listener<Return>)> = Vec::new();
        let mut done_blocked: Vec<(String, Listener<ConnectionBlockedNotification>)> = Vec::new();
        let mut errors = Vec::new();
        let mut pub_count: Vec<u64> = vec![0; nch];
        let mut replaced = false;
        let mut last_event_ch: Option<usize> = None;
        let mut interleaved = false;
        let mut bursts = 0usize;
        let mut gen = 0;
        // a registration without a barrier is only ordered before events it causally precedes
        // (a publish on the same channel and what that publish causes); before any other server
        // event on that channel the barrier is made up for
        let mut pending_barrier = vec![false; nch];
        for ev in &case.events {
            gen += 1;
            let server_event_on = match ev {
                Ev::ServerConfirm { ch, .. } | Ev::ServerReturn { ch, .. } | Ev::Burst { ch, .. } => Some(*ch as usize % nch),
                _ => None,
            };
            if let Some(i) = server_event_on {
                if pending_barrier[i] {
                    pending_barrier[i] = false;
                    if let Err(e) = chans[i].qos(0, 0, false) {
                        errors.push(format!("late barrier: {:?}", e));
                    }
                }
            }
            match ev {
                Ev::ListenConfirms { ch, barrier } => {
                    let i = *ch as usize % nch;
                    match chans[i].listen_for_publisher_confirms() {
                        Ok(rx) => {
                            if let Some(mut old) = confirm[i].take() {
                                old.replaced_or_dropped = true;
                                replaced = true;
                                done_confirm.push((format!("confirm listener #{} of channel {} (replaced)", gen, ids[i]), old));
                            }
                            confirm[i] = Some(Listener { rx, expected: Vec::new(), replaced_or_dropped: false });
                        }
                        Err(e) => errors.push(format!("listen_for_publisher_confirms: {:?}", e)),
                    }
                    if *barrier {
                        if let Err(e) = chans[i].qos(0, 0, false) {
                            errors.push(format!("barrier after listen: {:?}", e));
                        }
                    } else {
                        pending_barrier[i] = true;
                    }
                }
                Ev::DropConfirms { ch } => {
                    let i = *ch as usize % nch;
                    if let Some(old) = confirm[i].take() {
                        // dropping the receiver: later events are discarded by the client
                        replaced = true;
                        drop(old);
                    }
                }
                Ev::ListenReturns { ch, barrier } => {
                    let i = *ch as usize % nch;
                    match chans[i].listen_for_returns() {
                        Ok(rx) => {
                            if let Some(mut old) = returns[i].take() {
                                old.replaced_or_dropped = true;
                                replaced = true;
                                done_returns.push((format!("return listener #{} of channel {} (replaced)", gen, ids[i]), old));
                            }
                            returns[i] = Some(Listener { rx, expected: Vec::new(), replaced_or_dropped: false });
                        }
                        Err(e) => errors.push(format!("listen_for_returns: {:?}", e)),
                    }
                    if *barrier {
                        if let Err(e) = chans[i].qos(0, 0, false) {
                            errors.push(format!("barrier after listen: {:?}", e));
                        }
                    } else {
                        pending_barrier[i] = true;
                    }
                }
                Ev::DropReturns { ch } => {
                    let i = *ch as usize % nch;
                    if let Some(old) = returns[i].take() {
                        replaced = true;
                        drop(old);
                    }
                }
                Ev::ListenBlocked { barrier } => {
                    match conn.listen_for_connection_blocked() {
                        Ok(rx) => {
                            if let Some(mut old) = blocked.take() {
                                old.replaced_or_dropped = true;
                                replaced = true;
                                done_blocked.push((format!("blocked listener #{} (replaced)", gen), old));
                            }
                            blocked = Some(Listener { rx, expected: Vec::new(), replaced_or_dropped: false });
                        }
                        Err(e) => errors.push(format!("listen_for_connection_blocked: {:?}", e)),
                    }
                    // the registration and a following open_channel travel through the same
                    // readiness queue, in order; the channel's OpenOk reply orders us behind both
                    if *barrier || true {
                        match conn.open_channel(None) {
                            Ok(ch) => {
                                let _ = ch.close();
                            }
                            Err(e) => errors.push(format!("barrier open_channel: {:?}", e)),
                        }
                    }
                }
                Ev::DropBlocked => {
                    if let Some(old) = blocked.take() {
                        replaced = true;
                        drop(old);
                    }
                }
                Ev::Publish { ch, nack } => {
                    let i = *ch as usize % nch;
                    let id = ids[i];
                    let nk = *nack;
                    bh2.call(move |b, _| b.confirm_plan.entry(id).or_default().push(nk));
                    if let Err(e) = chans[i].basic_publish("", Publish::new(b"", "rk")) {
                        errors.push(format!("publish: {:?}", e));
                    }
                    pub_count[i] += 1;
                    if let Some(l) = confirm[i].as_mut() {
                        l.expected.push(Note::Confirm(*nack, pub_count[i], false));
                    }
                    if let Some(p) = last_event_ch {
                        if p != i {
                            interleaved = true;
                        }
                    }
                    last_event_ch = Some(i);
                    // the confirm is on its way; order ourselves behind it
                    pending_barrier[i] = false;
                    if let Err(e) = chans[i].qos(0, 0, false) {
                        errors.push(format!("barrier after publish: {:?}", e));
                    }
                }
                Ev::ServerConfirm { ch, nack, tag, multiple } => {
                    let i = *ch as usize % nch;
                    let id = ids[i];
                    let (nk, tg, mu) = (*nack, *tag, *multiple);
                    bh2.cmd(move |_b, io| {
                        let m = if nk {
                            AMQPClass::Basic(Basic::Nack(basic::Nack { delivery_tag: tg, multiple: mu, requeue: false }))
                        } else {
                            AMQPClass::Basic(Basic::Ack(basic::Ack { delivery_tag: tg, multiple: mu }))
                        };
                        io.send_method(id, m);
                    });
                    if let Some(l) = confirm[i].as_mut() {
                        l.expected.push(Note::Confirm(*nack, *tag, *multiple));
                    }
                    if let Some(p) = last_event_ch {
                        if p != i {
                            interleaved = true;
                        }
                    }
                    last_event_ch = Some(i);
                    if let Err(e) = chans[i].qos(0, 0, false) {
                        errors.push(format!("barrier after confirm: {:?}", e));
                    }
                }
                Ev::ServerReturn { ch, len, code } => {
                    let i = *ch as usize % nch;
                    let id = ids[i];
                    let body = body_bytes(*len as usize % 3000, case.salt.wrapping_add(gen as u64));
                    let b2 = body.clone();
                    let code = *code;
                    bh2.cmd(move |_b, io| {
                        for f in content_frames(
                            id,
                            AMQPClass::Basic(Basic::Return(basic::Return {
                                reply_code: code,
                                reply_text: "returned".into(),
                                exchange: "x".into(),
                                routing_key: "k".into(),
                            })),
                            &amiquip::AmqpProperties::default(),
                            &b2,
                            &[500, 1000],
                        ) {
                            io.send(f);
                        }
                    });
                    if let Some(l) = returns[i].as_mut() {
                        l.expected.push(Note::Return(code, body));
                    }
                    if let Some(p) = last_event_ch {
                        if p != i {
                            interleaved = true;
                        }
                    }
                    last_event_ch = Some(i);
                    if let Err(e) = chans[i].qos(0, 0, false) {
                        errors.push(format!("barrier after return: {:?}", e));
                    }
                }
                Ev::Burst { ch, kind, n } => {
                    let i = *ch as usize % nch;
                    let id = ids[i];
                    let n = 1030 + (*n as usize % 1971);
                    let kind = *kind % 3;
                    let salt = case.salt;
                    bh2.cmd(move |_b, io| {
                        for k in 0..n {
                            match kind {
                                0 => {
                                    for f in content_frames(
                                        id,
                                        AMQPClass::Basic(Basic::Return(basic::Return {
                                            reply_code: 312,
                                            reply_text: "burst".into(),
                                            exchange: "x".into(),
                                            routing_key: "k".into(),
                                        })),
                                        &amiquip::AmqpProperties::default(),
                                        &body_bytes(k % 4, salt.wrapping_add(k as u64)),
                                        &[500],
                                    ) {
                                        io.send(f);
                                    }
                                }
                                1 => io.send_method(id, AMQPClass::Basic(Basic::Ack(basic::Ack { delivery_tag: k as u64 + 1, multiple: false }))),
                                _ => io.send_method(0, AMQPClass::Connection(Conn::Blocked(connection::Blocked { reason: format!("burst-{}", k) }))),
                            }
                        }
                    });
                    for k in 0..n {
                        match kind {
                            0 => {
                                if let Some(l) = returns[i].as_mut() {
                                    l.expected.push(Note::Return(312, body_bytes(k % 4, case.salt.wrapping_add(k as u64))));
                                }
                            }
                            1 => {
                                if let Some(l) = confirm[i].as_mut() {
                                    l.expected.push(Note::Confirm(false, k as u64 + 1, false));
                                }
                            }
                            _ => {
                                if let Some(l) = blocked.as_mut() {
                                    l.expected.push(Note::Blocked(Some(format!("burst-{}", k))));
                                }
                            }
                        }
                    }
                    bursts += 1;
                    last_event_ch = Some(i);
                    // one barrier behind the whole burst (channel for returns / acks; the blocked
                    // listener's barrier is an open_channel, as for single notices)
                    if let Err(e) = chans[i].qos(0, 0, false) {
                        errors.push(format!("barrier after burst: {:?}", e));
                    }
                }
                Ev::Blocked { reason } => {
                    let r = reason.clone();
                    bh2.cmd(move |_b, io| io.send_method(0, AMQPClass::Connection(Conn::Blocked(connection::Blocked { reason: r }))));
                    if let Some(l) = blocked.as_mut() {
                        l.expected.push(Note::Blocked(Some(reason.clone())));
                    }
                    if let Err(e) = chans[0].qos(0, 0, false) {
                        errors.push(format!("barrier after blocked: {:?}", e));
                    }
                }
                Ev::Unblocked => {
                    bh2.cmd(move |_b, io| io.send_method(0, AMQPClass::Connection(Conn::Unblocked(connection::Unblocked {}))));
                    if let Some(l) = blocked.as_mut() {
                        l.expected.push(Note::Blocked(None));
                    }
                    if let Err(e) = chans[0].qos(0, 0, false) {
                        errors.push(format!("barrier after unblocked: {:?}", e));
                    }
                }
            }
        }
        // the connection and every channel must still work
        for ch in &chans {
            if let Err(e) = ch.qos(0, 1, false) {
                errors.push(format!("channel {} unusable at the end: {:?}", ch.channel_id(), e));
            }
        }
        // (kept open across the close, dropped afterwards)
        let last = conn.open_channel(None);
        if let Err(e) = &last {
            errors.push(format!("connection unusable at the end: {:?}", e));
        }
        let close = conn.close().map_err(|e| format!("{:?}", e));
        drop(last);
        let mut listeners = Vec::new();
        for (d, l) in done_confirm {
            let (got, disc) = drain_confirm(&l.rx);
            listeners.push((d, got, l.expected, true, disc));
        }
        for (i, l) in confirm.into_iter().enumerate() {
            if let Some(l) = l {
                let (got, disc) = drain_confirm(&l.rx);
                listeners.push((format!("current confirm listener of channel {}", ids[i]), got, l.expected, false, disc));
            }
        }
        for (d, l) in done_returns {
            let (got, disc) = drain_return(&l.rx);
            listeners.push((d, got, l.expected, true, disc));
        }
        for (i, l) in returns.into_iter().enumerate() {
            if let Some(l) = l {
                let (got, disc) = drain_return(&l.rx);
                listeners.push((format!("current return listener of channel {}", ids[i]), got, l.expected, false, disc));
            }
        }
        for (d, l) in done_blocked {
            let (got, disc) = drain_blocked(&l.rx);
            listeners.push((d, got, l.expected, true, disc));
        }
        if let Some(l) = blocked {
            let (got, disc) = drain_blocked(&l.rx);
            listeners.push(("current blocked listener".to_string(), got, l.expected, false, disc));
        }
        drop(chans);
        Ok(Report {
            listeners,
            errors,
            close,
            replaced,
            interleaved,
            bursts,
        })
    });
    let io_thread = wire.io_thread();
    let bh = match std::sync::Arc::try_unwrap(bh) {
        Ok(b) => b,
        Err(_) => {
            wire.push_eof();
            return Outcome::hang("driver-hang", format!("the driver did not finish: {:?}", c.events));
        }
    };
    let _ = bh.stop();
    let rep = match res {
        Some(Ok(r)) => r,
        Some(Err(e)) => return Outcome::fail("setup-failed", e),
        None => {
            wire.push_eof();
            return Outcome::hang("driver-hang", format!("the driver did not finish: {:?}", c.events));
        }
    };
    if let Some(t) = io_thread {
        let p = take_panics(t);
        if !p.is_empty() {
            return Outcome::fail("io-thread-panic", format!("{} at {}", p[0].message, p[0].location));
        }
    }
    if let Some(e) = rep.errors.first() {
        return Outcome::fail("connection-disturbed", format!("{:?}\nevents: {:?}", rep.errors, c.events));
    }
    if let Err(e) = &rep.close {
        return Outcome::fail("connection-disturbed", format!("close: {}\nevents: {:?}", e, c.events));
    }
    for (desc, got, want, must_disc, disc) in &rep.listeners {
        if got != want {
            let sig = if got.len() < want.len() {
                "listener-missed-event"
            } else if got.len() > want.len() {
                "listener-got-event-outside-its-lifetime"
            } else {
                "event-not-forwarded-verbatim"
            };
            return Outcome::fail(sig, format!("{}\n  got  {:?}\n  want {:?}\nevents: {:?}", desc, brief(got), brief(want), c.events));
        }
        if *must_disc && !*disc {
            return Outcome::fail("replaced-listener-not-disconnected", format!("{}\nevents: {:?}", desc, c.events));
        }
    }
    let mut o = Outcome::pass(rep.replaced && rep.interleaved);
    if rep.replaced {
        o.labels.push("listener-replaced-or-dropped".into());
    }
    if rep.bursts > 0 {
        o.labels.push("burst-of-more-than-1024-unread-events".into());
    }
    if rep.interleaved {
        o.labels.push("channels-interleaved".into());
    }
    o
}

fn brief(v: &[Note]) -> Vec<String> {
    v.iter()
        .map(|n| match n {
            Note::Return(c, b) => format!("Return({}, {} bytes)", c, b.len()),
            other => format!("{:?}", other),
        })
        .collect()
}

fn strat(_t: Tier) -> BoxedStrategy<Case> {
    let ch = || 0u8..3;
    let ev = prop_oneof![
        3 => (ch(), any::<bool>()).prop_map(|(ch, barrier)| Ev::ListenConfirms { ch, barrier }),
        1 => ch().prop_map(|ch| Ev::DropConfirms { ch }),
        3 => (ch(), any::<bool>()).prop_map(|(ch, barrier)| Ev::ListenReturns { ch, barrier }),
        1 => ch().prop_map(|ch| Ev::DropReturns { ch }),
        2 => any::<bool>().prop_map(|barrier| Ev::ListenBlocked { barrier }),
        1 => Just(Ev::DropBlocked),
        5 => (ch(), any::<bool>()).prop_map(|(ch, nack)| Ev::Publish { ch, nack }),
        4 => (ch(), any::<bool>(), prop_oneof![0u64..10, any::<u64>()], any::<bool>()).prop_map(|(ch, nack, tag, multiple)| Ev::ServerConfirm { ch, nack, tag, multiple }),
        4 => (ch(), any::<u16>(), any::<u16>()).prop_map(|(ch, len, code)| Ev::ServerReturn { ch, len, code }),
        2 => crate::gen::short_string().prop_map(|reason| Ev::Blocked { reason }),
        1 => Just(Ev::Unblocked),
        1 => (ch(), 0u8..3, any::<u16>()).prop_map(|(ch, kind, n)| Ev::Burst { ch, kind, n }),
    ];
    (1u8..=3, vec(ev, 1..40), any::<u64>())
        .prop_map(|(channels, events, salt)| Case { channels, events, salt })
        .boxed()
}

pub fn parts() -> Vec<Box<dyn PartDyn>> {
    vec![Box::new(Part::<Case> {
        name: "e2e",
        rule: "histories of up to 40 events on 1-3 channels: register / replace / drop a confirm listener, a return listener, the connection's blocked listener; publishes (confirmed ack or nack by the broker as soon as it has seen them, with or without a barrier between registration and publish); unsolicited acks/nacks with arbitrary tag and multiple flag; returns with bodies up to 3000 bytes; blocked(reason)/unblocked; bursts of 1030-3000 returns, acks or blocked notices that stay unread until the end. FIFO barriers (a synchronous call on the same channel / an open_channel for the blocked listener) make listener lifetimes exact; oracle: every listener instance receives exactly the events sent for its channel during its lifetime, unchanged and in order; a replaced listener's receiver is disconnected; events with no or a dropped listener are discarded and every channel and the connection still work afterwards; non-trivial = a listener was replaced or dropped between events and events of >= 2 channels interleave; distinct by case hash",
        cases: |t| t.pick(4000, 60_000),
        threads: 16,
        strategy: strat,
        exec,
        enumerate: None,
        shrink_budget: 200,
        confirm_runs: 2,
            fuzz: None,
            watchdog_s: 60,
    })]
}
