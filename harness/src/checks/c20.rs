//! C20 — simultaneous closes and requests never panic; they resolve as some serial order.
//!
//! The I/O thread is parked inside the mock transport's `write`; while it is parked the harness
//! makes a generated set of events pending in a generated order (server closes by pushing
//! bytes, client requests from helper threads), then opens the gate so that they all arrive in
//! one poll batch in that order. The same events are also executed serially (request strictly
//! before the close is visible / strictly after it has been processed) and every racing
//! request's outcome in the batched run must be one of the serial outcomes.

use crate::broker::{AutoBroker, ServerCfg};
use crate::codec::encode;
use crate::run::{take_panics, Outcome, Part, PartDyn, Tier};
use crate::session::{open_session, timed, ClientCfg, CALL_TIMEOUT};
use amiquip::{Channel, Connection, Error, Publish};
use amq_protocol::frame::AMQPFrame;
use amq_protocol::protocol::channel::AMQPMethod as Chan;
use amq_protocol::protocol::connection::AMQPMethod as Conn;
use amq_protocol::protocol::{channel, connection, AMQPClass};
use proptest::prelude::*;
use serde::{Deserialize, Serialize};
use std::sync::mpsc;
use std::time::Duration;

#[derive(Clone, Copy, Debug, Serialize, Deserialize, PartialEq, Eq, Hash)]
pub enum Kind {
    /// server Connection.Close
    SC,
    /// server Channel.Close(A)
    SCh,
    /// client request on channel 0
    R0,
    /// client request on channel A (the one the server closes)
    RA,
    /// client request on channel B
    RB,
}

#[derive(Clone, Copy, Debug, Serialize, Deserialize, PartialEq)]
pub enum R0Kind {
    OpenAuto,
    OpenExplicit,
    ListenBlocked,
    Close,
}

#[derive(Clone, Copy, Debug, Serialize, Deserialize, PartialEq)]
pub enum RChan {
    PublishNowait,
    SyncCall,
    ListenReturns,
    /// Channel::close - on A it crosses the server's Channel.Close(A); a server that follows
    /// the close-collision rule (RabbitMQ does) then answers the client's Close with CloseOk
    /// although the channel is already gone on the client
    CloseChannel,
}

#[derive(Clone, Debug, Serialize, Deserialize, PartialEq)]
pub struct Case {
    pub order: Vec<Kind>,
    pub r0: R0Kind,
    pub ra: RChan,
    pub rb: RChan,
    pub code: u16,
    pub text: String,
}

#[derive(Clone, Copy, PartialEq, Debug)]
enum Mode {
    Batched,
    /// every request is issued and completes before any close is made visible
    SerialBefore,
    /// closes are pushed and fully processed before any request is issued
    SerialAfter,
    /// the client's own Connection::close completes before the request is issued
    AfterClientClose,
}

#[derive(Debug, Clone, PartialEq)]
struct RunResult {
    /// outcome per request kind present in the case
    outcomes: Vec<(Kind, String)>,
    close: String,
    panics: Vec<String>,
    achieved: bool,
    hung: bool,
    collision_answered: bool,
}

fn show<T>(r: &Result<T, Error>) -> String {
    match r {
        Ok(_) => "Ok".to_string(),
        Err(e) => format!("Err({:?})", e),
    }
}

fn chan_request(ch: Channel, k: RChan) -> (Option<Channel>, String) {
    let out = match k {
        RChan::PublishNowait => show(&ch.basic_publish("", Publish::new(b"racing", "rk"))),
        RChan::SyncCall => show(&ch.qos(0, 7, false)),
        RChan::ListenReturns => show(&ch.listen_for_returns().map(|_| ())),
        RChan::CloseChannel => return (None, show(&ch.close())),
    };
    (Some(ch), out)
}

const STREAM: usize = 65536;
const ALLOC: usize = 65538;
const SET_BLOCKED: usize = 65539;

fn run(c: &Case, mode: Mode, only: Option<Kind>) -> RunResult {
    let is_req = |k: &Kind| matches!(k, Kind::R0 | Kind::RA | Kind::RB);
    let wanted = |k: &Kind| !is_req(k) || only.map_or(true, |o| o == *k);
    let mut res = RunResult {
        outcomes: Vec::new(),
        close: String::new(),
        panics: Vec::new(),
        achieved: false,
        hung: false,
        collision_answered: false,
    };
    let mut sess = open_session(&ClientCfg::default(), ServerCfg::default(), vec![], AutoBroker::new(5));
    let mut conn = match sess.conn.take() {
        Some(c) => c,
        None => {
            let _ = sess.broker.stop();
            res.close = format!("open failed {:?}", sess.open_error);
            return res;
        }
    };
    let wire = sess.wire.clone();
    let a = conn.open_channel(Some(1));
    let b = conn.open_channel(Some(2));
    let (a, b) = match (a, b) {
        (Ok(a), Ok(b)) => (a, b),
        _ => {
            let _ = sess.broker.stop();
            res.close = "setup failed".into();
            return res;
        }
    };
    let has = |k: Kind| c.order.contains(&k);
    // the closes are pushed as raw bytes: tell the broker first, so that it behaves like a
    // compliant server afterwards (discards methods on a closing channel / connection)
    let announce = |k: Kind| {
        match k {
            Kind::SC => {
                sess.broker.call(|_, io| io.closing = true);
            }
            Kind::SCh => {
                sess.broker.call(|_, io| {
                    io.closing_channels.insert(1);
                });
            }
            _ => {}
        }
    };
    let close_frames = |k: Kind| -> Vec<u8> {
        match k {
            Kind::SC => encode(&AMQPFrame::Method(
                0,
                AMQPClass::Connection(Conn::Close(connection::Close {
                    reply_code: c.code,
                    reply_text: c.text.clone(),
                    class_id: 0,
                    method_id: 0,
                })),
            )),
            Kind::SCh => encode(&AMQPFrame::Method(
                1,
                AMQPClass::Channel(Chan::Close(channel::Close {
                    reply_code: c.code.wrapping_add(1),
                    reply_text: format!("ch-{}", c.text),
                    class_id: 0,
                    method_id: 0,
                })),
            )),
            _ => Vec::new(),
        }
    };
    // request threads report (kind, outcome, returned handles)
    enum Back {
        Conn(Option<Connection>, String),
        Chan(Kind, Option<Channel>, String),
    }
    let (tx, rx) = mpsc::channel::<Back>();
    let mut conn_opt = Some(conn);
    let mut a_opt = Some(a);
    let mut b_opt = Some(b);
    let r0 = c.r0;
    let (ra, rb) = (c.ra, c.rb);
    let mut pending_threads = 0;
    let mut spawn_req = |k: Kind, conn_opt: &mut Option<Connection>, a_opt: &mut Option<Channel>, b_opt: &mut Option<Channel>, pending_threads: &mut usize| {
        let tx = tx.clone();
        match k {
            Kind::R0 => {
                if let Some(mut conn) = conn_opt.take() {
                    *pending_threads += 1;
                    std::thread::spawn(move || {
                        let (conn, out) = match r0 {
                            R0Kind::OpenAuto => {
                                let r = conn.open_channel(None);
                                let s = show(&r);
                                if let Ok(ch) = r {
                                    crate::run::bury(ch);
                                }
                                (Some(conn), s)
                            }
                            R0Kind::OpenExplicit => {
                                let r = conn.open_channel(Some(9));
                                let s = show(&r);
                                if let Ok(ch) = r {
                                    crate::run::bury(ch);
                                }
                                (Some(conn), s)
                            }
                            R0Kind::ListenBlocked => {
                                let r = conn.listen_for_connection_blocked().map(|_| ());
                                (Some(conn), show(&r))
                            }
                            R0Kind::Close => {
                                let r = conn.close();
                                (None, show(&r))
                            }
                        };
                        let _ = tx.send(Back::Conn(conn, out));
                    });
                }
            }
            Kind::RA => {
                if let Some(ch) = a_opt.take() {
                    *pending_threads += 1;
                    std::thread::spawn(move || {
                        let (ch, out) = chan_request(ch, ra);
                        let _ = tx.send(Back::Chan(Kind::RA, ch, out));
                    });
                }
            }
            Kind::RB => {
                if let Some(ch) = b_opt.take() {
                    *pending_threads += 1;
                    std::thread::spawn(move || {
                        let (ch, out) = chan_request(ch, rb);
                        let _ = tx.send(Back::Chan(Kind::RB, ch, out));
                    });
                }
            }
            _ => {}
        }
    };
    let mut collect = |n: &mut usize, res: &mut RunResult, conn_opt: &mut Option<Connection>, a_opt: &mut Option<Channel>, b_opt: &mut Option<Channel>| {
        while *n > 0 {
            match rx.recv_timeout(CALL_TIMEOUT) {
                Ok(Back::Conn(cn, out)) => {
                    *conn_opt = cn;
                    res.outcomes.push((Kind::R0, out));
                }
                Ok(Back::Chan(k, ch, out)) => {
                    if k == Kind::RA {
                        *a_opt = ch;
                    } else {
                        *b_opt = ch;
                    }
                    res.outcomes.push((k, out));
                }
                Err(_) => {
                    res.hung = true;
                    return;
                }
            }
            *n -= 1;
        }
    };
    match mode {
        Mode::AfterClientClose => {
            if let Some(conn) = conn_opt.take() {
                let r = timed(CALL_TIMEOUT, "avh-c20-cc", move || conn.close());
                if r.is_none() {
                    res.hung = true;
                }
            }
            for k in c.order.iter().filter(|k| wanted(k) && **k != Kind::R0) {
                spawn_req(*k, &mut conn_opt, &mut a_opt, &mut b_opt, &mut pending_threads);
                collect(&mut pending_threads, &mut res, &mut conn_opt, &mut a_opt, &mut b_opt);
            }
        }
        Mode::SerialBefore => {
            for k in c.order.iter().filter(|k| wanted(k)) {
                spawn_req(*k, &mut conn_opt, &mut a_opt, &mut b_opt, &mut pending_threads);
                collect(&mut pending_threads, &mut res, &mut conn_opt, &mut a_opt, &mut b_opt);
            }
            // a channel the client has closed (and the server has confirmed closed) is not
            // there for the server to close any more
            let a_closed_by_client = c.ra == RChan::CloseChannel && c.order.iter().any(|k| *k == Kind::RA && wanted(k));
            for k in &c.order {
                if *k == Kind::SCh && a_closed_by_client {
                    continue;
                }
                let bytes = close_frames(*k);
                if !bytes.is_empty() {
                    announce(*k);
                    wire.push(bytes);
                }
            }
        }
        Mode::SerialAfter => {
            let mut want_ok = 0;
            for k in &c.order {
                let bytes = close_frames(*k);
                if !bytes.is_empty() {
                    announce(*k);
                    wire.push(bytes);
                    want_ok += 1;
                }
            }
            // fully processed = the client's CloseOk answers are on the wire (or the transport is gone)
            let base = wire.out_len();
            let _ = base;
            wire.wait_until(Duration::from_secs(5), |st| {
                if st.dropped {
                    return true;
                }
                let d = crate::codec::decode_stream(&st.out);
                let n = d
                    .frames
                    .iter()
                    .filter(|(_, f)| matches!(f, AMQPFrame::Method(_, AMQPClass::Connection(Conn::CloseOk(_))) | AMQPFrame::Method(_, AMQPClass::Channel(Chan::CloseOk(_)))))
                    .count();
                n >= want_ok
            });
            if has(Kind::SC) {
                wire.wait_until(Duration::from_secs(5), |st| st.dropped);
            }
            for k in c.order.iter().filter(|k| wanted(k)) {
                spawn_req(*k, &mut conn_opt, &mut a_opt, &mut b_opt, &mut pending_threads);
                collect(&mut pending_threads, &mut res, &mut conn_opt, &mut a_opt, &mut b_opt);
            }
        }
        Mode::Batched => {
            amiquip::verif::batch_trace_enable(true);
            // park the I/O thread inside write(): arm the gate, then make it write something
            wire.arm_write_gate();
            if let Some(bch) = &b_opt {
                let _ = bch.basic_publish("", Publish::new(b"trigger", "rk"));
            }
            if !wire.wait_parked(Duration::from_secs(5)) {
                wire.disarm_gate();
                res.close = "could not park the I/O thread".into();
                let _ = sess.broker.stop();
                return res;
            }
            if let Some(t) = wire.io_thread() {
                let _ = amiquip::verif::batch_trace_take(t);
            }
            for k in &c.order {
                let bytes = close_frames(*k);
                if !bytes.is_empty() {
                    announce(*k);
                    wire.push(bytes);
                } else {
                    spawn_req(*k, &mut conn_opt, &mut a_opt, &mut b_opt, &mut pending_threads);
                    // let the request reach the I/O thread's queue before the next event is made
                    // pending (the achieved order is measured afterwards, not assumed)
                    std::thread::sleep(Duration::from_millis(3));
                }
            }
            wire.release_gate();
            collect(&mut pending_threads, &mut res, &mut conn_opt, &mut a_opt, &mut b_opt);
            // close collision: the client's Channel.Close(A) went out although the server was
            // closing A itself; the server answers it with CloseOk (AMQP 0-9-1, channel.close:
            // "a peer that detects a close collision should answer with close-ok")
            if has(Kind::SCh) && has(Kind::RA) && c.ra == RChan::CloseChannel {
                let d = crate::codec::decode_stream(&wire.out_snapshot());
                let client_closed_a = d.frames.iter().any(|(_, f)| matches!(f, AMQPFrame::Method(1, AMQPClass::Channel(Chan::Close(_)))));
                if client_closed_a {
                    wire.push(encode(&AMQPFrame::Method(1, AMQPClass::Channel(Chan::CloseOk(channel::CloseOk {})))));
                    res.collision_answered = true;
                }
            }
            // which batch did the I/O thread really see?
            if let Some(t) = wire.io_thread() {
                let batches = amiquip::verif::batch_trace_take(t);
                let intended: Vec<usize> = {
                    let mut v = Vec::new();
                    for k in &c.order {
                        let tok = match k {
                            Kind::SC | Kind::SCh => STREAM,
                            Kind::R0 => match c.r0 {
                                R0Kind::OpenAuto | R0Kind::OpenExplicit => ALLOC,
                                R0Kind::ListenBlocked => SET_BLOCKED,
                                R0Kind::Close => 0,
                            },
                            Kind::RA => 1,
                            Kind::RB => 2,
                        };
                        if !v.contains(&tok) {
                            v.push(tok);
                        }
                    }
                    v
                };
                for bt in &batches {
                    let seen: Vec<usize> = bt.iter().copied().filter(|t| intended.contains(t)).collect();
                    let mut dedup = Vec::new();
                    for t in seen {
                        if !dedup.contains(&t) {
                            dedup.push(t);
                        }
                    }
                    if dedup.len() >= 2 && dedup == intended {
                        res.achieved = true;
                    }
                    if intended.len() == 1 && dedup == intended {
                        res.achieved = true;
                    }
                }
            }
        }
    }
    if res.hung {
        wire.push_eof();
        let _ = sess.broker.stop();
        return res;
    }
    // finally close the connection (unless R0 was the close itself)
    if let Some(conn) = conn_opt.take() {
        match timed(CALL_TIMEOUT, "avh-c20-close", move || conn.close()) {
            Some(r) => res.close = show(&r),
            None => {
                res.hung = true;
                wire.push_eof();
            }
        }
    } else {
        res.close = res.outcomes.iter().find(|(k, _)| *k == Kind::R0).map(|(_, o)| o.clone()).unwrap_or_default();
    }
    drop(a_opt);
    drop(b_opt);
    let io = wire.io_thread();
    let _ = sess.broker.stop();
    if let Some(t) = io {
        for p in take_panics(t) {
            res.panics.push(format!("{} at {}", p.message, p.location));
        }
    }
    res
}

/// A compliant server sends nothing after its own Connection.Close: when both closes are in the
/// set the channel close precedes the connection close in the byte stream.
pub fn normalise(c: &Case) -> Case {
    let mut c = c.clone();
    let sc = c.order.iter().position(|k| *k == Kind::SC);
    let sch = c.order.iter().position(|k| *k == Kind::SCh);
    if let (Some(i), Some(j)) = (sc, sch) {
        if i < j {
            c.order.swap(i, j);
        }
    }
    c
}

pub fn exec(c0: &Case) -> Outcome {
    let c = &normalise(c0);
    if c.order.is_empty() {
        return Outcome::pass(false);
    }
    let batched = run(c, Mode::Batched, None);
    let shape = format!("{:?} r0={:?} ra={:?} rb={:?}", c.order, c.r0, c.ra, c.rb);
    if !batched.panics.is_empty() {
        let ch0 = batched.panics[0].contains("ch0 slot cannot be readable");
        return Outcome::fail(
            if ch0 { "io-thread-panic-ch0-wakeup-after-close" } else { "io-thread-panic" },
            format!("{}: I/O thread panicked: {}", shape, batched.panics[0]),
        );
    }
    if batched.close.contains("IoThreadPanic") || batched.outcomes.iter().any(|(_, o)| o.contains("IoThreadPanic")) {
        return Outcome::fail("io-thread-panic", format!("{}: {:?}", shape, batched));
    }
    if batched.hung {
        return Outcome::hang("racing-request-hang", format!("{}: a racing request or the final close did not return: {:?}", shape, batched));
    }
    let sc = c.order.contains(&Kind::SC);
    let sch = c.order.contains(&Kind::SCh);
    let client_close = c.order.contains(&Kind::R0) && c.r0 == R0Kind::Close;
    let sc_err = format!("Err(ServerClosedConnection {{ code: {}, message: {:?} }})", c.code, c.text);
    let sch_err = format!("Err(ServerClosedChannel {{ channel_id: 1, code: {}, message: {:?} }})", c.code.wrapping_add(1), format!("ch-{}", c.text));
    // Connection::close must still report the server's close
    let want_close = if sc { sc_err.clone() } else { "Ok".to_string() };
    if batched.close != want_close {
        return Outcome::fail(
            "close-does-not-report-server-close",
            format!("{}: Connection::close returned {}, expected {}", shape, batched.close, want_close),
        );
    }
    // each request: its outcome must be one a serial execution yields (request alone before the
    // close is visible / after it was processed / after the client's own close when that is in
    // the set), or the close's error (property text)
    for (k, out) in &batched.outcomes {
        if *k == Kind::R0 && client_close {
            continue; // checked above as the close result
        }
        let mut acceptable: Vec<String> = Vec::new();
        for mode in [Mode::SerialBefore, Mode::SerialAfter] {
            let r = run(c, mode, Some(*k));
            if r.hung || !r.panics.is_empty() {
                return Outcome {
                    inconclusive: Some(format!("{}: serial reference run failed: {:?}", shape, r)),
                    ..Default::default()
                };
            }
            acceptable.extend(r.outcomes.iter().filter(|(k2, _)| k2 == k).map(|(_, o)| o.clone()));
        }
        if client_close {
            let r = run(c, Mode::AfterClientClose, Some(*k));
            acceptable.extend(r.outcomes.iter().filter(|(k2, _)| k2 == k).map(|(_, o)| o.clone()));
        }
        if sc {
            acceptable.push(sc_err.clone());
        }
        if sch && *k == Kind::RA {
            acceptable.push(sch_err.clone());
        }
        if !acceptable.contains(out) {
            return Outcome::fail(
                format!("outcome-not-serializable:{:?}", k),
                format!("{}: request {:?} returned {} in the batched run; acceptable (serial executions / the close's error): {:?}", shape, k, out, acceptable),
            );
        }
    }
    let mut o = Outcome::pass(batched.achieved && c.order.len() >= 2);
    if batched.collision_answered {
        o.labels.push("close-collision-answered-with-close-ok".into());
    }
    if batched.achieved {
        o.labels.push("intended-batch-order-achieved".into());
    } else {
        o.labels.push("batch-order-not-achieved".into());
    }
    o
}

fn all_shapes() -> Vec<Vec<Kind>> {
    let kinds = [Kind::SC, Kind::SCh, Kind::R0, Kind::RA, Kind::RB];
    let mut out = Vec::new();
    fn rec(kinds: &[Kind], cur: &mut Vec<Kind>, out: &mut Vec<Vec<Kind>>) {
        if !cur.is_empty() {
            out.push(cur.clone());
        }
        if cur.len() == 4 {
            return;
        }
        for k in kinds {
            if !cur.contains(k) {
                cur.push(*k);
                rec(kinds, cur, out);
                cur.pop();
            }
        }
    }
    rec(&kinds, &mut Vec::new(), &mut out);
    // a shape without any close is not this property's business
    out.retain(|s| s.contains(&Kind::SC) || s.contains(&Kind::SCh));
    out
}

fn enumerate(t: Tier) -> Vec<Case> {
    let shapes = all_shapes();
    let r0s = [R0Kind::OpenAuto, R0Kind::OpenExplicit, R0Kind::ListenBlocked, R0Kind::Close];
    let rcs = [RChan::PublishNowait, RChan::SyncCall, RChan::ListenReturns, RChan::CloseChannel];
    let reps = t.pick(2, 12);
    let mut v = Vec::new();
    let mut n = 0usize;
    for s in &shapes {
        for r in 0..reps {
            n += 1;
            v.push(Case {
                order: s.clone(),
                r0: r0s[(n + r) % 4],
                ra: rcs[(n / 4 + r) % 4],
                rb: rcs[(n / 16 + 3 * r) % 4],
                code: 320 + (n % 7) as u16,
                text: format!("closing-{}", n % 5),
            });
        }
    }
    v
}

fn strat(_t: Tier) -> BoxedStrategy<Case> {
    let shapes = all_shapes();
    (
        prop::sample::select(shapes),
        prop_oneof![Just(R0Kind::OpenAuto), Just(R0Kind::OpenExplicit), Just(R0Kind::ListenBlocked), Just(R0Kind::Close)],
        prop_oneof![Just(RChan::PublishNowait), Just(RChan::SyncCall), Just(RChan::ListenReturns), Just(RChan::CloseChannel)],
        prop_oneof![Just(RChan::PublishNowait), Just(RChan::SyncCall), Just(RChan::ListenReturns), Just(RChan::CloseChannel)],
        any::<u16>(),
        "[a-zA-Z ]{0,12}",
    )
        .prop_map(|(order, r0, ra, rb, code, text)| Case { order, r0, ra, rb, code, text })
        .boxed()
}

pub fn parts() -> Vec<Box<dyn PartDyn>> {
    vec![Box::new(Part::<Case> {
        name: "batch",
        rule: "every ordered subset (size 1-4, containing at least one server close) of {server Connection.Close, server Channel.Close(A), channel-0 request, request on A, request on B} is enumerated, with request variants (open_channel auto/explicit, listen_for_connection_blocked, Connection::close; nowait publish, synchronous call, listener registration, Channel::close - whose Close, when it crosses the server's, is answered with CloseOk as the close-collision rule demands) rotated / generated; the I/O thread is parked inside the transport's write while the events are made pending in that order, so they arrive in one poll batch; oracle: no I/O-thread panic, Connection::close reports the server's close, and every racing request's return value equals its value in one of two serial reference executions on the same build (request before the close is visible / after it was processed); non-trivial = the cfg(amiquip_verif) batch trace shows the intended tokens in the intended order in one batch (>= 2 events); distinct by case hash",
        cases: |t| t.pick(400, 6000),
        threads: 8,
        strategy: strat,
        exec,
        enumerate: Some(enumerate),
        shrink_budget: 40,
        confirm_runs: 3,
            fuzz: None,
            watchdog_s: 60,
    })]
}
