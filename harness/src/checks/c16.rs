//! C16 — only a complete handshake yields a connection; failures name their cause.

use crate::broker::reply_for;
use crate::codec::{encode, StreamDecoder};
use crate::gen::{self, pick};
use crate::methods::{make, MArgs, N_METHODS};
use crate::run::{take_panics, Outcome, Part, PartDyn, Tier};
use crate::session::timed;
use crate::wire::{mock_pair, InItem, IoKind, Wire};
use amiquip::{AmqpValue, Auth, Connection, ConnectionOptions, ConnectionTuning, Error, FieldTable, Sasl};
use amq_protocol::frame::AMQPFrame;
use amq_protocol::protocol::connection::AMQPMethod as Conn;
use amq_protocol::protocol::{connection, AMQPClass};
use proptest::collection::vec;
use proptest::prelude::*;
use serde::{Deserialize, Serialize};
use std::time::{Duration, Instant};

#[derive(Clone, Debug, Serialize, Deserialize, PartialEq)]
pub enum AuthSel {
    Plain { user: String, pass: String },
    External,
    Custom { mechanism: String, response: String },
}

#[derive(Clone, Debug, Default)]
pub struct CustomSasl {
    mechanism: String,
    response: String,
}

impl Sasl for CustomSasl {
    fn mechanism(&self) -> String {
        self.mechanism.clone()
    }
    fn response(&self) -> String {
        self.response.clone()
    }
}

#[derive(Clone, Debug, Serialize, Deserialize, PartialEq)]
pub enum Step {
    /// Connection.Start with these mechanism / locale lists and server properties
    Start { mechanisms: String, locales: String, props: FieldTable },
    Secure { challenge: String },
    Tune { channel_max: u16, frame_max: u32, heartbeat: u16 },
    OpenOk,
    Close { code: u16, text: String },
    Heartbeat,
    /// a heartbeat frame on a channel other than 0 (round 7): not the frame the handshake may
    /// skip, but an out-of-order frame like any other
    HeartbeatOn { ch: u16 },
    /// any other method (out of order / steady state), on channel 0 or 1
    Other { idx: u8, args: MArgs, ch1: bool },
    /// a content frame
    ContentHeader,
    Malformed,
    Eof,
    IoErr(IoKind),
    /// the server falls silent here (only generated together with a connection timeout)
    Silence,
}

#[derive(Clone, Debug, Serialize, Deserialize, PartialEq)]
pub struct Case {
    pub auth: AuthSel,
    pub locale: String,
    pub vhost: String,
    pub information: Option<String>,
    pub channel_max: u16,
    pub frame_max: u32,
    pub heartbeat: u16,
    /// connection timeout in ms (None = no timeout)
    pub timeout_ms: Option<u16>,
    /// 1-4: a connection timeout at the top of the type's range instead (Duration::MAX, u64::MAX
    /// seconds, u64::MAX milliseconds, i64::MAX seconds): in effect no timeout
    #[serde(default)]
    pub huge_timeout: u8,
    pub script: Vec<Step>,
    /// cut every server frame into segments of this many bytes (0 = whole)
    pub chunk: u8,
}

#[derive(Clone, Debug, PartialEq)]
enum Want {
    Ok,
    UnsupportedAuthMechanism,
    UnsupportedLocale,
    SaslSecureNotSupported,
    InvalidCredentials,
    ServerClosed(u16, String),
    FrameMaxTooSmall,
    FrameUnexpected,
    ConnectionTimeout,
    MalformedFrame,
    UnexpectedSocketClose,
    IoErrorReading(std::io::ErrorKind),
}

#[derive(Clone, Copy, Debug, PartialEq)]
enum St {
    AwaitStart,
    /// StartOk sent, waiting for Secure or Tune
    AwaitTune,
    /// TuneOk + Open sent
    AwaitOpenOk,
}

struct Model {
    st: St,
    mechanism: String,
    response: String,
    locale: String,
    channel_max: u16,
    frame_max: u32,
    heartbeat: u16,
    /// frames the client must have written so far (beyond the protocol header)
    expect_frames: Vec<&'static str>,
    tune_ok: Option<(u16, u32, u16)>,
    server_props: Option<FieldTable>,
}

fn offered(list: &str, item: &str) -> bool {
    list.split(' ').any(|s| s == item)
}

impl Model {
    /// Returns Some(acceptable results) when the attempt ends at this step.
    fn step(&mut self, s: &Step, has_timeout: bool) -> Option<Vec<Want>> {
        let after_start_ok = self.st == St::AwaitTune;
        // while the client waits for the reply to StartOk a dropped connection means bad
        // credentials; the property leaves silence / socket errors in that state open
        let amb = |w: Want| -> Vec<Want> {
            if after_start_ok {
                vec![w, Want::InvalidCredentials]
            } else {
                vec![w]
            }
        };
        match s {
            Step::Heartbeat => None,
            Step::Eof => Some(if after_start_ok { vec![Want::InvalidCredentials] } else { vec![Want::UnexpectedSocketClose] }),
            Step::IoErr(k) => Some(amb(Want::IoErrorReading(k.kind()))),
            Step::Malformed => Some(amb(Want::MalformedFrame)),
            Step::Silence => {
                if has_timeout {
                    Some(amb(Want::ConnectionTimeout))
                } else {
                    None
                }
            }
            Step::Start { mechanisms, locales, props } => match self.st {
                St::AwaitStart => {
                    if !offered(mechanisms, &self.mechanism) {
                        Some(vec![Want::UnsupportedAuthMechanism])
                    } else if !offered(locales, &self.locale) {
                        Some(vec![Want::UnsupportedLocale])
                    } else {
                        self.st = St::AwaitTune;
                        self.expect_frames.push("StartOk");
                        self.server_props = Some(props.clone());
                        None
                    }
                }
                _ => Some(vec![Want::FrameUnexpected]),
            },
            Step::Secure { .. } => match self.st {
                St::AwaitTune => Some(vec![Want::SaslSecureNotSupported]),
                _ => Some(vec![Want::FrameUnexpected]),
            },
            Step::Tune { channel_max, frame_max, heartbeat } => match self.st {
                St::AwaitTune => {
                    let c = crate::checks::c15::Case {
                        c_channel_max: self.channel_max,
                        c_frame_max: self.frame_max,
                        c_heartbeat: self.heartbeat,
                        s_channel_max: *channel_max,
                        s_frame_max: *frame_max,
                        s_heartbeat: *heartbeat,
                    };
                    match crate::checks::c15::spec(&c) {
                        Ok(t) => {
                            self.tune_ok = Some(t);
                            self.st = St::AwaitOpenOk;
                            self.expect_frames.push("TuneOk");
                            self.expect_frames.push("Open");
                            None
                        }
                        Err(_) => Some(vec![Want::FrameMaxTooSmall]),
                    }
                }
                _ => Some(vec![Want::FrameUnexpected]),
            },
            Step::OpenOk => match self.st {
                St::AwaitOpenOk => Some(vec![Want::Ok]),
                _ => Some(vec![Want::FrameUnexpected]),
            },
            Step::Close { code, text } => match self.st {
                St::AwaitOpenOk => {
                    self.expect_frames.push("CloseOk");
                    Some(vec![Want::ServerClosed(*code, text.clone())])
                }
                _ => Some(vec![Want::FrameUnexpected]),
            },
            Step::Other { .. } | Step::ContentHeader | Step::HeartbeatOn { .. } => Some(vec![Want::FrameUnexpected]),
        }
    }
}

fn step_bytes(s: &Step) -> Option<Vec<u8>> {
    Some(match s {
        Step::Start { mechanisms, locales, props } => encode(&AMQPFrame::Method(
            0,
            AMQPClass::Connection(Conn::Start(connection::Start {
                version_major: 0,
                version_minor: 9,
                server_properties: props.clone(),
                mechanisms: mechanisms.clone(),
                locales: locales.clone(),
            })),
        )),
        Step::Secure { challenge } => encode(&AMQPFrame::Method(0, AMQPClass::Connection(Conn::Secure(connection::Secure { challenge: challenge.clone() })))),
        Step::Tune { channel_max, frame_max, heartbeat } => encode(&AMQPFrame::Method(
            0,
            AMQPClass::Connection(Conn::Tune(connection::Tune {
                channel_max: *channel_max,
                frame_max: *frame_max,
                heartbeat: *heartbeat,
            })),
        )),
        Step::OpenOk => encode(&AMQPFrame::Method(0, AMQPClass::Connection(Conn::OpenOk(connection::OpenOk { known_hosts: String::new() })))),
        Step::Close { code, text } => encode(&AMQPFrame::Method(
            0,
            AMQPClass::Connection(Conn::Close(connection::Close {
                reply_code: *code,
                reply_text: text.clone(),
                class_id: 10,
                method_id: 40,
            })),
        )),
        Step::Heartbeat => encode(&AMQPFrame::Heartbeat(0)),
        Step::HeartbeatOn { ch } => vec![8, (*ch >> 8) as u8, *ch as u8, 0, 0, 0, 0, 0xCE],
        Step::Other { idx, args, ch1 } => {
            let m = make(*idx as usize, args);
            encode(&AMQPFrame::Method(if *ch1 { 1 } else { 0 }, m))
        }
        Step::ContentHeader => encode(&AMQPFrame::Header(
            1,
            60,
            Box::new(amq_protocol::frame::AMQPContentHeader {
                class_id: 60,
                weight: 0,
                body_size: 3,
                properties: Default::default(),
            }),
        )),
        Step::Malformed => vec![1, 0, 0, 0, 0, 0, 2, 0xAA, 0xBB, 0xCD],
        Step::Eof | Step::IoErr(_) | Step::Silence => return None,
    })
}

/// Is this `Other` step really "other" (not one of the dedicated handshake frames)?
fn other_is_handshake_frame(idx: u8, ch1: bool) -> bool {
    // Start(0), Secure(2), Tune(4), OpenOk(7), Close(8) on channel 0 have dedicated steps
    !ch1 && matches!(idx as usize % N_METHODS, 0 | 2 | 4 | 7 | 8)
}

fn client_frame_name(f: &AMQPFrame) -> String {
    match f {
        AMQPFrame::Method(_, AMQPClass::Connection(Conn::StartOk(_))) => "StartOk".into(),
        AMQPFrame::Method(_, AMQPClass::Connection(Conn::TuneOk(_))) => "TuneOk".into(),
        AMQPFrame::Method(_, AMQPClass::Connection(Conn::Open(_))) => "Open".into(),
        AMQPFrame::Method(_, AMQPClass::Connection(Conn::CloseOk(_))) => "CloseOk".into(),
        other => crate::oracle::brief(other),
    }
}

fn push_cut(wire: &Wire, bytes: Vec<u8>, chunk: u8) {
    if chunk == 0 {
        wire.push(bytes);
    } else {
        let items: Vec<InItem> = bytes.chunks(chunk as usize).map(|c| InItem::Data(c.to_vec())).collect();
        wire.push_items(items);
    }
}

pub fn exec(c: &Case) -> Outcome {
    let (mechanism, response) = match &c.auth {
        AuthSel::Plain { user, pass } => ("PLAIN".to_string(), format!("\0{}\0{}", user, pass)),
        AuthSel::External => ("EXTERNAL".to_string(), String::new()),
        AuthSel::Custom { mechanism, response } => (mechanism.clone(), response.clone()),
    };
    let mut model = Model {
        st: St::AwaitStart,
        mechanism: mechanism.clone(),
        response: response.clone(),
        locale: c.locale.clone(),
        channel_max: c.channel_max,
        frame_max: c.frame_max,
        heartbeat: c.heartbeat,
        expect_frames: Vec::new(),
        tune_ok: None,
        server_props: None,
    };
    let huge = match c.huge_timeout {
        1 => Some(Duration::MAX),
        2 => Some(Duration::from_secs(u64::MAX)),
        3 => Some(Duration::from_millis(u64::MAX)),
        4 => Some(Duration::from_secs(i64::MAX as u64)),
        _ => None,
    };
    // `timeout` is what the reference model sees: a timeout that cannot elapse is none
    let zero = c.huge_timeout == 5;
    let timeout = if zero {
        // legal but unusual: the first wait that finds nothing ready is already too long, so
        // ConnectionTimeout is acceptable at any point - and a silent server must produce it
        Some(Duration::from_millis(0))
    } else if huge.is_some() {
        None
    } else {
        c.timeout_ms.map(|ms| Duration::from_millis(40 + ms as u64 % 200))
    };
    let opt_timeout = huge.or(timeout);
    // normalise the script: `Other` steps that coincide with dedicated steps are skipped, a
    // script that runs out is completed with silence (timeout) or EOF
    let mut script: Vec<Step> = c.script.iter().filter(|s| !matches!(s, Step::Other { idx, ch1, .. } if other_is_handshake_frame(*idx, *ch1))).cloned().collect();
    script.push(if timeout.is_some() { Step::Silence } else { Step::Eof });
    let (stream, wire) = mock_pair();
    let tuning = ConnectionTuning::default();
    let t0 = Instant::now();
    let (rtx, rrx) = std::sync::mpsc::channel();
    let auth = c.auth.clone();
    let (locale, vhost, info) = (c.locale.clone(), c.vhost.clone(), c.information.clone());
    let (cm, fm, hb) = (c.channel_max, c.frame_max, c.heartbeat);
    let opener = std::thread::Builder::new()
        .name("avh-c16-open".into())
        .spawn(move || {
            fn opts<A: Sasl>(a: A, locale: String, vhost: String, info: Option<String>, cm: u16, fm: u32, hb: u16, to: Option<Duration>) -> ConnectionOptions<A> {
                ConnectionOptions::<A>::default()
                    .auth(a)
                    .locale(locale)
                    .virtual_host(vhost)
                    .information(info)
                    .channel_max(cm)
                    .frame_max(fm)
                    .heartbeat(hb)
                    .connection_timeout(to)
            }
            let r = match auth {
                AuthSel::Plain { user, pass } => Connection::insecure_open_stream(stream, opts(Auth::Plain { username: user, password: pass }, locale, vhost, info, cm, fm, hb, opt_timeout), tuning),
                AuthSel::External => Connection::insecure_open_stream(stream, opts(Auth::External, locale, vhost, info, cm, fm, hb, opt_timeout), tuning),
                AuthSel::Custom { mechanism, response } => Connection::insecure_open_stream(stream, opts(CustomSasl { mechanism, response }, locale, vhost, info, cm, fm, hb, opt_timeout), tuning),
            };
            // if it opened, prove it is usable and expose the server properties
            let out = match r {
                Ok(mut conn) => {
                    let props = conn.server_properties().clone();
                    // (the channel stays open across the close and is dropped afterwards)
                    let opened = conn.open_channel(None);
                    let usable = opened.as_ref().map(|ch| ch.channel_id()).map_err(|e| format!("{:?}", e));
                    let close = conn.close();
                    drop(opened);
                    let usable: Result<u16, String> = usable;
                    Ok((props, usable, close.map_err(|e| format!("{:?}", e))))
                }
                Err(e) => Err(e),
            };
            let _ = rtx.send((out, Instant::now()));
        })
        .expect("spawn");
    // the scripted server
    let mut dec = StreamDecoder::new();
    let mut seen: Vec<AMQPFrame> = Vec::new();
    let mut want: Option<Vec<Want>> = None;
    let mut deviated_after_progress = false;
    let mut silence_started: Option<Instant> = None;
    let feed = |dec: &mut StreamDecoder, seen: &mut Vec<AMQPFrame>| {
        let out = wire.out_snapshot();
        for (_, f) in dec.feed(&out) {
            seen.push(f);
        }
    };
    // wait for the protocol header
    if !wire.wait_until(Duration::from_secs(5), |st| st.out.len() >= 8) {
        let _ = opener;
        return Outcome::hang("no-protocol-header", "the client did not write the protocol header");
    }
    for s in &script {
        // the client must have reacted to everything before the next server step
        let need = model.expect_frames.len();
        let ok = wire.wait_until(Duration::from_secs(3), |st| {
            let mut d = StreamDecoder::new();
            d.feed(&st.out).len() >= need || st.dropped
        });
        feed(&mut dec, &mut seen);
        if !ok {
            break;
        }
        let progressed = model.st != St::AwaitStart;
        let w = model.step(s, timeout.is_some());
        match s {
            Step::Eof => wire.push_eof(),
            Step::IoErr(k) => wire.push_err(*k),
            Step::Silence => silence_started = Some(Instant::now()),
            _ => {
                if let Some(b) = step_bytes(s) {
                    push_cut(&wire, b, c.chunk);
                }
            }
        }
        if let Some(w) = w {
            if progressed && w != vec![Want::Ok] {
                deviated_after_progress = true;
            }
            want = Some(w);
            break;
        }
    }
    let want = match want {
        Some(w) => w,
        None => {
            return Outcome {
                inconclusive: Some("script ended without a verdict".into()),
                ..Default::default()
            }
        }
    };
    // after OpenOk the harness keeps serving: Channel.Open and Connection.Close
    let mut result = None;
    let deadline = Instant::now() + Duration::from_secs(8);
    let mut answered = 0usize;
    while Instant::now() < deadline {
        if let Ok(r) = rrx.recv_timeout(Duration::from_millis(2)) {
            result = Some(r);
            break;
        }
        if want == vec![Want::Ok] {
            feed(&mut dec, &mut seen);
            while answered < seen.len() {
                if let AMQPFrame::Method(ch, m) = &seen[answered] {
                    if !matches!(m, AMQPClass::Connection(Conn::StartOk(_)) | AMQPClass::Connection(Conn::TuneOk(_)) | AMQPClass::Connection(Conn::Open(_))) {
                        if let Some(r) = reply_for(1, *ch, 0, m) {
                            wire.push(encode(&AMQPFrame::Method(*ch, r)));
                        }
                    }
                }
                answered += 1;
            }
        }
    }
    let io_thread = wire.io_thread();
    let (res, finished_at) = match result {
        Some(r) => r,
        None => {
            wire.push_eof();
            return Outcome::hang("handshake-hang", format!("insecure_open_stream did not return; expected {:?}; script {:?}", want, script));
        }
    };
    if let Some(t) = io_thread {
        let p = take_panics(t);
        if !p.is_empty() {
            return Outcome::fail("io-thread-panic", format!("{} at {}", p[0].message, p[0].location));
        }
    }
    // the attempt has returned and the I/O thread is gone (or the connection was closed): final wire
    wire.wait_until(Duration::from_secs(3), |st| st.dropped);
    feed(&mut dec, &mut seen);
    let ctx = |extra: &str| format!("{}\n  auth={:?} locale={:?} timeout={:?}\n  script {:?}\n  client frames {:?}", extra, c.auth, c.locale, opt_timeout, script, seen.iter().map(client_frame_name).collect::<Vec<_>>());
    // result
    let got: Want = match &res {
        Ok(_) => Want::Ok,
        Err(e) => match e {
            Error::UnsupportedAuthMechanism { .. } => Want::UnsupportedAuthMechanism,
            Error::UnsupportedLocale { .. } => Want::UnsupportedLocale,
            Error::SaslSecureNotSupported => Want::SaslSecureNotSupported,
            Error::InvalidCredentials => Want::InvalidCredentials,
            Error::ServerClosedConnection { code, message } => Want::ServerClosed(*code, message.clone()),
            Error::FrameMaxTooSmall { .. } => Want::FrameMaxTooSmall,
            Error::FrameUnexpected => Want::FrameUnexpected,
            Error::ConnectionTimeout => Want::ConnectionTimeout,
            Error::MalformedFrame => Want::MalformedFrame,
            Error::UnexpectedSocketClose => Want::UnexpectedSocketClose,
            Error::IoErrorReadingSocket { source } => Want::IoErrorReading(source.kind()),
            Error::IoThreadPanic => return Outcome::fail("io-thread-panic", ctx("IoThreadPanic")),
            other => return Outcome::fail("handshake-unexpected-error", ctx(&format!("{:?}", other))),
        },
    };
    // zero timeout: the attempt may time out at any point; while the client waits for the reply
    // to StartOk that surfaces as InvalidCredentials (as for every failure in that state)
    let only_start_ok = seen.len() == 1 && matches!(&seen[0], AMQPFrame::Method(0, AMQPClass::Connection(Conn::StartOk(_))));
    let zero_end = zero && (got == Want::ConnectionTimeout || (got == Want::InvalidCredentials && only_start_ok));
    if !want.contains(&got) && !zero_end {
        let sig = match (&want[0], &got) {
            (Want::SaslSecureNotSupported, Want::InvalidCredentials) => "secure-challenge-reported-as-invalid-credentials".to_string(),
            (Want::Ok, _) => "complete-handshake-rejected".to_string(),
            (_, Want::Ok) => "connection-without-complete-handshake".to_string(),
            (w, _) => format!("handshake-wrong-error:{}", format!("{:?}", w).split('(').next().unwrap_or("")),
        };
        return Outcome::fail(sig, ctx(&format!("result {:?}, expected one of {:?}", got, want)));
    }
    // timeout clause: not before the timeout, and promptly after
    if got == Want::ConnectionTimeout {
        if let (Some(t), Some(s0)) = (timeout, silence_started) {
            let el = finished_at.saturating_duration_since(s0);
            if el + Duration::from_millis(5) < t {
                return Outcome::fail("timeout-reported-early", ctx(&format!("ConnectionTimeout after {:?} of silence, timeout {:?}", el, t)));
            }
            if el > t + Duration::from_millis(1500) {
                return Outcome {
                    inconclusive: Some(format!("timeout reported late: {:?} vs {:?}", el, t)),
                    ..Default::default()
                };
            }
        }
    }
    let _ = t0;
    // wire: exactly the frames the model predicts, in order, with the right contents
    let names: Vec<String> = seen.iter().map(client_frame_name).collect();
    let mut expect: Vec<String> = model.expect_frames.iter().map(|s| s.to_string()).collect();
    if let Ok((_, usable, close)) = &res {
        if usable.is_err() || close.is_err() {
            return Outcome::fail("opened-connection-not-usable", ctx(&format!("open_channel {:?}, close {:?}", usable, close)));
        }
        expect.push(format!("Method(1, Channel(Open(Open {{ out_of_band: \"\" }})))"));
        expect.push(format!("Method(0, Connection(Close(Close {{ reply_code: 200, reply_text: \"goodbye\", class_id: 0, method_id: 0 }})))"));
    }
    // (with a zero timeout the attempt may end at any point: what was written must be a prefix)
    let early_end_allowed = zero_end;
    if names != expect && !(early_end_allowed && expect.starts_with(&names)) {
        return Outcome::fail("handshake-frames-differ", ctx(&format!("client wrote {:?}, expected {:?}", names, expect)));
    }
    for f in &seen {
        match f {
            AMQPFrame::Method(0, AMQPClass::Connection(Conn::StartOk(ok))) => {
                if ok.mechanism != mechanism || ok.response != response || ok.locale != c.locale {
                    return Outcome::fail("start-ok-fields", ctx(&format!("StartOk mechanism={:?} response={:?} locale={:?}", ok.mechanism, ok.response, ok.locale)));
                }
                let p = &ok.client_properties;
                let has_str = |k: &str| matches!(p.get(k), Some(AmqpValue::LongString(s)) if !s.is_empty());
                if !has_str("product") || !has_str("version") || !has_str("platform") {
                    return Outcome::fail("start-ok-client-properties", ctx(&format!("{:?}", p)));
                }
                let caps_ok = match p.get("capabilities") {
                    Some(AmqpValue::FieldTable(t)) => t.get("consumer_cancel_notify") == Some(&AmqpValue::Boolean(true)) && t.get("connection.blocked") == Some(&AmqpValue::Boolean(true)),
                    _ => false,
                };
                if !caps_ok {
                    return Outcome::fail("start-ok-capabilities", ctx(&format!("{:?}", p.get("capabilities"))));
                }
                let info = match p.get("information") {
                    Some(AmqpValue::LongString(s)) => Some(s.clone()),
                    None => None,
                    other => return Outcome::fail("start-ok-information", ctx(&format!("{:?}", other))),
                };
                if info != c.information {
                    return Outcome::fail("start-ok-information", ctx(&format!("information {:?}, option {:?}", info, c.information)));
                }
            }
            AMQPFrame::Method(0, AMQPClass::Connection(Conn::TuneOk(t))) => {
                if Some((t.channel_max, t.frame_max, t.heartbeat)) != model.tune_ok {
                    return Outcome::fail("tune-ok-differs-from-spec", ctx(&format!("{:?} vs {:?}", t, model.tune_ok)));
                }
            }
            AMQPFrame::Method(0, AMQPClass::Connection(Conn::Open(o))) => {
                if o.virtual_host != c.vhost {
                    return Outcome::fail("open-virtual-host", ctx(&format!("{:?}", o)));
                }
            }
            _ => {}
        }
    }
    if let Ok((props, _, _)) = &res {
        if Some(props) != model.server_props.as_ref() {
            return Outcome::fail("server-properties-differ", ctx(&format!("{:?} vs {:?}", props, model.server_props)));
        }
    }
    let mut o = Outcome::pass(deviated_after_progress || c.chunk > 0);
    o.labels.push(format!("{:?}", got).split('(').next().unwrap_or("").to_string());
    if deviated_after_progress {
        o.labels.push("deviation-after-progress".into());
    }
    if huge.is_some() {
        o.labels.push("timeout-at-top-of-range".into());
    }
    if zero {
        o.labels.push("timeout-zero".into());
    }
    o
}

fn mech_list(client_mech: String) -> BoxedStrategy<String> {
    let m = client_mech;
    let others = prop::sample::subsequence(vec!["AMQPLAIN", "EXTERNAL", "PLAIN", "XPLAIN", "PLAINX", "GSSAPI", ""], 0..5);
    (others, prop::bool::weighted(0.88), any::<u16>())
        .prop_map(move |(mut v, include, pos)| {
            let mut v: Vec<String> = v.drain(..).map(String::from).collect();
            if include {
                let p = pick(pos, v.len() + 1);
                v.insert(p, m.clone());
            }
            v.join(" ")
        })
        .boxed()
}

fn strat(_t: Tier) -> BoxedStrategy<Case> {
    let auth = prop_oneof![
        4 => (gen::short_string(), gen::short_string()).prop_map(|(user, pass)| AuthSel::Plain { user, pass }),
        1 => Just(AuthSel::External),
        1 => ("[A-Z]{1,8}", gen::long_string()).prop_map(|(mechanism, response)| AuthSel::Custom { mechanism, response }),
    ];
    let locale = prop_oneof![3 => Just("en_US".to_string()), 1 => "[a-z]{2}_[A-Z]{2}"];
    (auth, locale, gen::short_string(), prop_oneof![Just(None), gen::long_string().prop_map(Some)], any::<u16>(), prop_oneof![Just(0u32), 4000u32..5000, any::<u32>()], prop_oneof![Just(0u16), 30u16..1000])
        .prop_flat_map(|(auth, locale, vhost, information, channel_max, frame_max, heartbeat)| {
            let mech = match &auth {
                AuthSel::Plain { .. } => "PLAIN".to_string(),
                AuthSel::External => "EXTERNAL".to_string(),
                AuthSel::Custom { mechanism, .. } => mechanism.clone(),
            };
            let loc = locale.clone();
            let locales = prop_oneof![
                10 => Just(loc.clone()),
                2 => Just(format!("fr_FR {}", loc)),
                1 => Just(format!("{}x", loc)),
                1 => Just("fr_FR".to_string()),
                1 => Just(String::new()),
            ];
            let start = (mech_list(mech), locales, gen::field_table()).prop_map(|(mechanisms, locales, props)| Step::Start { mechanisms, locales, props });
            let tune = (any::<u16>(), prop_oneof![Just(0u32), Just(131072u32), 4000u32..5000, any::<u32>()], prop_oneof![Just(0u16), 30u16..600]).prop_map(|(channel_max, frame_max, heartbeat)| Step::Tune { channel_max, frame_max, heartbeat });
            let close = (any::<u16>(), gen::short_string()).prop_map(|(code, text)| Step::Close { code, text });
            let noise = prop_oneof![
                3 => Just(Step::Heartbeat),
                1 => prop_oneof![Just(1u16), 1u16..=u16::MAX].prop_map(|ch| Step::HeartbeatOn { ch }),
                1 => gen::long_string().prop_map(|challenge| Step::Secure { challenge }),
                1 => close.clone(),
                2 => (0u8..(N_METHODS as u8), crate::checks::c06::margs(), any::<bool>()).prop_map(|(idx, args, ch1)| Step::Other { idx, args, ch1 }),
                1 => Just(Step::ContentHeader),
                1 => Just(Step::Malformed),
                1 => Just(Step::Eof),
                1 => prop::sample::select(IoKind::ALL.to_vec()).prop_map(Step::IoErr),
                1 => Just(Step::Silence),
                1 => Just(Step::OpenOk),
            ];
            // mostly the happy path with 0-2 deviations spliced in at random positions
            let happy = (start, tune, prop_oneof![4 => Just(Step::OpenOk), 1 => close]).prop_map(|(a, b, c)| vec![a, b, c]);
            let script = (happy, vec((0usize..4, noise), 0..3)).prop_map(|(mut h, ins)| {
                for (pos, n) in ins.into_iter().rev() {
                    let p = pos.min(h.len());
                    h.insert(p, n);
                }
                h
            });
            (
                Just((auth, locale, vhost, information, channel_max, frame_max, heartbeat)),
                script,
                prop_oneof![1 => Just(None), 2 => any::<u16>().prop_map(Some)],
                prop_oneof![2 => Just(0u8), 1 => 1u8..9],
                prop_oneof![12 => Just(0u8), 1 => 1u8..=4, 1 => Just(5u8)],
            )
        })
        .prop_map(|((auth, locale, vhost, information, channel_max, frame_max, heartbeat), script, timeout_ms, chunk, huge_timeout)| Case {
            auth,
            locale,
            vhost,
            information,
            channel_max,
            frame_max,
            heartbeat,
            timeout_ms,
            script,
            chunk,
            huge_timeout,
        })
        .boxed()
}

pub fn parts() -> Vec<Box<dyn PartDyn>> {
    vec![Box::new(Part::<Case> {
        name: "e2e",
        rule: "client options (PLAIN with arbitrary user/password, EXTERNAL, a custom Sasl implementation, locale, virtual host, information, tuning values, connection_timeout none / 40-240 ms / one case in fourteen at the top of Duration's range, one in fourteen zero) x a scripted server (heartbeat frames on channel 0, which the handshake skips, and on a non-zero channel, which are out of order): the happy path Start(mechanism and locale lists incl. near-miss tokens)/Tune/OpenOk-or-Close with 0-2 deviations spliced in (heartbeats, Secure, Close, any of the 64 methods on channel 0/1, a content header, a malformed frame, EOF, an I/O error, silence), every server frame optionally cut into 1-8 byte segments; oracle: a reference model of the handshake gives the exact client frames (StartOk fields incl. capabilities/information, TuneOk per the C15 spec, Open vhost, CloseOk) and the result (Ok only after OpenOk, then usable and exposing Start's server properties; otherwise the specific error; InvalidCredentials also accepted for silence / socket errors / malformed data while waiting for the reply to StartOk); the timeout error may not come before the timeout; non-trivial = deviation after at least one correct step, or frames cut into segments; distinct by case hash",
        cases: |t| t.pick(6000, 100_000),
        threads: 16,
        strategy: strat,
        exec,
        enumerate: None,
        shrink_budget: 200,
        confirm_runs: 2,
            fuzz: None,
            watchdog_s: 60,
    })]
}
