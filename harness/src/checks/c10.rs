//! C10 — channel ids: unique among open channels, within 1..=channel_max, reusable.

use crate::gen::pick;
use crate::run::{catch, take_panics, Outcome, Part, PartDyn, Tier};
use amiquip::verif::SlotsProbe;
use amiquip::Error;
use proptest::collection::vec;
use proptest::prelude::*;
use serde::{Deserialize, Serialize};
use std::collections::BTreeSet;

#[derive(Clone, Debug, Serialize, Deserialize, PartialEq)]
pub enum IdSel {
    Zero,
    One,
    Max,
    MaxPlus1,
    /// an id that is currently open (picked by index)
    Open(u16),
    /// a recently freed id (picked by index from the end)
    Freed(u16),
    Any(u16),
}

#[derive(Clone, Debug, Serialize, Deserialize, PartialEq)]
pub enum Op {
    OpenExplicit(IdSel),
    OpenAuto,
    Close(IdSel),
    /// k automatic opens in a row
    FillAuto(u16),
    /// automatic opens until the id space is exhausted (plus one more attempt)
    FillAll,
    CloseAll,
    /// connection-level drain (what a connection close does to the table) is not reachable
    /// without ending the connection, so it is not part of the op language.
    CloseLowest(u16),
}

#[derive(Clone, Debug, Serialize, Deserialize, PartialEq)]
pub struct Case {
    pub channel_max: u16,
    pub ops: Vec<Op>,
}

pub struct Model {
    pub max: u16,
    pub open: BTreeSet<u16>,
    pub freed: Vec<u16>,
}

impl Model {
    pub fn resolve(&self, s: &IdSel) -> u16 {
        match s {
            IdSel::Zero => 0,
            IdSel::One => 1,
            IdSel::Max => self.max,
            IdSel::MaxPlus1 => self.max.wrapping_add(1),
            IdSel::Open(i) => {
                let v: Vec<u16> = self.open.iter().copied().collect();
                if v.is_empty() {
                    1
                } else {
                    v[pick(*i, v.len())]
                }
            }
            IdSel::Freed(i) => {
                if self.freed.is_empty() {
                    2
                } else {
                    self.freed[self.freed.len() - 1 - pick(*i, self.freed.len().min(4))]
                }
            }
            IdSel::Any(x) => *x,
        }
    }
}

struct Ctx<'a> {
    probe: SlotsProbe,
    model: Model,
    case: &'a Case,
    step: usize,
    flags: Flags,
}

#[derive(Default)]
struct Flags {
    explicit_after_free: bool,
    auto_after_free: bool,
    explicit_seen: bool,
    auto_seen: bool,
    any_free: bool,
    exhausted: bool,
    boundary: bool,
}

type Res = Result<(), (String, String)>;

impl<'a> Ctx<'a> {
    fn err(&self, sig: &str, msg: String) -> (String, String) {
        (
            sig.to_string(),
            format!("channel_max={} step {} of {:?}: {}", self.model.max, self.step, self.case.ops, msg),
        )
    }

    fn open_explicit(&mut self, id: u16) -> Res {
        self.flags.explicit_seen = true;
        if self.flags.any_free {
            self.flags.explicit_after_free = true;
        }
        if id == 0 || id == self.model.max || id == self.model.max.wrapping_add(1) {
            self.flags.boundary = true;
        }
        let should = id >= 1 && id <= self.model.max && !self.model.open.contains(&id);
        let r = catch(std::panic::AssertUnwindSafe(|| self.probe.insert(Some(id))));
        let r = match r {
            Ok(r) => r,
            Err(p) => return Err(self.err("slots-panic-on-explicit-open", format!("open(Some({})) panicked: {} ({})", id, p.message, p.location))),
        };
        match (should, r) {
            (true, Ok(got)) if got == id => {
                self.model.open.insert(id);
                Ok(())
            }
            (true, Ok(got)) => Err(self.err("explicit-open-returned-other-id", format!("open(Some({})) returned {}", id, got))),
            (true, Err(e)) => Err(self.err("explicit-open-refused-available-id", format!("open(Some({})) failed with {:?} although the id is in range and not open", id, e))),
            (false, Ok(got)) => {
                let sig = if id == 0 {
                    "id-0-handed-out"
                } else if id > self.model.max {
                    "id-above-channel-max-handed-out"
                } else {
                    "open-id-handed-out-twice"
                };
                Err(self.err(sig, format!("open(Some({})) returned Ok({}) but must fail with UnavailableChannelId", id, got)))
            }
            (false, Err(Error::UnavailableChannelId { channel_id })) if channel_id == id => Ok(()),
            (false, Err(e)) => Err(self.err("explicit-open-wrong-error", format!("open(Some({})) failed with {:?}, expected UnavailableChannelId({})", id, e, id))),
        }
    }

    fn open_auto(&mut self) -> Res {
        self.flags.auto_seen = true;
        if self.flags.any_free {
            self.flags.auto_after_free = true;
        }
        let room = (self.model.open.len() as u32) < self.model.max as u32;
        if !room {
            self.flags.exhausted = true;
        }
        let mixed = self.flags.explicit_seen;
        let r = catch(std::panic::AssertUnwindSafe(|| self.probe.insert(None)));
        let r = match r {
            Ok(r) => r,
            Err(p) => {
                let sig = if p.message.contains("overflow") {
                    "auto-open-counter-overflow"
                } else if p.message.contains("free channel id cannot be occupied") {
                    if mixed { "auto-open-panics-freed-id-occupied" } else { "auto-open-panics-freed-id-occupied-auto-only" }
                } else {
                    "slots-panic-on-auto-open"
                };
                return Err(self.err(sig, format!("open(None) panicked: {} ({})", p.message, p.location)));
            }
        };
        match (room, r) {
            (true, Ok(id)) => {
                if id == 0 {
                    return Err(self.err("id-0-handed-out", "open(None) returned id 0".into()));
                }
                if id > self.model.max {
                    return Err(self.err("id-above-channel-max-handed-out", format!("open(None) returned {}", id)));
                }
                if self.model.open.contains(&id) {
                    return Err(self.err("open-id-handed-out-twice", format!("open(None) returned {} which is already open", id)));
                }
                self.model.open.insert(id);
                Ok(())
            }
            (true, Err(e)) => Err(self.err(
                "auto-open-refused-although-ids-free",
                format!("open(None) failed with {:?} although only {} of {} ids are open", e, self.model.open.len(), self.model.max),
            )),
            (false, Ok(id)) => Err(self.err("open-id-handed-out-twice", format!("open(None) returned {} although all ids are open", id))),
            (false, Err(Error::ExhaustedChannelIds)) => Ok(()),
            (false, Err(e)) => Err(self.err("auto-open-wrong-error", format!("open(None) failed with {:?}, expected ExhaustedChannelIds", e))),
        }
    }

    fn close(&mut self, id: u16) -> Res {
        let was = self.model.open.remove(&id);
        let r = catch(std::panic::AssertUnwindSafe(|| self.probe.remove(id)));
        match r {
            Ok(removed) if removed == was => {
                if was {
                    self.flags.any_free = true;
                    self.model.freed.push(id);
                }
                Ok(())
            }
            Ok(removed) => Err(self.err("table-disagrees-on-open-set", format!("remove({}) -> {} but model says open={}", id, removed, was))),
            Err(p) => Err(self.err("slots-panic-on-close", format!("{} ({})", p.message, p.location))),
        }
    }

    fn invariant(&mut self) -> Res {
        // cheap for small tables only; large ones are compared at the end
        if self.model.open.len() <= 64 {
            let ids = self.probe.open_ids();
            let m: Vec<u16> = self.model.open.iter().copied().collect();
            if ids != m {
                return Err(self.err("table-disagrees-on-open-set", format!("table {:?} model {:?}", ids, m)));
            }
        }
        Ok(())
    }
}

/// Large tables can hide an endless scan: those cases run on a helper thread under a watchdog.
pub fn exec(c: &Case) -> Outcome {
    if c.channel_max >= 60_000 {
        let c2 = c.clone();
        return match crate::session::timed(std::time::Duration::from_secs(20), "avh-c10", move || exec_inner(&c2)) {
            Some(o) => o,
            None => Outcome::hang(
                "open-or-close-never-returns",
                format!("channel_max={}: the op sequence {:?} did not finish within 20 s (typical: milliseconds)", c.channel_max, c.ops),
            ),
        };
    }
    exec_inner(c)
}

fn exec_inner(c: &Case) -> Outcome {
    let max = c.channel_max.max(1);
    let mut cx = Ctx {
        probe: SlotsProbe::new(max),
        model: Model {
            max,
            open: BTreeSet::new(),
            freed: Vec::new(),
        },
        case: c,
        step: 0,
        flags: Flags::default(),
    };
    let mut budget: u64 = 400_000; // total primitive operations per case
    for (i, op) in c.ops.iter().enumerate() {
        cx.step = i;
        let r: Res = (|| {
            match op {
                Op::OpenExplicit(s) => {
                    let id = cx.model.resolve(s);
                    cx.open_explicit(id)?;
                }
                Op::OpenAuto => cx.open_auto()?,
                Op::Close(s) => {
                    let id = cx.model.resolve(s);
                    cx.close(id)?;
                }
                Op::FillAuto(k) => {
                    for _ in 0..*k {
                        if budget == 0 {
                            break;
                        }
                        budget -= 1;
                        cx.open_auto()?;
                    }
                }
                Op::FillAll => {
                    while (cx.model.open.len() as u32) < cx.model.max as u32 && budget > 0 {
                        budget -= 1;
                        cx.open_auto()?;
                    }
                    if budget > 0 {
                        cx.open_auto()?;
                    }
                }
                Op::CloseAll => {
                    let ids: Vec<u16> = cx.model.open.iter().copied().collect();
                    for id in ids {
                        if budget == 0 {
                            break;
                        }
                        budget -= 1;
                        cx.close(id)?;
                    }
                }
                Op::CloseLowest(k) => {
                    let ids: Vec<u16> = cx.model.open.iter().copied().take(*k as usize).collect();
                    for id in ids {
                        cx.close(id)?;
                    }
                }
            }
            cx.invariant()
        })();
        if let Err((s, m)) = r {
            return Outcome::fail(s, m);
        }
    }
    let ids = cx.probe.open_ids();
    let m: Vec<u16> = cx.model.open.iter().copied().collect();
    if ids != m {
        return Outcome::fail("table-disagrees-on-open-set", format!("final: table has {} ids, model {}", ids.len(), m.len()));
    }
    let f = &cx.flags;
    let nontrivial = (f.explicit_after_free && f.auto_seen) || (f.auto_after_free && f.explicit_seen) || f.exhausted || f.boundary;
    let mut o = Outcome::pass(nontrivial);
    if f.exhausted {
        o.labels.push("exhausted".into());
    }
    if f.boundary {
        o.labels.push("boundary-id".into());
    }
    if (f.explicit_after_free && f.auto_seen) || (f.auto_after_free && f.explicit_seen) {
        o.labels.push("explicit+auto-after-free".into());
    }
    if max >= 65534 && f.exhausted {
        o.labels.push("full-16-bit-space".into());
    }
    o
}

fn idsel() -> BoxedStrategy<IdSel> {
    prop_oneof![
        1 => Just(IdSel::Zero),
        1 => Just(IdSel::One),
        1 => Just(IdSel::Max),
        1 => Just(IdSel::MaxPlus1),
        3 => any::<u16>().prop_map(IdSel::Open),
        3 => any::<u16>().prop_map(IdSel::Freed),
        2 => any::<u16>().prop_map(IdSel::Any),
        2 => (0u16..12).prop_map(IdSel::Any),
    ]
    .boxed()
}

fn strat(_t: Tier) -> BoxedStrategy<Case> {
    let max = prop_oneof![
        2 => Just(1u16), 2 => Just(2u16), 2 => Just(3u16), 3 => 4u16..=8, 1 => Just(255u16), 1 => Just(256u16),
        1 => Just(65534u16), 1 => Just(65535u16), 1 => any::<u16>(),
    ];
    let op = prop_oneof![
        5 => idsel().prop_map(Op::OpenExplicit),
        6 => Just(Op::OpenAuto),
        5 => idsel().prop_map(Op::Close),
        1 => (0u16..20).prop_map(Op::FillAuto),
        1 => Just(Op::FillAll),
        1 => Just(Op::CloseAll),
        1 => (0u16..6).prop_map(Op::CloseLowest),
    ];
    (max, vec(op, 1..60))
        .prop_map(|(channel_max, ops)| Case { channel_max, ops })
        .boxed()
}

/// Bounded-exhaustive: every sequence of up to L primitive ops over ids {0..=max+1} for tiny tables.
fn enumerate(t: Tier) -> Vec<Case> {
    let mut out = Vec::new();
    let len = t.pick(4, 5);
    for max in 1u16..=3 {
        let mut alphabet: Vec<Op> = vec![Op::OpenAuto];
        for id in 0..=max + 1 {
            alphabet.push(Op::OpenExplicit(IdSel::Any(id)));
        }
        for id in 1..=max {
            alphabet.push(Op::Close(IdSel::Any(id)));
        }
        let n = alphabet.len();
        let mut idx = vec![0usize; len];
        loop {
            let mut ops: Vec<Op> = idx.iter().map(|i| alphabet[*i].clone()).collect();
            // end every sequence by exhausting the table (this is where stale free-list entries bite)
            ops.push(Op::FillAll);
            out.push(Case { channel_max: max, ops });
            let mut k = 0;
            loop {
                if k == len {
                    break;
                }
                idx[k] += 1;
                if idx[k] < n {
                    break;
                }
                idx[k] = 0;
                k += 1;
            }
            if k == len {
                break;
            }
        }
    }
    out
}

fn fuzz_case(mut c: Case) -> Case {
    // a uniformly decoded u16 would almost always be a huge table (slow): keep most tables small
    // and reach the 16-bit boundaries through a few selected values
    c.channel_max = match c.channel_max % 128 {
        0 => [65534u16, 65535][(c.channel_max as usize >> 7) % 2],
        1 | 2 => [255u16, 256][(c.channel_max as usize >> 7) % 2],
        _ => 1 + (c.channel_max >> 7) % 40,
    };
    c.ops.truncate(60);
    for op in c.ops.iter_mut() {
        match op {
            Op::FillAuto(k) => *k %= 20,
            Op::CloseLowest(k) => *k %= 6,
            _ => {}
        }
    }
    c
}

// ---------------------------------------------------------------------------------------------
// end to end: the same op language through Connection::open_channel / Channel::close / drop /
// server-initiated channel close, with small negotiated channel_max

#[derive(Clone, Debug, Serialize, Deserialize, PartialEq)]
pub enum EOp {
    OpenExplicit(IdSel),
    OpenAuto,
    /// Channel::close on the k-th open channel (picked)
    Close(u16),
    /// drop the k-th open channel (implicit close)
    Drop(u16),
    /// the server closes the k-th open channel
    ServerClose(u16),
}

#[derive(Clone, Debug, Serialize, Deserialize, PartialEq)]
pub struct ECase {
    pub channel_max: u8,
    pub ops: Vec<EOp>,
}

pub fn exec_e2e(c: &ECase) -> Outcome {
    use crate::broker::{AutoBroker, ServerCfg};
    use crate::session::{open_session, timed, ClientCfg, CALL_TIMEOUT};
    use amq_protocol::frame::AMQPFrame;
    use amq_protocol::protocol::channel::AMQPMethod as Chan;
    use amq_protocol::protocol::{channel, AMQPClass};
    // mostly tiny tables (exhaustion is cheap); one session in eight negotiates a table whose top
    // end is at a type or protocol boundary
    let max = if c.channel_max >= 224 { [255u16, 256, 65534, 65535][c.channel_max as usize % 4] } else { (c.channel_max % 8 + 1) as u16 };
    let scfg = ServerCfg {
        // 0 = "no limit" is how a server offers the full 16-bit space
        channel_max: if max == 65535 && c.channel_max >= 240 { 0 } else { max },
        ..Default::default()
    };
    let mut sess = open_session(&ClientCfg::default(), scfg, vec![], AutoBroker::new(4));
    let mut conn = match sess.conn.take() {
        Some(c) => c,
        None => {
            let _ = sess.broker.stop();
            return Outcome {
                inconclusive: Some(format!("open failed {:?}", sess.open_error)),
                ..Default::default()
            };
        }
    };
    let wire = sess.wire.clone();
    let bh = std::sync::Arc::new(sess.broker);
    let bh2 = bh.clone();
    let case = c.clone();
    let res = timed(CALL_TIMEOUT * 3, "avh-c10-e2e", move || -> Result<(bool, bool, Vec<u16>), (String, String)> {
        let mut model = Model {
            max,
            open: BTreeSet::new(),
            freed: Vec::new(),
        };
        let mut chans: Vec<amiquip::Channel> = Vec::new();
        let mut opened_ids: Vec<u16> = Vec::new();
        let (mut mixed, mut exhausted, mut any_free, mut explicit, mut auto) = (false, false, false, false, false);
        for (step, op) in case.ops.iter().enumerate() {
            let ctx = |m: String| format!("channel_max={} step {} of {:?}: {}", max, step, case.ops, m);
            match op {
                EOp::OpenExplicit(sel) => {
                    let id = model.resolve(sel);
                    explicit = true;
                    if any_free && auto {
                        mixed = true;
                    }
                    let should = id >= 1 && id <= max && !model.open.contains(&id);
                    match (should, conn.open_channel(Some(id))) {
                        (true, Ok(ch)) => {
                            if ch.channel_id() != id {
                                return Err(("explicit-open-returned-other-id".into(), ctx(format!("open_channel(Some({})) returned channel {}", id, ch.channel_id()))));
                            }
                            model.open.insert(id);
                            opened_ids.push(id);
                            chans.push(ch);
                        }
                        (true, Err(e)) => return Err(("explicit-open-refused-available-id".into(), ctx(format!("open_channel(Some({})) failed: {:?}", id, e)))),
                        (false, Ok(ch)) => {
                            let sig = if id == 0 { "id-0-handed-out" } else if id > max { "id-above-channel-max-handed-out" } else { "open-id-handed-out-twice" };
                            return Err((sig.into(), ctx(format!("open_channel(Some({})) returned channel {}", id, ch.channel_id()))));
                        }
                        (false, Err(Error::UnavailableChannelId { channel_id })) if channel_id == id => {}
                        (false, Err(e)) => return Err(("explicit-open-wrong-error".into(), ctx(format!("open_channel(Some({})) failed with {:?}", id, e)))),
                    }
                }
                EOp::OpenAuto => {
                    auto = true;
                    if any_free && explicit {
                        mixed = true;
                    }
                    let room = (model.open.len() as u16) < max;
                    if !room {
                        exhausted = true;
                    }
                    match (room, conn.open_channel(None)) {
                        (true, Ok(ch)) => {
                            let id = ch.channel_id();
                            if id == 0 || id > max || model.open.contains(&id) {
                                return Err(("open-id-handed-out-twice".into(), ctx(format!("open_channel(None) returned {} (open: {:?})", id, model.open))));
                            }
                            model.open.insert(id);
                            opened_ids.push(id);
                            chans.push(ch);
                        }
                        (true, Err(e)) => return Err(("auto-open-refused-although-ids-free".into(), ctx(format!("open_channel(None) failed: {:?} with {} of {} open", e, model.open.len(), max)))),
                        (false, Ok(ch)) => return Err(("open-id-handed-out-twice".into(), ctx(format!("open_channel(None) returned {} although all ids are open", ch.channel_id())))),
                        (false, Err(Error::ExhaustedChannelIds)) => {}
                        (false, Err(e)) => return Err(("auto-open-wrong-error".into(), ctx(format!("{:?}", e)))),
                    }
                }
                EOp::Close(k) | EOp::Drop(k) | EOp::ServerClose(k) => {
                    if chans.is_empty() {
                        continue;
                    }
                    let i = pick(*k, chans.len());
                    let ch = chans.remove(i);
                    let id = ch.channel_id();
                    match op {
                        EOp::Close(_) => {
                            if let Err(e) = ch.close() {
                                return Err(("channel-close-failed".into(), ctx(format!("close of channel {}: {:?}", id, e))));
                            }
                        }
                        EOp::Drop(_) => drop(ch),
                        _ => {
                            let _ = bh2.call(move |_b, io| {
                                io.send_method(
                                    id,
                                    AMQPClass::Channel(Chan::Close(channel::Close {
                                        reply_code: 406,
                                        reply_text: "closed by server".into(),
                                        class_id: 0,
                                        method_id: 0,
                                    })),
                                );
                            });
                            // the next call on it reports the close; then the handle goes away
                            match ch.qos(0, 0, false) {
                                Err(Error::ServerClosedChannel { channel_id, .. }) if channel_id == id => {}
                                other => return Err(("server-close-not-reported".into(), ctx(format!("call on channel {} after the server closed it: {:?}", id, other)))),
                            }
                            drop(ch);
                        }
                    }
                    model.open.remove(&id);
                    model.freed.push(id);
                    any_free = true;
                }
            }
        }
        drop(chans);
        conn.close().map_err(|e| ("connection-failed".to_string(), format!("{:?}", e)))?;
        Ok((mixed, exhausted, opened_ids))
    });
    let io = wire.io_thread();
    let (_b, bio) = match std::sync::Arc::try_unwrap(bh) {
        Ok(b) => b.stop(),
        Err(_) => {
            wire.push_eof();
            return Outcome::hang("open-channel-hang", format!("channel_max={}: a call did not return: {:?}", max, c.ops));
        }
    };
    if let Some(t) = io {
        let p = take_panics(t);
        if !p.is_empty() {
            return Outcome::fail("io-thread-panic", format!("{} at {}", p[0].message, p[0].location));
        }
    }
    let (mixed, exhausted, opened) = match res {
        None => {
            wire.push_eof();
            return Outcome::hang("open-channel-hang", format!("channel_max={}: a call did not return: {:?}", max, c.ops));
        }
        Some(Err((s, m))) => return Outcome::fail(s, m),
        Some(Ok(x)) => x,
    };
    // the Channel.Open frames on the wire carry exactly the returned ids, in order
    let wire_ids: Vec<u16> = bio
        .seen
        .iter()
        .filter_map(|f| match f {
            AMQPFrame::Method(ch, AMQPClass::Channel(Chan::Open(_))) => Some(*ch),
            _ => None,
        })
        .collect();
    if wire_ids != opened {
        return Outcome::fail("channel-open-frames-differ-from-returned-ids", format!("wire {:?}, returned {:?}", wire_ids, opened));
    }
    let mut o = Outcome::pass(mixed || exhausted);
    if mixed {
        o.labels.push("explicit+auto-after-free".into());
    }
    if exhausted {
        o.labels.push("exhausted".into());
    }
    if max > 8 {
        o.labels.push(format!("channel_max={}", max));
        if opened.iter().any(|i| *i == max) {
            o.labels.push("top-id-opened".into());
        }
    }
    o
}

fn estrat(_t: Tier) -> BoxedStrategy<ECase> {
    let sel = prop_oneof![
        1 => Just(IdSel::Zero),
        1 => Just(IdSel::One),
        1 => Just(IdSel::Max),
        1 => Just(IdSel::MaxPlus1),
        2 => any::<u16>().prop_map(IdSel::Open),
        3 => any::<u16>().prop_map(IdSel::Freed),
        3 => (0u16..10).prop_map(IdSel::Any),
        1 => (250u16..260).prop_map(IdSel::Any),
        1 => (65530u16..=65535).prop_map(IdSel::Any),
    ];
    let op = prop_oneof![
        4 => sel.prop_map(EOp::OpenExplicit),
        6 => Just(EOp::OpenAuto),
        2 => any::<u16>().prop_map(EOp::Close),
        2 => any::<u16>().prop_map(EOp::Drop),
        2 => any::<u16>().prop_map(EOp::ServerClose),
    ];
    (any::<u8>(), vec(op, 1..60)).prop_map(|(channel_max, ops)| ECase { channel_max, ops }).boxed()
}

pub fn parts() -> Vec<Box<dyn PartDyn>> {
    vec![Box::new(Part::<Case> {
        name: "model",
        rule: "model-based: op sequences (explicit open with ids biased to 0/1/max/max+1/open/recently-freed, automatic open, close, fill-k, fill-all, close-all) on the channel-id table for channel_max in {1,2,3,4..8,255,256,65534,65535,any}, all sequences of 4 (quick) / 5 (thorough) primitive ops for channel_max<=3 enumerated (each followed by exhausting the table); oracle: BTreeSet reference model checked after every op (returned id, error variant, open set, never id 0, no panic); non-trivial = explicit and automatic allocation mixed after a free, or id space exhausted, or a boundary id (0, max, max+1) used; distinct by case hash",
        cases: |t| t.pick(60_000, 2_000_000),
        threads: 16,
        strategy: strat,
        exec,
        enumerate: Some(enumerate),
        shrink_budget: 3000,
        confirm_runs: 1,
            fuzz: Some(fuzz_case),
            watchdog_s: 0,
    }),
    Box::new(Part::<ECase> {
        name: "e2e",
        rule: "the same op language through the public API on the mock transport: channel_max 1-8 (one session in eight: 255, 256, 65534 or 65535, the latter also offered as 0) negotiated in the handshake, up to 59 ops (open_channel(Some(id)) with boundary / open / freed ids, open_channel(None), Channel::close, drop, server-initiated channel close); oracle: the BTreeSet model after every op (returned id, UnavailableChannelId / ExhaustedChannelIds), every call returns, no I/O-thread panic, the Channel.Open frames on the wire carry exactly the returned ids, the session closes Ok; non-trivial = explicit and automatic allocation mixed after a free, or id space exhausted; distinct by case hash",
        cases: |t| t.pick(1500, 30_000),
        threads: 16,
        strategy: estrat,
        exec: exec_e2e,
        enumerate: None,
        shrink_budget: 200,
        confirm_runs: 2,
        fuzz: None,
        watchdog_s: 60,
    })]
}
