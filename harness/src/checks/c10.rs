//! C10 — channel ids: unique among open channels, within 1..=channel_max, reusable.

use crate::gen::pick;
use crate::run::{catch, Outcome, Part, PartDyn, Tier};
use amiquip::verif::SlotsProbe;
use amiquip::Error;
use proptest::collection::vec;
use proptest::prelude::*;
use serde::{Deserialize, Serialize};
use std::collections::BTreeSet;

#[derive(Clone, Debug, Serialize, Deserialize, PartialEq)]
pub enum IdSel {
    Zero,
    One,
    Max,
    MaxPlus1,
    /// an id that is currently open (picked by index)
    Open(u16),
    /// a recently freed id (picked by index from the end)
    Freed(u16),
    Any(u16),
}

#[derive(Clone, Debug, Serialize, Deserialize, PartialEq)]
pub enum Op {
    OpenExplicit(IdSel),
    OpenAuto,
    Close(IdSel),
    /// k automatic opens in a row
    FillAuto(u16),
    /// automatic opens until the id space is exhausted (plus one more attempt)
    FillAll,
    CloseAll,
    /// connection-level drain (what a connection close does to the table) is not reachable
    /// without ending the connection, so it is not part of the op language.
    CloseLowest(u16),
}

#[derive(Clone, Debug, Serialize, Deserialize, PartialEq)]
pub struct Case {
    pub channel_max: u16,
    pub ops: Vec<Op>,
}

pub struct Model {
    pub max: u16,
    pub open: BTreeSet<u16>,
    pub freed: Vec<u16>,
}

impl Model {
    pub fn resolve(&self, s: &IdSel) -> u16 {
        match s {
            IdSel::Zero => 0,
            IdSel::One => 1,
            IdSel::Max => self.max,
            IdSel::MaxPlus1 => self.max.wrapping_add(1),
            IdSel::Open(i) => {
                let v: Vec<u16> = self.open.iter().copied().collect();
                if v.is_empty() {
                    1
                } else {
                    v[pick(*i, v.len())]
                }
            }
            IdSel::Freed(i) => {
                if self.freed.is_empty() {
                    2
                } else {
                    self.freed[self.freed.len() - 1 - pick(*i, self.freed.len().min(4))]
                }
            }
            IdSel::Any(x) => *x,
        }
    }
}

struct Ctx<'a> {
    probe: SlotsProbe,
    model: Model,
    case: &'a Case,
    step: usize,
    flags: Flags,
}

#[derive(Default)]
struct Flags {
    explicit_after_free: bool,
    auto_after_free: bool,
    explicit_seen: bool,
    auto_seen: bool,
    any_free: bool,
    exhausted: bool,
    boundary: bool,
}

type Res = Result<(), (String, String)>;

impl<'a> Ctx<'a> {
    fn err(&self, sig: &str, msg: String) -> (String, String) {
        (
            sig.to_string(),
            format!("channel_max={} step {} of {:?}: {}", self.model.max, self.step, self.case.ops, msg),
        )
    }

    fn open_explicit(&mut self, id: u16) -> Res {
        self.flags.explicit_seen = true;
        if self.flags.any_free {
            self.flags.explicit_after_free = true;
        }
        if id == 0 || id == self.model.max || id == self.model.max.wrapping_add(1) {
            self.flags.boundary = true;
        }
        let should = id >= 1 && id <= self.model.max && !self.model.open.contains(&id);
        let r = catch(std::panic::AssertUnwindSafe(|| self.probe.insert(Some(id))));
        let r = match r {
            Ok(r) => r,
            Err(p) => return Err(self.err("slots-panic-on-explicit-open", format!("open(Some({})) panicked: {} ({})", id, p.message, p.location))),
        };
        match (should, r) {
            (true, Ok(got)) if got == id => {
                self.model.open.insert(id);
                Ok(())
            }
            (true, Ok(got)) => Err(self.err("explicit-open-returned-other-id", format!("open(Some({})) returned {}", id, got))),
            (true, Err(e)) => Err(self.err("explicit-open-refused-available-id", format!("open(Some({})) failed with {:?} although the id is in range and not open", id, e))),
            (false, Ok(got)) => {
                let sig = if id == 0 {
                    "id-0-handed-out"
                } else if id > self.model.max {
                    "id-above-channel-max-handed-out"
                } else {
                    "open-id-handed-out-twice"
                };
                Err(self.err(sig, format!("open(Some({})) returned Ok({}) but must fail with UnavailableChannelId", id, got)))
            }
            (false, Err(Error::UnavailableChannelId { channel_id })) if channel_id == id => Ok(()),
            (false, Err(e)) => Err(self.err("explicit-open-wrong-error", format!("open(Some({})) failed with {:?}, expected UnavailableChannelId({})", id, e, id))),
        }
    }

    fn open_auto(&mut self) -> Res {
        self.flags.auto_seen = true;
        if self.flags.any_free {
            self.flags.auto_after_free = true;
        }
        let room = (self.model.open.len() as u32) < self.model.max as u32;
        if !room {
            self.flags.exhausted = true;
        }
        let mixed = self.flags.explicit_seen;
        let r = catch(std::panic::AssertUnwindSafe(|| self.probe.insert(None)));
        let r = match r {
            Ok(r) => r,
            Err(p) => {
                let sig = if p.message.contains("overflow") {
                    "auto-open-counter-overflow"
                } else if p.message.contains("free channel id cannot be occupied") {
                    if mixed { "auto-open-panics-freed-id-occupied" } else { "auto-open-panics-freed-id-occupied-auto-only" }
                } else {
                    "slots-panic-on-auto-open"
                };
                return Err(self.err(sig, format!("open(None) panicked: {} ({})", p.message, p.location)));
            }
        };
        match (room, r) {
            (true, Ok(id)) => {
                if id == 0 {
                    return Err(self.err("id-0-handed-out", "open(None) returned id 0".into()));
                }
                if id > self.model.max {
                    return Err(self.err("id-above-channel-max-handed-out", format!("open(None) returned {}", id)));
                }
                if self.model.open.contains(&id) {
                    return Err(self.err("open-id-handed-out-twice", format!("open(None) returned {} which is already open", id)));
                }
                self.model.open.insert(id);
                Ok(())
            }
            (true, Err(e)) => Err(self.err(
                "auto-open-refused-although-ids-free",
                format!("open(None) failed with {:?} although only {} of {} ids are open", e, self.model.open.len(), self.model.max),
            )),
            (false, Ok(id)) => Err(self.err("open-id-handed-out-twice", format!("open(None) returned {} although all ids are open", id))),
            (false, Err(Error::ExhaustedChannelIds)) => Ok(()),
            (false, Err(e)) => Err(self.err("auto-open-wrong-error", format!("open(None) failed with {:?}, expected ExhaustedChannelIds", e))),
        }
    }

    fn close(&mut self, id: u16) -> Res {
        let was = self.model.open.remove(&id);
        let r = catch(std::panic::AssertUnwindSafe(|| self.probe.remove(id)));
        match r {
            Ok(removed) if removed == was => {
                if was {
                    self.flags.any_free = true;
                    self.model.freed.push(id);
                }
                Ok(())
            }
            Ok(removed) => Err(self.err("table-disagrees-on-open-set", format!("remove({}) -> {} but model says open={}", id, removed, was))),
            Err(p) => Err(self.err("slots-panic-on-close", format!("{} ({})", p.message, p.location))),
        }
    }

    fn invariant(&mut self) -> Res {
        // cheap for small tables only; large ones are compared at the end
        if self.model.open.len() <= 64 {
            let ids = self.probe.open_ids();
            let m: Vec<u16> = self.model.open.iter().copied().collect();
            if ids != m {
                return Err(self.err("table-disagrees-on-open-set", format!("table {:?} model {:?}", ids, m)));
            }
        }
        Ok(())
    }
}

/// Large tables can hide an endless scan: those cases run on a helper thread under a watchdog.
pub fn exec(c: &Case) -> Outcome {
    if c.channel_max >= 60_000 {
        let c2 = c.clone();
        return match crate::session::timed(std::time::Duration::from_secs(20), "avh-c10", move || exec_inner(&c2)) {
            Some(o) => o,
            None => Outcome::hang(
                "open-or-close-never-returns",
                format!("channel_max={}: the op sequence {:?} did not finish within 20 s (typical: milliseconds)", c.channel_max, c.ops),
            ),
        };
    }
    exec_inner(c)
}

fn exec_inner(c: &Case) -> Outcome {
    let max = c.channel_max.max(1);
    let mut cx = Ctx {
        probe: SlotsProbe::new(max),
        model: Model {
            max,
            open: BTreeSet::new(),
            freed: Vec::new(),
        },
        case: c,
        step: 0,
        flags: Flags::default(),
    };
    let mut budget: u64 = 400_000; // total primitive operations per case
    for (i, op) in c.ops.iter().enumerate() {
        cx.step = i;
        let r: Res = (|| {
            match op {
                Op::OpenExplicit(s) => {
                    let id = cx.model.resolve(s);
                    cx.open_explicit(id)?;
                }
                Op::OpenAuto => cx.open_auto()?,
                Op::Close(s) => {
                    let id = cx.model.resolve(s);
                    cx.close(id)?;
                }
                Op::FillAuto(k) => {
                    for _ in 0..*k {
                        if budget == 0 {
                            break;
                        }
                        budget -= 1;
                        cx.open_auto()?;
                    }
                }
                Op::FillAll => {
                    while (cx.model.open.len() as u32) < cx.model.max as u32 && budget > 0 {
                        budget -= 1;
                        cx.open_auto()?;
                    }
                    if budget > 0 {
                        cx.open_auto()?;
                    }
                }
                Op::CloseAll => {
                    let ids: Vec<u16> = cx.model.open.iter().copied().collect();
                    for id in ids {
                        if budget == 0 {
                            break;
                        }
                        budget -= 1;
                        cx.close(id)?;
                    }
                }
                Op::CloseLowest(k) => {
                    let ids: Vec<u16> = cx.model.open.iter().copied().take(*k as usize).collect();
                    for id in ids {
                        cx.close(id)?;
                    }
                }
            }
            cx.invariant()
        })();
        if let Err((s, m)) = r {
            return Outcome::fail(s, m);
        }
    }
    let ids = cx.probe.open_ids();
    let m: Vec<u16> = cx.model.open.iter().copied().collect();
    if ids != m {
        return Outcome::fail("table-disagrees-on-open-set", format!("final: table has {} ids, model {}", ids.len(), m.len()));
    }
    let f = &cx.flags;
    let nontrivial = (f.explicit_after_free && f.auto_seen) || (f.auto_after_free && f.explicit_seen) || f.exhausted || f.boundary;
    let mut o = Outcome::pass(nontrivial);
    if f.exhausted {
        o.labels.push("exhausted".into());
    }
    if f.boundary {
        o.labels.push("boundary-id".into());
    }
    if (f.explicit_after_free && f.auto_seen) || (f.auto_after_free && f.explicit_seen) {
        o.labels.push("explicit+auto-after-free".into());
    }
    if max >= 65534 && f.exhausted {
        o.labels.push("full-16-bit-space".into());
    }
    o
}

fn idsel() -> BoxedStrategy<IdSel> {
    prop_oneof![
        1 => Just(IdSel::Zero),
        1 => Just(IdSel::One),
        1 => Just(IdSel::Max),
        1 => Just(IdSel::MaxPlus1),
        3 => any::<u16>().prop_map(IdSel::Open),
        3 => any::<u16>().prop_map(IdSel::Freed),
        2 => any::<u16>().prop_map(IdSel::Any),
        2 => (0u16..12).prop_map(IdSel::Any),
    ]
    .boxed()
}

fn strat(_t: Tier) -> BoxedStrategy<Case> {
    let max = prop_oneof![
        2 => Just(1u16), 2 => Just(2u16), 2 => Just(3u16), 3 => 4u16..=8, 1 => Just(255u16), 1 => Just(256u16),
        1 => Just(65534u16), 1 => Just(65535u16), 1 => any::<u16>(),
    ];
    let op = prop_oneof![
        5 => idsel().prop_map(Op::OpenExplicit),
        6 => Just(Op::OpenAuto),
        5 => idsel().prop_map(Op::Close),
        1 => (0u16..20).prop_map(Op::FillAuto),
        1 => Just(Op::FillAll),
        1 => Just(Op::CloseAll),
        1 => (0u16..6).prop_map(Op::CloseLowest),
    ];
    (max, vec(op, 1..60))
        .prop_map(|(channel_max, ops)| Case { channel_max, ops })
        .boxed()
}

/// Bounded-exhaustive: every sequence of up to L primitive ops over ids {0..=max+1} for tiny tables.
fn enumerate(t: Tier) -> Vec<Case> {
    let mut out = Vec::new();
    let len = t.pick(4, 5);
    for max in 1u16..=3 {
        let mut alphabet: Vec<Op> = vec![Op::OpenAuto];
        for id in 0..=max + 1 {
            alphabet.push(Op::OpenExplicit(IdSel::Any(id)));
        }
        for id in 1..=max {
            alphabet.push(Op::Close(IdSel::Any(id)));
        }
        let n = alphabet.len();
        let mut idx = vec![0usize; len];
        loop {
            let mut ops: Vec<Op> = idx.iter().map(|i| alphabet[*i].clone()).collect();
            // end every sequence by exhausting the table (this is where stale free-list entries bite)
            ops.push(Op::FillAll);
            out.push(Case { channel_max: max, ops });
            let mut k = 0;
            loop {
                if k == len {
                    break;
                }
                idx[k] += 1;
                if idx[k] < n {
                    break;
                }
                idx[k] = 0;
                k += 1;
            }
            if k == len {
                break;
            }
        }
    }
    out
}

fn fuzz_case(mut c: Case) -> Case {
    // a uniformly decoded u16 would almost always be a huge table (slow): keep most tables small
    // and reach the 16-bit boundaries through a few selected values
    c.channel_max = match c.channel_max % 128 {
        0 => [65534u16, 65535][(c.channel_max as usize >> 7) % 2],
        1 | 2 => [255u16, 256][(c.channel_max as usize >> 7) % 2],
        _ => 1 + (c.channel_max >> 7) % 40,
    };
    c.ops.truncate(60);
    for op in c.ops.iter_mut() {
        match op {
            Op::FillAuto(k) => *k %= 20,
            Op::CloseLowest(k) => *k %= 6,
            _ => {}
        }
    }
    c
}

pub fn parts() -> Vec<Box<dyn PartDyn>> {
    vec![Box::new(Part::<Case> {
        name: "model",
        rule: "model-based: op sequences (explicit open with ids biased to 0/1/max/max+1/open/recently-freed, automatic open, close, fill-k, fill-all, close-all) on the channel-id table for channel_max in {1,2,3,4..8,255,256,65534,65535,any}, all sequences of 4 (quick) / 5 (thorough) primitive ops for channel_max<=3 enumerated (each followed by exhausting the table); oracle: BTreeSet reference model checked after every op (returned id, error variant, open set, never id 0, no panic); non-trivial = explicit and automatic allocation mixed after a free, or id space exhausted, or a boundary id (0, max, max+1) used; distinct by case hash",
        cases: |t| t.pick(60_000, 2_000_000),
        threads: 16,
        strategy: strat,
        exec,
        enumerate: Some(enumerate),
        shrink_budget: 3000,
        confirm_runs: 1,
            fuzz: Some(fuzz_case),
    })]
}
