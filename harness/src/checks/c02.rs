//! C02 — a published message reaches the wire intact and correctly framed.

use crate::broker::{AutoBroker, ServerCfg};
use crate::gen::{self, body_bytes, Props};
use crate::oracle::{check_publish_at, check_stream_wellformed, per_channel, PublishExpect};
use crate::run::{take_panics, Outcome, Part, PartDyn, Tier};
use crate::session::{open_session, timed, timed_close, ClientCfg, CALL_TIMEOUT};
use amiquip::{Exchange, ExchangeDeclareOptions, ExchangeType, Publish};
use amq_protocol::frame::AMQPFrame;
use amq_protocol::protocol::exchange::AMQPMethod as Exch;
use amq_protocol::protocol::AMQPClass;
use proptest::collection::vec;
use proptest::prelude::*;
use serde::{Deserialize, Serialize};

#[derive(Clone, Debug, Serialize, Deserialize, PartialEq)]
pub enum LenSel {
    Zero,
    One,
    Small(u16),
    /// k * p + d where p is the per-frame payload limit
    Boundary { k: u8, d: i8 },
    /// uniform in 0..=4p (fraction of u16)
    Uniform(u16),
}

#[derive(Clone, Debug, Serialize, Deserialize, PartialEq)]
pub struct Pub {
    pub ch: u8,
    pub exchange: String,
    pub routing_key: String,
    pub mandatory: bool,
    pub immediate: bool,
    pub props: Props,
    pub len: LenSel,
    /// publish through `Exchange::publish` instead of `Channel::basic_publish`
    pub via_exchange: bool,
    /// issue another (nowait) method on the same channel before this publish
    pub other_before: bool,
}

#[derive(Clone, Debug, Serialize, Deserialize, PartialEq)]
pub struct Case {
    pub client_frame_max: u32,
    pub server_frame_max: u32,
    pub channels: u8,
    pub pubs: Vec<Pub>,
    pub salt: u64,
    /// transport write script (short writes / would-block), cycled `wcycles` times: publishes
    /// must arrive intact however the transport fragments writes, also while closing
    #[serde(default)]
    pub wscript: Vec<crate::wire::WStep>,
    #[serde(default)]
    pub wcycles: u16,
    /// heartbeats are on (1 s) and the transport stalls for 1.3 s in the middle of a frame right
    /// after the publishes were issued: the heartbeat timer fires while a backlog whose head is
    /// inside a frame is waiting (costly, generated for about one session in a hundred)
    #[serde(default)]
    pub hb_stall: bool,
}

pub fn negotiated(a: u32, b: u32) -> u32 {
    let a = if a == 0 { u32::MAX } else { a };
    let b = if b == 0 { u32::MAX } else { b };
    a.min(b)
}

pub fn resolve_len(sel: &LenSel, p: usize) -> usize {
    // for an unlimited frame_max, p is huge: cap the scale at 75_000 so bodies stay <= 300 KB
    let q = p.min(75_000);
    match sel {
        LenSel::Zero => 0,
        LenSel::One => 1,
        LenSel::Small(n) => *n as usize % 300,
        LenSel::Boundary { k, d } => {
            let base = (*k as usize).max(1).min(4) * q;
            (base as i64 + *d as i64).max(0) as usize
        }
        LenSel::Uniform(f) => ((*f as usize) * (4 * q + 1)) >> 16,
    }
}

fn fm() -> BoxedStrategy<u32> {
    prop_oneof![
        Just(0u32),
        Just(4096),
        Just(4097),
        Just(5000),
        Just(8192),
        Just(131072)
    ]
    .boxed()
}

fn strat(_t: Tier) -> BoxedStrategy<Case> {
    let len = prop_oneof![
        1 => Just(LenSel::Zero),
        1 => Just(LenSel::One),
        2 => any::<u16>().prop_map(LenSel::Small),
        4 => (1u8..=4, -1i8..=1).prop_map(|(k, d)| LenSel::Boundary { k, d }),
        2 => any::<u16>().prop_map(LenSel::Uniform),
    ];
    let p = (
        0u8..3,
        gen::short_string(),
        gen::short_string(),
        any::<bool>(),
        any::<bool>(),
        gen::props(),
        len,
        any::<bool>(),
        prop::bool::weighted(0.3),
    )
        .prop_map(
            |(ch, exchange, routing_key, mandatory, immediate, props, len, via_exchange, other_before)| Pub {
                ch,
                exchange,
                routing_key,
                mandatory,
                immediate,
                props,
                len,
                via_exchange,
                other_before,
            },
        );
    use crate::wire::WStep;
    let wstep = prop_oneof![
        4 => prop::sample::select(vec![1usize, 2, 3, 7, 8, 9]).prop_map(WStep::Accept),
        4 => (1usize..30_000).prop_map(WStep::Accept),
        2 => Just(WStep::BlockRearm),
        1 => Just(WStep::BlockHold),
    ];
    // half of the cases run on an unrestricted transport, the others under a cycled write script
    // that is long enough to be still active when the connection is closed
    let script = prop_oneof![1 => Just((Vec::new(), 0u16)), 1 => (vec(wstep, 1..40), prop::sample::select(vec![1u16, 10, 200, 2000]))];
    (fm(), fm(), 1u8..=3, vec(p, 1..=6), any::<u64>(), script, prop::bool::weighted(0.01))
        .prop_map(|(client_frame_max, server_frame_max, channels, pubs, salt, (wscript, wcycles), hb_stall)| Case {
            client_frame_max,
            server_frame_max,
            channels,
            pubs,
            salt,
            wscript,
            wcycles,
            hb_stall,
        })
        .boxed()
}

pub fn exec(c: &Case) -> Outcome {
    let hb = if c.hb_stall { 1 } else { 0 };
    let ccfg = ClientCfg {
        frame_max: c.client_frame_max,
        heartbeat: hb,
        ..Default::default()
    };
    let scfg = ServerCfg {
        frame_max: c.server_frame_max,
        heartbeat: hb,
        ..Default::default()
    };
    let fmax = negotiated(c.client_frame_max, c.server_frame_max);
    let p = if fmax == u32::MAX {
        usize::MAX - 8
    } else {
        fmax as usize - 8
    };
    let mut wscript = Vec::new();
    if !c.hb_stall {
        for _ in 0..c.wcycles.max(1) {
            wscript.extend(c.wscript.iter().copied());
        }
    }
    let mut sess = open_session(&ccfg, scfg, wscript, AutoBroker::new(c.salt));
    let mut conn = match sess.conn.take() {
        Some(c) => c,
        None => {
            let _ = sess.broker.stop();
            return Outcome {
                inconclusive: Some(format!("open failed: {:?} hung={}", sess.open_error, sess.open_hung)),
                ..Default::default()
            };
        }
    };
    let nch = c.channels.max(1) as usize;
    let case = c.clone();
    let wire_for_stall = sess.wire.clone();
    // one thread owns the connection and all channels: publishes are issued in case order
    let res = timed(CALL_TIMEOUT * 2, "avh-c02", move || -> Result<(Vec<(u16, PublishExpect, bool, String)>, amiquip::Connection), String> {
        let mut chans = Vec::new();
        for _ in 0..nch {
            chans.push(conn.open_channel(None).map_err(|e| format!("open_channel: {:?}", e))?);
        }
        let mut log = Vec::new();
        if case.hb_stall {
            // a few bytes of budget: the first publish is cut by a short write, the rest queues up
            wire_for_stall.set_budget(Some(5 + (case.salt % 60) as usize));
        }
        for (i, pb) in case.pubs.iter().enumerate() {
            let ch = &chans[pb.ch as usize % nch];
            let len = resolve_len(&pb.len, p);
            let body = body_bytes(len, case.salt.wrapping_add(i as u64));
            let props = pb.props.to_amqp();
            let mut other = String::new();
            if pb.other_before {
                other = format!("other-{}", i);
                ch.queue_purge_nowait(other.clone()).map_err(|e| format!("purge_nowait: {:?}", e))?;
            }
            let publish = Publish {
                body: &body,
                routing_key: pb.routing_key.clone(),
                mandatory: pb.mandatory,
                immediate: pb.immediate,
                properties: props.clone(),
            };
            let mut declared = false;
            if pb.via_exchange {
                if pb.exchange.is_empty() {
                    Exchange::direct(ch).publish(publish).map_err(|e| format!("publish: {:?}", e))?;
                } else {
                    let ex = ch
                        .exchange_declare_nowait(ExchangeType::Topic, pb.exchange.clone(), ExchangeDeclareOptions::default())
                        .map_err(|e| format!("exchange_declare_nowait: {:?}", e))?;
                    declared = true;
                    ex.publish(publish).map_err(|e| format!("publish: {:?}", e))?;
                }
            } else {
                ch.basic_publish(pb.exchange.clone(), publish).map_err(|e| format!("publish: {:?}", e))?;
            }
            log.push((
                ch.channel_id(),
                PublishExpect {
                    exchange: pb.exchange.clone(),
                    routing_key: pb.routing_key.clone(),
                    mandatory: pb.mandatory,
                    immediate: pb.immediate,
                    props,
                    body,
                },
                declared,
                other,
            ));
        }
        if case.hb_stall {
            // the client's heartbeat timer (1 s) fires during the stall; the server keeps the
            // client's receive timer quiet with heartbeats of its own
            for _ in 0..3 {
                wire_for_stall.push(crate::codec::encode(&AMQPFrame::Heartbeat(0)));
                std::thread::sleep(std::time::Duration::from_millis(450));
            }
            wire_for_stall.set_budget(None);
            wire_for_stall.grant(0);
        }
        // dropping the channels closes them (one Channel.Close each, answered by the broker)
        drop(chans);
        Ok((log, conn))
    });
    let (log, conn) = match res {
        Some(Ok(x)) => x,
        Some(Err(e)) => {
            let _ = sess.broker.stop();
            return Outcome::fail("publish-call-failed", e);
        }
        None => {
            sess.wire.push_eof();
            let _ = sess.broker.stop();
            return Outcome::hang("publish-hang", "publishing thread did not finish");
        }
    };
    let close = timed_close(conn);
    let io_thread = sess.wire.io_thread();
    let (_b, _io) = sess.broker.stop();
    if !c.wscript.is_empty() {
        // under a fragmenting transport, whatever else happened: header + whole frames only
        if let Err((s, m)) = check_stream_wellformed(&sess.wire.out_snapshot()) {
            return Outcome::fail(s, m);
        }
    }
    match close {
        Some(Ok(())) => {}
        Some(Err(e)) => return Outcome::fail("close-failed", format!("{:?}", e)),
        None => return Outcome::hang("close-hang", "Connection::close did not return"),
    }
    if let Some(t) = io_thread {
        let p = take_panics(t);
        if !p.is_empty() {
            return Outcome::fail("io-thread-panic", format!("{:?}", p));
        }
    }
    let out = sess.wire.out_snapshot();
    let d = match check_stream_wellformed(&out) {
        Ok(d) => d,
        Err((s, m)) => return Outcome::fail(s, m),
    };
    let chans = per_channel(&d);
    let mut nontrivial = false;
    let mut labels = Vec::new();
    // walk each channel's frames
    let mut pos: std::collections::BTreeMap<u16, usize> = Default::default();
    for (ch, exp, declared, other) in &log {
        let frames = match chans.get(ch) {
            Some(f) => f,
            None => return Outcome::fail("channel-frames-missing", format!("no frames on channel {}", ch)),
        };
        let ps = pos.entry(*ch).or_insert(0);
        // first frame of a channel is Channel.Open
        if *ps == 0 {
            *ps = 1;
        }
        if !other.is_empty() {
            match frames.get(*ps) {
                Some((_, AMQPFrame::Method(_, AMQPClass::Queue(amq_protocol::protocol::queue::AMQPMethod::Purge(pg)))))
                    if pg.queue == *other && pg.nowait => {}
                o => {
                    return Outcome::fail(
                        "publish-frames-not-contiguous",
                        format!("expected Queue.Purge({}) before publish, got {:?}", other, o.map(|(_, f)| crate::oracle::brief(f))),
                    )
                }
            }
            *ps += 1;
        }
        if *declared {
            match frames.get(*ps) {
                Some((_, AMQPFrame::Method(_, AMQPClass::Exchange(Exch::Declare(dcl))))) if dcl.exchange == exp.exchange && dcl.nowait => {}
                o => {
                    return Outcome::fail(
                        "publish-frames-not-contiguous",
                        format!("expected Exchange.Declare before publish, got {:?}", o.map(|(_, f)| crate::oracle::brief(f))),
                    )
                }
            }
            *ps += 1;
        }
        if let Err((s, m)) = check_publish_at(frames, ps, exp, if fmax == u32::MAX { 0 } else { fmax }) {
            return Outcome::fail(s, format!("channel {} publish rk={:?} len={}: {}", ch, exp.routing_key, exp.body.len(), m));
        }
        let len = exp.body.len();
        if p != usize::MAX - 8 {
            if len > p {
                nontrivial = true;
                labels.push("multi-frame-body".to_string());
            }
            if len > 0 && (len % p == 0 || len % p == 1 || len % p == p - 1) && len + 1 >= p {
                nontrivial = true;
                labels.push("boundary-length".to_string());
            }
        }
        if len == 0 {
            nontrivial = true;
            labels.push("empty-body".to_string());
        }
    }
    // every channel: nothing but what we issued (Open + logged frames)
    for (ch, frames) in &chans {
        if *ch == 0 {
            continue;
        }
        let mut used = pos.get(ch).copied().unwrap_or(1);
        if let Some((_, AMQPFrame::Method(_, AMQPClass::Channel(amq_protocol::protocol::channel::AMQPMethod::Close(_))))) = frames.get(used) {
            used += 1;
        }
        if frames.len() != used {
            return Outcome::fail(
                "unexpected-extra-frames",
                format!("channel {} carries {} frames, {} accounted for; next: {:?}", ch, frames.len(), used, frames.get(used).map(|(_, f)| crate::oracle::brief(f))),
            );
        }
    }
    if c.hb_stall {
        labels.push("heartbeat-timer-fires-on-a-mid-frame-backlog".to_string());
    }
    if !c.wscript.is_empty() {
        labels.push("fragmenting-transport".to_string());
        if sess.wire.wscript_left() > 0 {
            labels.push("write-script-active-through-close".to_string());
        }
    }
    labels.sort();
    labels.dedup();
    let mut o = Outcome::pass(nontrivial);
    o.labels = labels;
    o
}

// ---------------------------------------------------------------------------------------------
// part `server-events`: publishes while the server makes the I/O thread write on the same channel

/// What the server sends when it sees frame number `at` of the publishing channel's content
/// stream (0 = the first Basic.Publish method frame, counting every method/header/body frame of
/// every publish).
#[derive(Clone, Debug, Serialize, Deserialize, PartialEq)]
pub struct Trigger {
    pub at: u16,
    /// which consumer (index into the consumers of the channel, modulo)
    pub consumer: u8,
    pub nowait: bool,
}

#[derive(Clone, Debug, Serialize, Deserialize, PartialEq)]
pub struct SCase {
    pub frame_max: u32,
    pub mem_bound: u8,
    pub consumers: u8,
    /// body frames per publish (>= 1), plus a byte offset
    pub pubs: Vec<(u8, i8)>,
    pub triggers: Vec<Trigger>,
    pub salt: u64,
}

struct TrigBroker {
    inner: AutoBroker,
    ch: u16,
    tags: Vec<String>,
    seen_content: u32,
    triggers: Vec<Trigger>,
    cancelled: Vec<(String, bool)>,
}

impl crate::broker::Responder for TrigBroker {
    fn on_frame(&mut self, io: &mut crate::broker::BrokerIo, frame: &AMQPFrame) {
        use amq_protocol::protocol::basic::AMQPMethod as Basic;
        let before = io.sent.len();
        self.inner.on_frame(io, frame);
        for f in &io.sent[before..] {
            if let AMQPFrame::Method(_, AMQPClass::Basic(Basic::ConsumeOk(ok))) = f {
                self.tags.push(ok.consumer_tag.clone());
            }
        }
        let is_content = match frame {
            AMQPFrame::Method(c, AMQPClass::Basic(Basic::Publish(_))) => *c == self.ch,
            AMQPFrame::Header(c, _, _) | AMQPFrame::Body(c, _) => *c == self.ch,
            _ => false,
        };
        if !is_content {
            return;
        }
        let n = self.seen_content;
        self.seen_content += 1;
        let due: Vec<Trigger> = self.triggers.iter().filter(|t| t.at as u32 == n).cloned().collect();
        for t in due {
            if self.tags.is_empty() {
                continue;
            }
            let tag = self.tags[t.consumer as usize % self.tags.len()].clone();
            if self.cancelled.iter().any(|(g, _)| *g == tag) {
                continue; // a compliant server cancels a consumer once
            }
            self.cancelled.push((tag.clone(), t.nowait));
            io.send_method(
                self.ch,
                AMQPClass::Basic(Basic::Cancel(amq_protocol::protocol::basic::Cancel { consumer_tag: tag, nowait: t.nowait })),
            );
        }
    }
    fn on_tick(&mut self, io: &mut crate::broker::BrokerIo) {
        self.inner.on_tick(io)
    }
}

pub fn exec_server_events(c: &SCase) -> Outcome {
    use amq_protocol::protocol::basic::AMQPMethod as Basic;
    let ccfg = ClientCfg {
        frame_max: c.frame_max,
        mem_channel_bound: c.mem_bound.max(1) as usize,
        ..Default::default()
    };
    let scfg = ServerCfg {
        frame_max: c.frame_max,
        ..Default::default()
    };
    let p = c.frame_max as usize - 8;
    let broker = TrigBroker {
        inner: AutoBroker::new(c.salt),
        ch: 1,
        tags: Vec::new(),
        seen_content: 0,
        triggers: c.triggers.clone(),
        cancelled: Vec::new(),
    };
    let mut sess = open_session(&ccfg, scfg, vec![], broker);
    let mut conn = match sess.conn.take() {
        Some(c) => c,
        None => {
            let _ = sess.broker.stop();
            return Outcome {
                inconclusive: Some(format!("open failed: {:?}", sess.open_error)),
                ..Default::default()
            };
        }
    };
    let case = c.clone();
    let res = timed(CALL_TIMEOUT * 3, "avh-c02-se", move || -> Result<(Vec<PublishExpect>, Vec<Vec<String>>, amiquip::Connection), String> {
        let ch = conn.open_channel(Some(1)).map_err(|e| format!("open_channel: {:?}", e))?;
        let mut consumers = Vec::new();
        for i in 0..case.consumers.max(1) {
            consumers.push(
                ch.basic_consume(format!("q{}", i), amiquip::ConsumerOptions::default())
                    .map_err(|e| format!("consume: {:?}", e))?,
            );
        }
        let mut log = Vec::new();
        for (i, (k, d)) in case.pubs.iter().enumerate() {
            let len = ((*k as usize).max(1) * p) as i64 + *d as i64;
            let body = body_bytes(len.max(1) as usize, case.salt.wrapping_add(i as u64));
            ch.basic_publish("x", Publish::new(&body, format!("rk{}", i))).map_err(|e| format!("publish {}: {:?}", i, e))?;
            log.push(PublishExpect {
                exchange: "x".into(),
                routing_key: format!("rk{}", i),
                mandatory: false,
                immediate: false,
                props: Default::default(),
                body,
            });
        }
        // a synchronous call orders us behind everything the server sent so far
        ch.qos(0, 0, false).map_err(|e| format!("barrier: {:?}", e))?;
        let mut terminal = Vec::new();
        for cons in &consumers {
            let mut msgs = Vec::new();
            while let Ok(m) = cons.receiver().try_recv() {
                msgs.push(format!("{:?}", m).chars().take(40).collect::<String>());
            }
            terminal.push(msgs);
        }
        drop(consumers);
        ch.close().map_err(|e| format!("channel close: {:?}", e))?;
        Ok((log, terminal, conn))
    });
    let (log, terminal, conn) = match res {
        Some(Ok(x)) => x,
        Some(Err(e)) => {
            let _ = sess.broker.stop();
            return Outcome::fail("call-failed-under-server-events", e);
        }
        None => {
            sess.wire.push_eof();
            let _ = sess.broker.stop();
            return Outcome::hang("publish-hang", "publishing thread did not finish");
        }
    };
    let close = timed_close(conn);
    let io_thread = sess.wire.io_thread();
    let (b, _io) = sess.broker.stop();
    match close {
        Some(Ok(())) => {}
        Some(Err(e)) => return Outcome::fail("close-failed", format!("{:?}", e)),
        None => return Outcome::hang("close-hang", "Connection::close did not return"),
    }
    if let Some(t) = io_thread {
        let p = take_panics(t);
        if !p.is_empty() {
            return Outcome::fail("io-thread-panic", format!("{:?}", p));
        }
    }
    let out = sess.wire.out_snapshot();
    let d = match check_stream_wellformed(&out) {
        Ok(d) => d,
        Err((s, m)) => return Outcome::fail(s, m),
    };
    let chans = per_channel(&d);
    let frames = match chans.get(&1) {
        Some(f) => f,
        None => return Outcome::fail("channel-frames-missing", "no frames on channel 1".to_string()),
    };
    let is_cancel_ok = |f: &AMQPFrame| matches!(f, AMQPFrame::Method(_, AMQPClass::Basic(Basic::CancelOk(_))));
    // locate the first Basic.Publish
    let mut pos = match frames.iter().position(|(_, f)| matches!(f, AMQPFrame::Method(_, AMQPClass::Basic(Basic::Publish(_))))) {
        Some(i) => i,
        None => return Outcome::fail("publish-missing", "no Basic.Publish on channel 1".to_string()),
    };
    let first_publish = pos;
    let mut cancel_oks_between = 0usize;
    for (i, exp) in log.iter().enumerate() {
        // frames the I/O thread writes on its own (CancelOk) may stand between publishes ...
        while frames.get(pos).map_or(false, |(_, f)| is_cancel_ok(f)) {
            pos += 1;
            if i > 0 {
                cancel_oks_between += 1;
            }
        }
        // ... but never inside one
        let start = pos;
        if let Err((sig, m)) = check_publish_at(frames, &mut pos, exp, c.frame_max) {
            let window: Vec<String> = frames[start..(start + 6).min(frames.len())].iter().map(|(_, f)| crate::oracle::brief(f)).collect();
            let foreign = frames[start..].iter().take(exp.body.len() / p + 3).any(|(_, f)| is_cancel_ok(f));
            let sig = if foreign { "publish-frames-not-contiguous".to_string() } else { sig };
            return Outcome::fail(sig, format!("publish {} ({} bytes, {} body frames): {}\nchannel 1 from the publish on: {:?}\ntriggers {:?}", i, exp.body.len(), (exp.body.len() + p - 1) / p, m, window, c.triggers));
        }
    }
    let _ = first_publish;
    // every cancel with reply is answered exactly once, every consumer that was cancelled got ServerCancelled
    let want_ok: Vec<&String> = b.cancelled.iter().filter(|(_, nw)| !*nw).map(|(t, _)| t).collect();
    let got_ok: Vec<String> = frames
        .iter()
        .filter_map(|(_, f)| match f {
            AMQPFrame::Method(_, AMQPClass::Basic(Basic::CancelOk(ok))) => Some(ok.consumer_tag.clone()),
            _ => None,
        })
        .collect();
    let mut a: Vec<String> = want_ok.iter().map(|s| s.to_string()).collect();
    let mut g = got_ok.clone();
    a.sort();
    g.sort();
    if a != g {
        return Outcome::fail("server-cancel-answers-differ", format!("CancelOk on the wire for {:?}, server cancelled (with reply) {:?}", got_ok, want_ok));
    }
    let n_term: usize = terminal.iter().filter(|m| m.iter().any(|s| s.starts_with("ServerCancelled"))).count();
    if n_term != b.cancelled.len() {
        return Outcome::fail("server-cancel-not-delivered", format!("{} consumers saw ServerCancelled, the server cancelled {}: {:?}", n_term, b.cancelled.len(), terminal));
    }
    let mut o = Outcome::pass(cancel_oks_between > 0 || (!got_ok.is_empty() && log.len() == 1));
    if cancel_oks_between > 0 {
        o.labels.push("cancel-ok-between-publishes".into());
    }
    if !got_ok.is_empty() {
        o.labels.push("cancel-ok-written".into());
    }
    if b.cancelled.iter().any(|(_, nw)| *nw) {
        o.labels.push("cancel-nowait".into());
    }
    o
}

fn sstrat(_t: Tier) -> BoxedStrategy<SCase> {
    let trig = (0u16..120, any::<u8>(), prop::bool::weighted(0.2)).prop_map(|(at, consumer, nowait)| Trigger { at, consumer, nowait });
    (
        prop::sample::select(vec![4096u32, 4097, 8192, 131072]),
        1u8..=4,
        1u8..=4,
        vec((1u8..=40, -1i8..=1), 1..=4),
        vec(trig, 1..=4),
        any::<u64>(),
    )
        .prop_map(|(frame_max, mem_bound, consumers, pubs, triggers, salt)| SCase {
            frame_max,
            mem_bound,
            consumers,
            pubs,
            triggers,
            salt,
        })
        .boxed()
}

pub fn parts() -> Vec<Box<dyn PartDyn>> {
    vec![Box::new(Part::<Case> {
        name: "e2e",
        rule: "sessions on the mock transport: (client,server) frame_max from {0,4096,4097,5000,8192,131072}^2, 1-3 channels, 1-6 publishes (Channel::basic_publish or Exchange::publish, arbitrary short-string exchange/routing key, all flag combinations, generated properties, body length from {0,1,small,k*p-1,k*p,k*p+1,uniform<=4p}), about one session in a hundred with a 1 s heartbeat and the transport stalled for 1.3 s inside the first publish's frame; oracle: decoded wire per channel = Publish{fields}, one header{class 60, weight 0, size, props}, non-empty body frames <= frame_max concatenating to the body, contiguous and in publish order; non-trivial = empty body, multi-frame body or boundary length; distinct by case hash",
        cases: |t| t.pick(4000, 60_000),
        threads: 16,
        strategy: strat,
        exec,
        enumerate: None,
        shrink_budget: 150,
        confirm_runs: 2,
            fuzz: None,
            watchdog_s: 60,
    }),
    Box::new(Part::<SCase> {
        name: "server-events",
        rule: "one channel with 1-4 consumers whose owner publishes 1-4 messages of 1-40 body frames (frame_max 4096/4097/8192/131072 - bodies of up to 5 MB -, mem_channel_bound 1-4, so the publisher hands its frames to the I/O thread one by one) while the server, on seeing a generated frame of that content stream (method, header or k-th body frame), cancels one of the consumers (Basic.Cancel, 20 % nowait) - which makes the I/O thread itself write Basic.CancelOk on the publishing channel; oracle: on the decoded wire every publish is Publish, header, bodies with nothing in between (a CancelOk may stand between two publishes, never inside one), every cancel with reply is answered exactly once, every cancelled consumer sees ServerCancelled, all calls and the close succeed; non-trivial = a CancelOk was written after the first publish had begun and before the last one ended (or anywhere, for a single publish); distinct by case hash",
        cases: |t| t.pick(1500, 30_000),
        threads: 16,
        strategy: sstrat,
        exec: exec_server_events,
        enumerate: None,
        shrink_budget: 100,
        confirm_runs: 2,
        fuzz: None,
        watchdog_s: 60,
    })]
}
