//! C12 — every API call emits exactly the AMQP method its arguments describe.

use crate::broker::{AutoBroker, ServerCfg};
use crate::codec::RawFrame;
use crate::ops::{results_match, coverage_key, exec_op, expected_frames, expected_result, op_strategy, ChanEnv, Op, OpResult, SettleRoute};
use crate::oracle::{bad, brief, check_stream_wellformed, per_channel, Verdict};
use crate::run::{take_panics, Outcome, Part, PartDyn, Tier};
use crate::session::{open_session, timed, ClientCfg, CALL_TIMEOUT};
use amq_protocol::frame::AMQPFrame;
use amq_protocol::protocol::channel::AMQPMethod as Chan;
use amq_protocol::protocol::AMQPClass;
use proptest::collection::vec;
use proptest::prelude::*;
use serde::{Deserialize, Serialize};

#[derive(Clone, Debug, Serialize, Deserialize, PartialEq)]
pub struct Case {
    pub ops: Vec<Op>,
    pub salt: u64,
    pub frame_max: u32,
    /// which channel id the operations run on: 0 = whatever open_channel(None) gives (1),
    /// 1 = 255, 2 = 256, 3 = 65534, 4 = 65535 (the server then offers channel_max 0 = no limit)
    #[serde(default)]
    pub channel_sel: u8,
}

/// Compare a channel's actual frames with the expected list. Body frames are compared by
/// concatenation (any packing is allowed as long as every frame is non-empty and within
/// `frame_max`).
pub fn match_frames(actual: &[(RawFrame, AMQPFrame)], expected: &[AMQPFrame], frame_max: u32) -> Verdict {
    let limit = if frame_max == 0 || frame_max == u32::MAX { usize::MAX } else { frame_max as usize };
    let mut i = 0usize; // actual
    let mut j = 0usize; // expected
    while j < expected.len() {
        if let AMQPFrame::Body(_, _) = &expected[j] {
            let mut want = Vec::new();
            while let Some(AMQPFrame::Body(_, b)) = expected.get(j) {
                want.extend_from_slice(b);
                j += 1;
            }
            let mut got = Vec::new();
            while let Some((raw, AMQPFrame::Body(_, b))) = actual.get(i) {
                if b.is_empty() {
                    return bad("empty-body-frame", "a body frame without payload was sent");
                }
                if raw.total_len() > limit {
                    return bad("body-frame-exceeds-frame-max", format!("{} > {}", raw.total_len(), limit));
                }
                got.extend_from_slice(b);
                i += 1;
            }
            if got != want {
                return bad("body-content-mismatch", format!("body bytes on the wire: {}, expected {}", got.len(), want.len()));
            }
            continue;
        }
        match actual.get(i) {
            None => {
                return bad(
                    format!("frame-missing:{}", method_name(&expected[j])),
                    format!("expected {} but the channel has no more frames", brief(&expected[j])),
                )
            }
            Some((_, a)) => {
                if a != &expected[j] {
                    return bad(
                        format!("frame-mismatch:{}", method_name(&expected[j])),
                        format!("wire     {}\nexpected {}", brief(a), brief(&expected[j])),
                    );
                }
            }
        }
        i += 1;
        j += 1;
    }
    if i < actual.len() {
        return bad(
            format!("unexpected-frame:{}", method_name(&actual[i].1)),
            format!("{} frames beyond the expected ones, first: {}", actual.len() - i, brief(&actual[i].1)),
        );
    }
    Ok(())
}

pub fn method_name(f: &AMQPFrame) -> String {
    match f {
        AMQPFrame::Method(_, c) => {
            let s = format!("{:?}", c);
            // "Queue(Bind(Bind {" -> "Queue.Bind"
            let mut parts = s.split('(');
            let a = parts.next().unwrap_or("");
            let b = parts.next().unwrap_or("");
            format!("{}.{}", a, b)
        }
        AMQPFrame::Header(..) => "content-header".into(),
        AMQPFrame::Body(..) => "content-body".into(),
        AMQPFrame::Heartbeat(_) => "heartbeat".into(),
        AMQPFrame::ProtocolHeader => "protocol-header".into(),
    }
}

pub fn exec(c: &Case) -> Outcome {
    let ccfg = ClientCfg {
        frame_max: c.frame_max,
        ..Default::default()
    };
    let explicit_id: Option<u16> = match c.channel_sel % 5 {
        0 => None,
        1 => Some(255),
        2 => Some(256),
        3 => Some(65534),
        _ => Some(65535),
    };
    let scfg = ServerCfg {
        channel_max: if explicit_id.is_some() { 0 } else { ServerCfg::default().channel_max },
        ..Default::default()
    };
    let mut sess = open_session(&ccfg, scfg, vec![], AutoBroker::new(c.salt));
    let mut conn = match sess.conn.take() {
        Some(c) => c,
        None => {
            let _ = sess.broker.stop();
            return Outcome {
                inconclusive: Some(format!("open failed: {:?}", sess.open_error)),
                ..Default::default()
            };
        }
    };
    let fmax = crate::checks::c02::negotiated(c.frame_max, 131072);
    let payload_max = fmax as usize - 8;
    let need_other = c.ops.iter().any(|o| {
        matches!(o, Op::Settle { cross_channel: true, .. })
            || matches!(
                o,
                Op::ExchangeBind { via: crate::ops::ExVia::OnDestinationArgOnOtherChannel, .. }
                    | Op::ExchangeBind { via: crate::ops::ExVia::OnSourceArgOnOtherChannel, .. }
                    | Op::ExchangeUnbind { via: crate::ops::ExVia::OnDestinationArgOnOtherChannel, .. }
                    | Op::ExchangeUnbind { via: crate::ops::ExVia::OnSourceArgOnOtherChannel, .. }
            )
    });
    let case = c.clone();
    let res = timed(CALL_TIMEOUT * 4, "avh-c12", move || {
        let chan = conn.open_channel(explicit_id).map_err(|e| format!("{:?}", e))?;
        let other = if need_other { Some(conn.open_channel(None).map_err(|e| format!("{:?}", e))?) } else { None };
        let ids = (chan.channel_id(), other.as_ref().map(|o| o.channel_id()));
        let mut results = Vec::new();
        {
            let env = ChanEnv {
                chan: &chan,
                other: other.as_ref(),
                salt: case.salt,
            };
            for (i, op) in case.ops.iter().enumerate() {
                results.push(exec_op(&env, op, i));
            }
        }
        // leave channels open: Connection::close must not need them closed
        let close = conn.close();
        drop(chan);
        drop(other);
        Ok::<_, String>((ids, results, close))
    });
    let io_thread = sess.wire.io_thread();
    let (_b, _io) = sess.broker.stop();
    let ((ch, och), results, close) = match res {
        Some(Ok(x)) => x,
        Some(Err(e)) => return Outcome::fail("session-setup-failed", e),
        None => {
            sess.wire.push_eof();
            return Outcome::hang("op-hang", format!("an operation did not return: {:?}", c.ops.iter().map(coverage_key).collect::<Vec<_>>()));
        }
    };
    if let Some(t) = io_thread {
        let p = take_panics(t);
        if !p.is_empty() {
            return Outcome::fail("io-thread-panic", format!("{:?}", p));
        }
    }
    if let Err(e) = close {
        return Outcome::fail("close-failed", format!("{:?}", e));
    }
    // results
    let mut seq: u32 = 1; // Channel.Open consumed seq 0
    let mut oseq: u32 = 1;
    let mut exp_ch: Vec<AMQPFrame> = Vec::new();
    let mut exp_other: Vec<AMQPFrame> = Vec::new();
    for (i, op) in c.ops.iter().enumerate() {
        let seq_before = seq;
        // the main request's seq: wrapper prologues are nowait and do not advance the counter,
        // but a Consume-route settle uses two requests; expected_result keys on the first
        let (v, w) = expected_frames(op, ch, c.salt, i, payload_max, &mut seq, och.map(|o| (o, &mut oseq)));
        exp_ch.extend(v);
        exp_other.extend(w);
        if let Some(want) = expected_result(op, ch, c.salt, seq_before) {
            if !results_match(&results[i], &want) {
                let sig = match (&results[i], op) {
                    (OpResult::Settled { panicked: false, .. }, Op::Settle { cross_channel: true, route, how, .. }) => {
                        format!("cross-channel-settle-did-not-panic:{:?}/{}", route, settle_name(how))
                    }
                    (OpResult::Settled { panicked: true, .. }, Op::Settle { cross_channel: false, .. }) => "same-channel-settle-panicked".to_string(),
                    (OpResult::Err(_), _) => format!("call-failed:{}", coverage_key(op).split('/').next().unwrap_or("")),
                    _ => format!("wrong-result:{}", coverage_key(op).split('/').next().unwrap_or("")),
                };
                return Outcome::fail(sig, format!("op #{} {:?}\n  returned {:?}\n  expected {:?}", i, op, results[i], want));
            }
        }
    }
    let out = sess.wire.out_snapshot();
    let d = match check_stream_wellformed(&out) {
        Ok(d) => d,
        Err((s, m)) => return Outcome::fail(s, m),
    };
    let chans = per_channel(&d);
    for (id, expected) in [(Some(ch), &exp_ch), (och, &exp_other)] {
        let id = match id {
            Some(i) => i,
            None => continue,
        };
        let frames = chans.get(&id).cloned().unwrap_or_default();
        // first frame: Channel.Open
        match frames.first() {
            Some((_, AMQPFrame::Method(_, AMQPClass::Channel(Chan::Open(o))))) if o.out_of_band.is_empty() => {}
            other => return Outcome::fail("channel-open-frame", format!("channel {} starts with {:?}", id, other.map(|(_, f)| brief(f)))),
        }
        if let Err((s, m)) = match_frames(&frames[1..], expected, fmax) {
            // a settle frame that appears although the call had to panic gets its own signature
            let sig = if s.starts_with("unexpected-frame:Basic.") && c.ops.iter().any(|o| matches!(o, Op::Settle { cross_channel: true, .. })) {
                format!("cross-channel-settle-sent-frame:{}", s.trim_start_matches("unexpected-frame:"))
            } else {
                s
            };
            return Outcome::fail(sig, format!("channel {}: {}\nops: {:?}", id, m, c.ops));
        }
    }
    // channel 0: handshake frames then exactly one Connection.Close
    let mut o = Outcome::pass(true);
    for op in &c.ops {
        o.labels.push(coverage_key(op));
    }
    o
}

fn settle_name(h: &crate::ops::SettleHow) -> &'static str {
    use crate::ops::SettleHow::*;
    match h {
        Ack => "ack",
        AckMultiple => "ack_multiple",
        Nack { .. } => "nack",
        NackMultiple { .. } => "nack_multiple",
        Reject { .. } => "reject",
    }
}

fn strat(_t: Tier) -> BoxedStrategy<Case> {
    (
        vec(op_strategy(9000, true, true), 1..14),
        any::<u64>(),
        prop_oneof![Just(0u32), Just(4096u32), Just(8192u32)],
        prop_oneof![8 => Just(0u8), 1 => 1u8..=4],
    )
        .prop_map(|(ops, salt, frame_max, channel_sel)| Case { ops, salt, frame_max, channel_sel })
        .boxed()
}

/// One case per settle route x method x {same, cross} channel: the finite part of the domain.
fn enumerate(_t: Tier) -> Vec<Case> {
    use crate::ops::SettleHow::*;
    let mut v = Vec::new();
    for route in [SettleRoute::Delivery, SettleRoute::Get, SettleRoute::Consumer] {
        for how in [Ack, AckMultiple, Nack { requeue: false }, Nack { requeue: true }, NackMultiple { requeue: false }, NackMultiple { requeue: true }, Reject { requeue: false }, Reject { requeue: true }] {
            for cross in [false, true] {
                v.push(Case {
                    ops: vec![Op::Settle {
                        queue: "full.q".into(),
                        how,
                        route,
                        cross_channel: cross,
                    }],
                    salt: 99,
                    frame_max: 0,
                    channel_sel: 0,
                });
            }
        }
    }
    v
}

pub fn parts() -> Vec<Box<dyn PartDyn>> {
    vec![Box::new(Part::<Case> {
        name: "e2e",
        rule: "programs of 1-13 ops drawn from every public entry point of Channel/Queue/Exchange/Consumer/Delivery/Get (all wrapper levels, all boolean options, arbitrary short strings, field tables, numerics; exchange-to-exchange bind/unbind through Channel and through either Exchange handle, the handle passed as argument obtained on the same or on another channel; settle ops through Delivery/Get/Consumer on the same and on a different channel, all 48 settle variants also enumerated) run on the mock transport against a deterministic broker, on channel 1 or (one program in nine) on channel 255, 256, 65534 or 65535; oracle: an independently written expectation table maps each op to the exact method frames (and the return value) it must produce, the decoded wire per channel must equal their concatenation, cross-channel settles must panic and send nothing; every executed case is non-trivial, the class table counts entry point x flag vector pairs; distinct by case hash",
        cases: |t| t.pick(3000, 60_000),
        threads: 16,
        strategy: strat,
        exec,
        enumerate: Some(enumerate),
        shrink_budget: 200,
        confirm_runs: 2,
            fuzz: None,
            watchdog_s: 60,
    })]
}
