//! C14 — ConfirmSmoother emits every tag once, in order, with its true outcome.

use crate::gen::pick;
use crate::run::{catch, Outcome, Part, PartDyn, Tier};
use amiquip::{Confirm, ConfirmPayload, ConfirmSmoother};
use proptest::collection::vec;
use proptest::prelude::*;
use serde::{Deserialize, Serialize};
use std::collections::BTreeSet;

#[derive(Clone, Copy, Debug, Serialize, Deserialize, PartialEq)]
pub struct Step {
    /// chooses which unconfirmed tag is confirmed
    pub pick: u16,
    pub multiple: bool,
    pub ack: bool,
    /// how many items of the returned iterator are consumed before it is dropped (>=200: all)
    pub take: u8,
}

#[derive(Clone, Debug, Serialize, Deserialize, PartialEq)]
pub struct CaseA {
    pub start: u64,
    pub n: usize,
    pub steps: Vec<Step>,
}

fn mk(tag: u64, multiple: bool, ack: bool) -> Confirm {
    let p = ConfirmPayload {
        delivery_tag: tag,
        multiple,
    };
    if ack {
        Confirm::Ack(p)
    } else {
        Confirm::Nack(p)
    }
}

/// Build the concrete history (tag offset, multiple, ack, take) from the case.
pub fn history(c: &CaseA) -> Vec<(u64, bool, bool, u8)> {
    let mut u: BTreeSet<u64> = (0..c.n as u64).collect();
    let mut h = Vec::new();
    let mut i = 0;
    while !u.is_empty() {
        let st = if i < c.steps.len() {
            c.steps[i]
        } else {
            // steps exhausted: finish in ascending order with single acks
            Step {
                pick: 0,
                multiple: false,
                ack: true,
                take: 255,
            }
        };
        i += 1;
        let v: Vec<u64> = u.iter().copied().collect();
        let t = v[pick(st.pick, v.len())];
        if st.multiple {
            u.retain(|x| *x > t);
        } else {
            u.remove(&t);
        }
        h.push((t, st.multiple, st.ack, st.take));
    }
    h
}

pub fn exec_a(c: &CaseA) -> Outcome {
    let hist = history(c);
    let n = c.n as u64;
    // reference model
    let mut outcome: Vec<Option<bool>> = vec![None; c.n];
    let mut next: u64 = 0; // next offset to emit
    // a smoother for the tags 1, 2, ... can be had three ways; all are documented to expect 1
    let mut sm = if c.start == 1 {
        match (c.n + c.steps.len()) % 3 {
            0 => ConfirmSmoother::new(),
            1 => ConfirmSmoother::default(),
            _ => ConfirmSmoother::with_expected_delivery_tag(1),
        }
    } else {
        ConfirmSmoother::with_expected_delivery_tag(c.start)
    };
    let mut nontrivial = false;
    let mut singles_pending: BTreeSet<u64> = BTreeSet::new();
    let mut labels: Vec<String> = Vec::new();
    if c.start == 1 && (c.n + c.steps.len()) % 3 == 1 {
        labels.push("smoother-from-default".into());
    }
    for (step_no, (t, multiple, ack, take)) in hist.iter().copied().enumerate() {
        // model: first confirmation covering a tag decides its outcome
        let mut covered_stored = false;
        if multiple {
            for x in 0..=t {
                if outcome[x as usize].is_none() {
                    outcome[x as usize] = Some(ack);
                } else if x >= next && singles_pending.contains(&x) {
                    covered_stored = true;
                }
            }
        } else if outcome[t as usize].is_none() {
            outcome[t as usize] = Some(ack);
            if t > next {
                singles_pending.insert(t);
            }
        }
        let mut expect: Vec<(u64, bool)> = Vec::new();
        while next < n && outcome[next as usize].is_some() {
            expect.push((next, outcome[next as usize].unwrap()));
            singles_pending.remove(&next);
            next += 1;
        }
        if covered_stored {
            nontrivial = true;
            labels.push("stored-single-covered-by-multiple".into());
        }
        let take_n = if take >= 200 { usize::MAX } else { take as usize };
        if take_n < expect.len() {
            nontrivial = true;
            labels.push("early-drop-with-pending".into());
        }
        if singles_pending.len() > 64 {
            labels.push("more-than-64-parked".into());
        }
        // implementation
        let got = catch(std::panic::AssertUnwindSafe(|| {
            let it = sm.process(mk(c.start + t, multiple, ack));
            let v: Vec<Confirm> = it.take(take_n).collect();
            v
        }));
        let got = match got {
            Ok(v) => v,
            Err(p) => {
                return Outcome::fail(
                    "smoother-panic",
                    format!("panic in process() at step {}: {} ({})", step_no, p.message, p.location),
                )
            }
        };
        let want: Vec<Confirm> = expect
            .iter()
            .take(take_n)
            .map(|(o, a)| mk(c.start + o, false, *a))
            .collect();
        if got != want {
            // classify
            let tags_ok = got.len() == want.len()
                && got.iter().zip(want.iter()).all(|(g, w)| payload(g) == payload(w));
            let sig = if tags_ok {
                if covered_stored {
                    "stored-confirm-overridden-by-later-multiple"
                } else {
                    "wrong-outcome"
                }
            } else if got.iter().any(|g| payload(g).multiple) {
                "multiple-flag-emitted"
            } else if got.len() < want.len() {
                "emission-missing-or-late"
            } else {
                "emission-extra-or-early"
            };
            return Outcome::fail(
                sig,
                format!(
                    "start={} history(offsets)={:?}\nstep {}: confirm(tag=start+{}, multiple={}, ack={}) take={}\n  got  {:?}\n  want {:?}",
                    c.start, hist, step_no, t, multiple, ack, take, got, want
                ),
            );
        }
    }
    if next != n {
        return Outcome::fail("harness-model-incomplete", "model did not emit all tags");
    }
    let mut o = Outcome::pass(nontrivial);
    labels.sort();
    labels.dedup();
    o.labels = labels;
    o
}

fn payload(c: &Confirm) -> ConfirmPayload {
    match c {
        Confirm::Ack(p) | Confirm::Nack(p) => *p,
    }
}

fn strat_a(_t: Tier) -> BoxedStrategy<CaseA> {
    let start = prop_oneof![
        3 => Just(1u64),
        1 => 1u64..1000,
        1 => 1u64..(u64::MAX - 1000),
        1 => Just(u64::MAX - 100),
    ];
    let step = (
        any::<u16>(),
        prop::bool::weighted(0.35),
        prop::bool::weighted(0.6),
        prop_oneof![4 => Just(255u8), 1 => 0u8..4],
    )
        .prop_map(|(pick, multiple, ack, take)| Step {
            pick,
            multiple,
            ack,
            take,
        });
    let small = (start.clone(), 1usize..40, vec(step.clone(), 0..50)).prop_map(|(start, n, steps)| CaseA { start, n, steps });
    // large backlogs: the lowest tag(s) stay outstanding while 65-400 later tags are confirmed
    // individually (parked out of order), then multiples / the missing tags arrive
    let parked = (4096u16..=65535, prop::bool::weighted(0.5), prop_oneof![6 => Just(255u8), 1 => 0u8..4]).prop_map(|(pick, ack, take)| Step {
        pick,
        multiple: false,
        ack,
        take,
    });
    let backlog = (start, 66usize..400, vec(parked, 65..380), vec(step, 0..30)).prop_map(|(start, n, mut steps, tail)| {
        steps.truncate(n - 1);
        steps.extend(tail);
        // every tag must be representable: start + n stays below 2^64
        let start = start.min(u64::MAX - 1000);
        CaseA { start, n, steps }
    });
    prop_oneof![12 => small, 1 => backlog].boxed()
}

/// All histories for n <= bound tags (each step: which unconfirmed tag, single/multiple, ack/nack),
/// each with three consumption patterns.
fn enumerate_a(t: Tier) -> Vec<CaseA> {
    let bound = t.pick(4, 5);
    let mut out = Vec::new();
    fn rec(n: usize, u: &BTreeSet<u64>, steps: &mut Vec<Step>, out: &mut Vec<CaseA>) {
        if u.is_empty() {
            for take in [255u8, 0, 1] {
                let mut s = steps.clone();
                for st in s.iter_mut() {
                    st.take = take;
                }
                out.push(CaseA {
                    start: 1,
                    n,
                    steps: s,
                });
            }
            return;
        }
        let v: Vec<u64> = u.iter().copied().collect();
        for (i, t) in v.iter().enumerate() {
            for multiple in [false, true] {
                // a multiple on the lowest unconfirmed tag equals a single: skip the duplicate
                if multiple && i == 0 {
                    continue;
                }
                for ack in [false, true] {
                    let mut u2 = u.clone();
                    if multiple {
                        u2.retain(|x| x > t);
                    } else {
                        u2.remove(t);
                    }
                    // pick value that maps to index i of len v.len()
                    let p = (((i as u32) << 16) / v.len() as u32 + 1).min(65535) as u16;
                    let p = if pick(p, v.len()) == i { p } else { p.saturating_add(1) };
                    debug_assert_eq!(pick(p, v.len()), i);
                    steps.push(Step {
                        pick: p,
                        multiple,
                        ack,
                        take: 255,
                    });
                    rec(n, &u2, steps, out);
                    steps.pop();
                }
            }
        }
    }
    for n in 1..=bound {
        let u: BTreeSet<u64> = (0..n as u64).collect();
        rec(n, &u, &mut Vec::new(), &mut out);
    }
    out
}

// ---------------------------------------------------------------------------------------------
// arbitrary (duplicate / stale) confirmations: safety half only

#[derive(Clone, Debug, Serialize, Deserialize, PartialEq)]
pub struct CaseB {
    pub start: u64,
    /// (tag offset relative to start-4, multiple, ack, take)
    pub confirms: Vec<(u8, bool, bool, u8)>,
}

pub fn exec_b(c: &CaseB) -> Outcome {
    let mut sm = ConfirmSmoother::with_expected_delivery_tag(c.start);
    let mut received: Vec<(u64, bool)> = Vec::new();
    let mut next = c.start;
    let mut dup = false;
    let mut emitted_any = false;
    for (i, (off, multiple, ack, take)) in c.confirms.iter().copied().enumerate() {
        let tag = (c.start - 4) + off as u64;
        if received.iter().any(|(t, _)| *t == tag) || tag < next {
            dup = true;
        }
        received.push((tag, multiple));
        let take_n = if take >= 200 { usize::MAX } else { take as usize };
        let got = catch(std::panic::AssertUnwindSafe(|| {
            sm.process(mk(tag, multiple, ack)).take(take_n).collect::<Vec<_>>()
        }));
        let got = match got {
            Ok(v) => v,
            Err(p) => {
                return Outcome::fail(
                    "smoother-panic",
                    format!("panic at confirm {}: {} ({})", i, p.message, p.location),
                )
            }
        };
        // the number of items the smoother would have produced is unknown when dropped early,
        // so after an early drop only consecutiveness relative to what we saw can be checked:
        // re-synchronise `next` conservatively.
        for g in &got {
            let p = payload(g);
            emitted_any = true;
            if p.multiple {
                return Outcome::fail("multiple-flag-emitted", format!("case {:?}: emitted {:?}", c, g));
            }
            if p.delivery_tag < next {
                return Outcome::fail(
                    "duplicate-or-backwards-tag",
                    format!("case {:?}: emitted {:?} although next expected >= {}", c, g, next),
                );
            }
            if take_n == usize::MAX || p.delivery_tag == next {
                if p.delivery_tag != next {
                    return Outcome::fail(
                        "non-consecutive-tag",
                        format!("case {:?}: emitted {:?}, expected tag {}", c, g, next),
                    );
                }
            }
            let covered = received
                .iter()
                .any(|(t, m)| *t == p.delivery_tag || (*m && *t >= p.delivery_tag));
            if !covered {
                return Outcome::fail(
                    "tag-nobody-confirmed",
                    format!("case {:?}: emitted {:?} not covered by {:?}", c, g, received),
                );
            }
            next = p.delivery_tag + 1;
        }
        if take_n != usize::MAX {
            // unknown number of items were skipped by the drop: we can no longer know `next`
            // exactly; bound it by the largest tag covered so far.
            let max_cov = received.iter().map(|(t, _)| *t).max().unwrap_or(0);
            // keep `next` as a lower bound only
            let _ = max_cov;
            // switch to lower-bound mode for the rest of the case
            return exec_b_tail(c, i + 1, sm, received, next);
        }
    }
    Outcome::pass(dup && emitted_any)
}

/// After an early drop only the lower-bound / coverage / no-duplicate checks remain sound.
fn exec_b_tail(
    c: &CaseB,
    from: usize,
    mut sm: ConfirmSmoother,
    mut received: Vec<(u64, bool)>,
    mut lower: u64,
) -> Outcome {
    for (off, multiple, ack, _take) in c.confirms.iter().copied().skip(from) {
        let tag = (c.start - 4) + off as u64;
        received.push((tag, multiple));
        let got = catch(std::panic::AssertUnwindSafe(|| {
            sm.process(mk(tag, multiple, ack)).collect::<Vec<_>>()
        }));
        let got = match got {
            Ok(v) => v,
            Err(p) => return Outcome::fail("smoother-panic", format!("{} ({})", p.message, p.location)),
        };
        let mut prev: Option<u64> = None;
        for g in &got {
            let p = payload(g);
            if p.multiple {
                return Outcome::fail("multiple-flag-emitted", format!("case {:?}: emitted {:?}", c, g));
            }
            if p.delivery_tag < lower {
                return Outcome::fail(
                    "duplicate-or-backwards-tag",
                    format!("case {:?}: emitted {:?} below {}", c, g, lower),
                );
            }
            if let Some(pv) = prev {
                if p.delivery_tag != pv + 1 {
                    return Outcome::fail(
                        "non-consecutive-tag",
                        format!("case {:?}: emitted {:?} after tag {}", c, g, pv),
                    );
                }
            }
            let covered = received
                .iter()
                .any(|(t, m)| *t == p.delivery_tag || (*m && *t >= p.delivery_tag));
            if !covered {
                return Outcome::fail(
                    "tag-nobody-confirmed",
                    format!("case {:?}: emitted {:?} not covered by {:?}", c, g, received),
                );
            }
            prev = Some(p.delivery_tag);
            lower = p.delivery_tag + 1;
        }
    }
    Outcome::pass(true).label("early-drop-then-more")
}

fn strat_b(_t: Tier) -> BoxedStrategy<CaseB> {
    let start = prop_oneof![3 => Just(5u64), 1 => 5u64..(u64::MAX - 1000)];
    let conf = (
        0u8..24,
        prop::bool::weighted(0.3),
        any::<bool>(),
        prop_oneof![6 => Just(255u8), 1 => 0u8..3],
    );
    (start, vec(conf, 1..40))
        .prop_map(|(start, confirms)| CaseB { start, confirms })
        .boxed()
}

fn fuzz_a(mut c: CaseA) -> CaseA {
    c.start = 1 + c.start % (u64::MAX - 1001);
    c.n = 1 + c.n % 39;
    c.steps.truncate(60);
    c
}

fn fuzz_b(mut c: CaseB) -> CaseB {
    c.start = 5 + c.start % (u64::MAX - 1005);
    c.confirms.truncate(40);
    for x in c.confirms.iter_mut() {
        x.0 %= 24;
    }
    c
}

pub fn parts() -> Vec<Box<dyn PartDyn>> {
    vec![
        Box::new(Part::<CaseA> {
            name: "complete",
            rule: "histories in which every tag start..start+n is confirmed exactly once (single or multiple, ack or nack, any arrival order, per-call early iterator drops), all enumerated for n<=4 (quick) / n<=5 (thorough) plus random n<40 and, one case in thirteen, backlog histories of 66-400 tags in which the lowest tags stay outstanding while 65-380 later ones are confirmed individually; oracle: reference model (first covering confirmation decides the outcome, emission as soon as the prefix is complete); non-trivial = an out-of-order single is later covered by a multiple, or an iterator is dropped with items pending; distinct by case hash",
            cases: |t| t.pick(500_000, 10_000_000),
            threads: 16,
            strategy: strat_a,
            exec: exec_a,
            enumerate: Some(enumerate_a),
            shrink_budget: 4000,
            confirm_runs: 1,
            fuzz: Some(fuzz_a),
            watchdog_s: 0,
        }),
        Box::new(Part::<CaseB> {
            name: "arbitrary",
            rule: "arbitrary confirmations in a window around the expected tag (duplicates and stale tags included); safety oracle only: non-multiple, strictly consecutive, never backwards, never a tag that nothing received so far covers; non-trivial = contains a duplicate/stale confirmation and emitted something",
            cases: |t| t.pick(300_000, 6_000_000),
            threads: 16,
            strategy: strat_b,
            exec: exec_b,
            enumerate: None,
            shrink_budget: 4000,
            confirm_runs: 1,
            fuzz: Some(fuzz_b),
            watchdog_s: 0,
        }),
    ]
}
