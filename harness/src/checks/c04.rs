//! C04 — a synchronous call returns the server's reply to that very call.
//! C09 — a server-initiated channel close affects that channel only.
//!
//! Both use the same machinery: one client thread per channel running a generated program of
//! ops, and a broker that holds replies in a pool and releases them in a generated cross-channel
//! order. C09 additionally closes one channel from the server side at a generated point.

use crate::broker::{content_frames, reply_bundle, BrokerIo, Responder, ServerCfg};
use crate::checks::c12::match_frames;
use crate::gen::pick;
use crate::ops::{results_match, coverage_key, exec_op, expected_frames, expected_result, op_strategy, ChanEnv, Op, OpResult};
use crate::oracle::{brief, check_stream_wellformed, per_channel};
use crate::run::{take_panics, Outcome, Part, PartDyn, Tier};
use crate::session::{open_session, timed_close, ClientCfg};
use amiquip::{Channel, Error};
use amq_protocol::frame::AMQPFrame;
use amq_protocol::protocol::basic::AMQPMethod as Basic;
use amq_protocol::protocol::channel::AMQPMethod as Chan;
use amq_protocol::protocol::{basic, channel, AMQPClass};
use proptest::collection::vec;
use proptest::prelude::*;
use serde::{Deserialize, Serialize};
use std::collections::HashMap;
use std::sync::mpsc;
use std::time::{Duration, Instant};

#[derive(Clone, Debug, Serialize, Deserialize, PartialEq)]
pub enum CloseState {
    Idle,
    /// close while a call of that channel is in flight (its reply is withheld)
    CallInFlight,
    /// send the beginning of a delivery (method, header, part of the body) before the close
    HalfContent,
}

#[derive(Clone, Debug, Serialize, Deserialize, PartialEq)]
pub struct CloseSpec {
    /// which channel (index) the server closes
    pub ch: u16,
    /// after how many requests-with-reply (over all channels) the close is sent
    pub after: u16,
    pub code: u16,
    pub text: String,
    pub state: CloseState,
    /// glue the Close to the next released replies in one read segment
    pub glue: bool,
}

#[derive(Clone, Debug, Serialize, Deserialize, PartialEq)]
pub struct Case {
    pub programs: Vec<Vec<Op>>,
    /// release policy: hold replies until this many are pending (or the broker is idle)
    pub hold: u8,
    pub release: Vec<u16>,
    pub glue: Vec<bool>,
    /// channels opened and closed on the connection thread while the programs run
    pub conn_opens: u8,
    pub salt: u64,
    pub close: Option<CloseSpec>,
    /// C01: transport write script (short writes / would-block), applied from the first byte
    #[serde(default)]
    pub wscript: Vec<crate::wire::WStep>,
    /// C01: client-side frame_max (server offers 131072) and in-memory channel bound
    #[serde(default)]
    pub frame_max: u32,
    #[serde(default)]
    pub mem_bound: u8,
    /// C01: thread assignment per channel (channels with the same number share a thread); empty =
    /// one thread per channel
    #[serde(default)]
    pub group: Vec<u8>,
    /// C01: which of a thread's channels issues the next op
    #[serde(default)]
    pub turn: Vec<u16>,
    /// C01: the write script is applied this many times in a row (0 = once)
    #[serde(default)]
    pub wcycles: u8,
    /// the connection is opened with connection_timeout 30 ms and the broker lets 80 ms pass
    /// before it releases withheld replies: the timeout is about establishing the connection,
    /// an established one may be silent for as long as it likes
    #[serde(default)]
    pub conn_timeout: bool,
}

pub struct Broker {
    salt: u64,
    seq: HashMap<u16, u32>,
    /// pending reply bundles: (channel, arrival number, frames)
    pool: Vec<(u16, usize, Vec<AMQPFrame>)>,
    arrivals: usize,
    hold: usize,
    release: Vec<u16>,
    rpos: usize,
    glue: Vec<bool>,
    gpos: usize,
    last_activity: Instant,
    /// how long the broker waits for further requests before it releases withheld replies
    idle_ms: u64,
    /// ids of the program channels (others, e.g. connection-thread channels, are answered at once)
    pub held_channels: Vec<u16>,
    pub close: Option<(u16, CloseSpec)>,
    pub close_sent: bool,
    /// measured: arrival numbers in release order
    pub released_order: Vec<usize>,
    pub max_pool: usize,
    pub closed_with_call_in_flight: bool,
    pub closed_while_other_in_flight: bool,
}

impl Broker {
    fn maybe_close(&mut self, io: &mut BrokerIo) -> Option<Vec<AMQPFrame>> {
        let (chid, spec) = match (&self.close, self.close_sent) {
            (Some(c), false) => c.clone(),
            _ => return None,
        };
        if self.arrivals < spec.after as usize {
            return None;
        }
        if spec.state == CloseState::CallInFlight && !self.pool.iter().any(|(c, _, _)| *c == chid) {
            // wait for a call of that channel to be in flight (give up when the broker idles)
            if self.last_activity.elapsed() < Duration::from_millis(30) {
                return None;
            }
        }
        self.close_sent = true;
        let mut frames = Vec::new();
        if spec.state == CloseState::HalfContent {
            let mut f = content_frames(
                chid,
                AMQPClass::Basic(Basic::Deliver(basic::Deliver {
                    consumer_tag: "half".into(),
                    delivery_tag: 1,
                    redelivered: false,
                    exchange: "x".into(),
                    routing_key: "k".into(),
                })),
                &amiquip::AmqpProperties::default(),
                &[7u8; 100],
                &[40, 60],
            );
            f.truncate(3); // method, header, first body frame
            frames.extend(f);
        }
        let before = self.pool.len();
        self.pool.retain(|(c, _, _)| *c != chid);
        if self.pool.len() != before {
            self.closed_with_call_in_flight = true;
        }
        if !self.pool.is_empty() {
            self.closed_while_other_in_flight = true;
        }
        frames.push(AMQPFrame::Method(
            chid,
            AMQPClass::Channel(Chan::Close(channel::Close {
                reply_code: spec.code,
                reply_text: spec.text.clone(),
                class_id: 0,
                method_id: 0,
            })),
        ));
        if spec.glue {
            Some(frames)
        } else {
            for f in frames {
                io.send(f);
            }
            None
        }
    }

    fn pump(&mut self, io: &mut BrokerIo, idle: bool) {
        let mut prefix = self.maybe_close(io).unwrap_or_default();
        if !prefix.is_empty() && self.pool.is_empty() {
            io.send_glued(std::mem::take(&mut prefix));
        }
        while !self.pool.is_empty() && (self.pool.len() >= self.hold || idle) {
            let h = if self.release.is_empty() { 0 } else { self.release[self.rpos % self.release.len()] };
            self.rpos += 1;
            let i = pick(h, self.pool.len());
            let (_, arrival, frames) = self.pool.remove(i);
            self.released_order.push(arrival);
            let glue = if self.glue.is_empty() { false } else { self.glue[self.gpos % self.glue.len()] };
            self.gpos += 1;
            let mut batch = std::mem::take(&mut prefix);
            batch.extend(frames);
            if glue && !self.pool.is_empty() {
                // glue the next one too
                let h2 = if self.release.is_empty() { 0 } else { self.release[self.rpos % self.release.len()] };
                self.rpos += 1;
                let j = pick(h2, self.pool.len());
                let (_, arrival2, frames2) = self.pool.remove(j);
                self.released_order.push(arrival2);
                batch.extend(frames2);
            }
            io.send_glued(batch);
        }
        if !prefix.is_empty() {
            io.send_glued(prefix);
        }
    }
}

impl Responder for Broker {
    fn on_frame(&mut self, io: &mut BrokerIo, frame: &AMQPFrame) {
        if let AMQPFrame::Method(ch, m) = frame {
            let seq = self.seq.entry(*ch).or_insert(0);
            if let Some(bundle) = reply_bundle(self.salt, *ch, *seq, m) {
                *seq += 1;
                if self.held_channels.contains(ch) {
                    self.arrivals += 1;
                    self.pool.push((*ch, self.arrivals, bundle));
                    self.max_pool = self.max_pool.max(self.pool.len());
                    self.last_activity = Instant::now();
                    self.pump(io, false);
                } else {
                    for f in bundle {
                        io.send(f);
                    }
                }
            }
        }
    }
    fn on_tick(&mut self, io: &mut BrokerIo) {
        if io.wire.is_held() {
            io.wire.grant(0);
        }
        // nothing new for a while: every channel that can make progress is waiting for us
        if self.last_activity.elapsed() > Duration::from_millis(self.idle_ms) {
            self.pump(io, true);
        }
    }
}

struct ChanReport {
    results: Vec<OpResult>,
}

pub fn exec(c: &Case) -> Outcome {
    let nch = c.programs.len().max(1);
    let mut c = c.clone();
    if c.programs.is_empty() {
        c.programs.push(vec![]);
    }
    let broker = Broker {
        salt: c.salt,
        seq: HashMap::new(),
        pool: Vec::new(),
        arrivals: 0,
        hold: (c.hold as usize).clamp(1, nch),
        release: c.release.clone(),
        rpos: 0,
        glue: c.glue.clone(),
        gpos: 0,
        last_activity: Instant::now(),
        idle_ms: if c.conn_timeout { 80 } else { 6 },
        held_channels: Vec::new(),
        close: None,
        close_sent: false,
        released_order: Vec::new(),
        max_pool: 0,
        closed_with_call_in_flight: false,
        closed_while_other_in_flight: false,
    };
    let ccfg = ClientCfg {
        frame_max: c.frame_max,
        mem_channel_bound: if c.mem_bound == 0 { 16 } else { c.mem_bound as usize },
        connection_timeout_ms: if c.conn_timeout { Some(30) } else { None },
        ..Default::default()
    };
    let fmax = crate::checks::c02::negotiated(c.frame_max, 131072);
    let mut wscript = Vec::new();
    for _ in 0..c.wcycles.max(1) {
        wscript.extend(c.wscript.iter().copied());
    }
    let mut sess = open_session(&ccfg, ServerCfg::default(), wscript, broker);
    let mut conn = match sess.conn.take() {
        Some(c) => c,
        None => {
            let hung = sess.open_hung;
            let written = sess.wire.out_len();
            let head = sess.wire.out_snapshot();
            sess.wire.push_eof();
            let _ = sess.broker.stop();
            // the first thing a connection writes is the protocol header, exactly
            if head.len() >= 8 && &head[..8] != b"AMQP\x00\x00\x09\x01" {
                return Outcome::fail("protocol-header-wrong", format!("the first eight bytes written are {:?}", &head[..8]));
            }
            if hung && !c.wscript.is_empty() {
                return Outcome::hang(
                    "handshake-bytes-never-written",
                    format!("insecure_open_stream did not return under write script {:?}...: {} bytes reached the transport", &c.wscript[..c.wscript.len().min(6)], written),
                );
            }
            return Outcome {
                inconclusive: Some(format!("open failed {:?}", sess.open_error)),
                ..Default::default()
            };
        }
    };
    let wire = sess.wire.clone();
    let mut chans = Vec::new();
    for _ in 0..nch {
        match conn.open_channel(None) {
            Ok(ch) => chans.push(ch),
            Err(e) => {
                let _ = sess.broker.stop();
                return Outcome::fail("open-channel-failed", format!("{:?}", e));
            }
        }
    }
    let chan_ids: Vec<u16> = chans.iter().map(|c| c.channel_id()).collect();
    let close_ch: Option<usize> = c.close.as_ref().map(|s| pick(s.ch, nch));
    {
        let ids = chan_ids.clone();
        let close = c.close.clone().map(|s| (chan_ids[pick(s.ch, nch)], s));
        sess.broker.call(move |b, _| {
            b.held_channels = ids;
            b.close = close;
            b.last_activity = Instant::now();
        });
    }
    let (tx, rx) = mpsc::channel::<(usize, ChanReport, Channel)>();
    // group channels into threads
    let mut groups: Vec<Vec<usize>> = Vec::new();
    {
        let mut by_key: Vec<(u8, Vec<usize>)> = Vec::new();
        for i in 0..nch {
            let key = if c.group.is_empty() { i as u8 } else { c.group[i % c.group.len()] };
            match by_key.iter_mut().find(|(k, _)| *k == key) {
                Some((_, v)) => v.push(i),
                None => by_key.push((key, vec![i])),
            }
        }
        for (_, v) in by_key {
            groups.push(v);
        }
    }
    let mut chan_slots: Vec<Option<Channel>> = chans.into_iter().map(Some).collect();
    for (gi, members) in groups.iter().enumerate() {
        let mut mine: Vec<(usize, Channel, Vec<Op>)> = members.iter().map(|&i| (i, chan_slots[i].take().unwrap(), c.programs[i].clone())).collect();
        let tx = tx.clone();
        let salt = c.salt;
        let turn = c.turn.clone();
        std::thread::Builder::new()
            .name(format!("avh-c04-{}", gi))
            .spawn(move || {
                let n = mine.len();
                let mut pos = vec![0usize; n];
                let mut results: Vec<Vec<OpResult>> = (0..n).map(|_| Vec::new()).collect();
                let mut t = 0usize;
                loop {
                    let live: Vec<usize> = (0..n).filter(|&j| pos[j] < mine[j].2.len()).collect();
                    if live.is_empty() {
                        break;
                    }
                    let h = if turn.is_empty() { 0 } else { turn[t % turn.len()] };
                    t += 1;
                    let j = live[pick(h, live.len())];
                    let env = ChanEnv { chan: &mine[j].1, other: None, salt };
                    let k = pos[j];
                    results[j].push(exec_op(&env, &mine[j].2[k], k));
                    pos[j] += 1;
                }
                for (j, (i, ch, _)) in mine.drain(..).enumerate() {
                    let _ = tx.send((i, ChanReport { results: std::mem::take(&mut results[j]) }, ch));
                }
            })
            .expect("spawn");
    }
    drop(tx);
    // the connection thread opens and closes channels meanwhile
    let mut conn_errors = Vec::new();
    for _ in 0..c.conn_opens {
        match conn.open_channel(None) {
            Ok(ch) => {
                if let Err(e) = ch.close() {
                    conn_errors.push(format!("close of extra channel: {:?}", e));
                }
            }
            Err(e) => conn_errors.push(format!("open_channel during the run: {:?}", e)),
        }
    }
    let mut reports: Vec<Option<ChanReport>> = (0..nch).map(|_| None).collect();
    let mut back: Vec<Option<Channel>> = (0..nch).map(|_| None).collect();
    for _ in 0..nch {
        match rx.recv_timeout(Duration::from_secs(14)) {
            Ok((i, r, ch)) => {
                reports[i] = Some(r);
                back[i] = Some(ch);
            }
            Err(_) => {
                wire.push_eof();
                let _ = sess.broker.stop();
                return Outcome::hang("call-hang", format!("a channel thread did not finish; finished: {:?}", reports.iter().map(|r| r.is_some()).collect::<Vec<_>>()));
            }
        }
    }
    // C09: the closed id becomes available again, the connection still opens channels
    let mut reopen: Option<Result<u16, String>> = None;
    let mut after_calls: Vec<String> = Vec::new();
    // the programs are over: a close that has not been sent by now is called off, so that it
    // cannot cross the client's own Connection.Close below (the client rightly ignores a
    // Channel.Close that arrives after it has begun to close the connection)
    let close_was_sent = sess
        .broker
        .call(|b, _| {
            if !b.close_sent {
                b.close = None;
            }
            b.close_sent
        })
        .unwrap_or(false);
    if let (Some(ci), Some(spec), true) = (close_ch, c.close.as_ref(), close_was_sent) {
        // later calls on the closed channel keep failing
        if let Some(ch) = back[ci].as_ref() {
            for _ in 0..2 {
                after_calls.push(match ch.qos(0, 1, false) {
                    Ok(()) => "Ok".to_string(),
                    Err(e) => format!("{:?}", e),
                });
            }
        }
        let _ = spec;
        // the channel object must go before its id can be reused by us
        back[ci] = None;
        reopen = Some(match conn.open_channel(Some(chan_ids[ci])) {
            Ok(ch) => {
                let id = ch.channel_id();
                let r = ch.qos(0, 2, false);
                crate::run::bury(ch);
                r.map(|_| id).map_err(|e| format!("call on the reopened channel failed: {:?}", e))
            }
            Err(e) => Err(format!("{:?}", e)),
        });
    }
    // leave the channels open; close the connection
    let close = timed_close(conn);
    drop(back);
    let io_thread = wire.io_thread();
    let (b, _io) = sess.broker.stop();
    if let Some(t) = io_thread {
        let p = take_panics(t);
        if !p.is_empty() {
            return Outcome::fail("io-thread-panic", format!("{:?}", p));
        }
    }
    if !c.wscript.is_empty() {
        // C01: whatever else happened, the outbound log must be header + whole frames
        if let Err((s, m)) = check_stream_wellformed(&wire.out_snapshot()) {
            return Outcome::fail(s, m);
        }
    }
    match close {
        Some(Ok(())) => {}
        Some(Err(Error::EventLoopClientDropped)) => {
            return Outcome::fail(
                "connection-killed-event-loop-client-dropped",
                "Connection::close: EventLoopClientDropped (the I/O thread gave up because a receiver it notified had been dropped)".to_string(),
            )
        }
        Some(Err(e)) => return Outcome::fail("connection-failed", format!("Connection::close: {:?}", e)),
        None => return Outcome::hang("close-hang", "Connection::close did not return"),
    }
    if let Some(e) = conn_errors.first() {
        return Outcome::fail("connection-thread-call-failed", e.clone());
    }
    let out = wire.out_snapshot();
    let d = match check_stream_wellformed(&out) {
        Ok(d) => d,
        Err((s, m)) => return Outcome::fail(s, m),
    };
    let chans_w = per_channel(&d);
    if std::env::var("AVH_DEBUG").is_ok() {
        for i in 0..nch {
            eprintln!("channel idx {} id {} results: {:?}", i, chan_ids[i], reports[i].as_ref().unwrap().results);
        }
    }
    // per channel: results and wire
    for i in 0..nch {
        let rep = reports[i].as_ref().unwrap();
        let chid = chan_ids[i];
        let closed_here = close_ch == Some(i) && b.close_sent;
        let mut seq: u32 = 1;
        let mut exp_frames: Vec<AMQPFrame> = Vec::new();
        let mut first_err: Option<usize> = None;
        // the ServerClosedChannel error is handed to exactly one call; a call made inside
        // Consumer::drop (implicit cancel) may be that call, and Drop discards its result
        let mut may_be_swallowed = false;
        for (k, op) in c.programs[i].iter().enumerate() {
            let seq_before = seq;
            let (v, _) = expected_frames(op, chid, c.salt, k, fmax as usize - 8, &mut seq, None);
            if matches!(op, Op::Consume { explicit_cancel: false, .. }) {
                may_be_swallowed = true;
            }
            if first_err.is_none() {
                exp_frames.extend(v);
                let want = match expected_result(op, chid, c.salt, seq_before) {
                    Some(w) => w,
                    None => continue,
                };
                if results_match(&rep.results[k], &want) {
                    continue;
                }
                if closed_here {
                    let spec = c.close.as_ref().unwrap();
                    let want_err = format!("{:?}", Error::ServerClosedChannel { channel_id: chid, code: spec.code, message: spec.text.clone() });
                    if let OpResult::Consumed { terminal, .. } = &rep.results[k] {
                        // the close was observed through the consumer's queue while this op ran;
                        // the op's own implicit cancel may have swallowed the error
                        if terminal.contains(&want_err) {
                            may_be_swallowed = true;
                            continue;
                        }
                    }
                    let err_text = match &rep.results[k] {
                        OpResult::Err(e) => Some(e.clone()),
                        OpResult::Settled { panicked: false, error: Some(e) } => Some(e.clone()),
                        _ => None,
                    };
                    if let Some(e) = &err_text {
                        if e.contains(&want_err) || (may_be_swallowed && e.contains("EventLoopDropped")) {
                            first_err = Some(k);
                            continue;
                        }
                        return Outcome::fail(
                            "closed-channel-wrong-error",
                            format!("channel {} op #{} {}: failed with {}, expected {}", chid, k, coverage_key(op), e, want_err),
                        );
                    }
                }
                let sig = match &rep.results[k] {
                    OpResult::Err(_) => format!("call-failed:{}", coverage_key(op).split('/').next().unwrap_or("")),
                    _ => format!("reply-misrouted-or-wrong-values:{}", coverage_key(op).split('/').next().unwrap_or("")),
                };
                return Outcome::fail(sig, format!("channel {} op #{} {:?}\n  returned {:?}\n  expected {:?}", chid, k, op, rep.results[k], want));
            } else {
                // after a call failed because of the close every later call on that channel fails
                let failed = match &rep.results[k] {
                    OpResult::Err(_) | OpResult::Settled { error: Some(_), .. } => true,
                    _ => false,
                };
                if !failed {
                    return Outcome::fail(
                        "call-succeeded-on-closed-channel",
                        format!("channel {} op #{} {:?} returned {:?} after an earlier call had failed because the server closed the channel", chid, k, op, rep.results[k]),
                    );
                }
            }
        }
        let frames = chans_w.get(&chid).cloned().unwrap_or_default();
        if frames.is_empty() {
            return Outcome::fail("channel-frames-missing", format!("channel {}", chid));
        }
        if !closed_here {
            if let Err((s, m)) = match_frames(&frames[1..], &exp_frames, fmax) {
                return Outcome::fail(s, format!("channel {}: {}", chid, m));
            }
        } else {
            // prefix of the expected frames, then exactly one CloseOk, then (reopened) Open + Qos
            let pos = frames.iter().position(|(_, f)| matches!(f, AMQPFrame::Method(_, AMQPClass::Channel(Chan::CloseOk(_)))));
            let pos = match pos {
                Some(p) => p,
                None => return Outcome::fail("close-ok-not-sent", format!("channel {}: no Channel.CloseOk on the wire", chid)),
            };
            let n_ok = frames.iter().filter(|(_, f)| matches!(f, AMQPFrame::Method(_, AMQPClass::Channel(Chan::CloseOk(_))))).count();
            if n_ok != 1 {
                return Outcome::fail("close-ok-sent-more-than-once", format!("channel {}: {} CloseOk frames", chid, n_ok));
            }
            let before = &frames[1..pos];
            // `before` must be a prefix of the expected frames (bodies compared loosely: count only)
            let upto = before.len().min(exp_frames.len());
            for (j, (_, f)) in before.iter().enumerate().take(upto) {
                let same = match (f, &exp_frames[j]) {
                    (AMQPFrame::Body(_, _), AMQPFrame::Body(_, _)) => true,
                    (a, b) => a == b,
                };
                if !same {
                    return Outcome::fail("closed-channel-wire-not-a-prefix", format!("channel {} frame {}: {} vs expected {}", chid, j, brief(f), brief(&exp_frames[j])));
                }
            }
            if before.len() > exp_frames.len() {
                return Outcome::fail("closed-channel-extra-frames", format!("channel {}: {} frames before CloseOk, program has {}", chid, before.len(), exp_frames.len()));
            }
            let after = &frames[pos + 1..];
            // after CloseOk only the reopened channel's Open and Qos may appear
            let ok_after = after.iter().all(|(_, f)| matches!(f, AMQPFrame::Method(_, AMQPClass::Channel(Chan::Open(_))) | AMQPFrame::Method(_, AMQPClass::Basic(Basic::Qos(_)))));
            if !ok_after {
                return Outcome::fail("frames-after-close-ok-on-closed-channel", format!("channel {}: {:?}", chid, after.iter().map(|(_, f)| brief(f)).collect::<Vec<_>>()));
            }
            if first_err.is_none() {
                // the program ended before the close became visible: the follow-up calls must fail
                let spec = c.close.as_ref().unwrap();
                let want_err = format!("{:?}", Error::ServerClosedChannel { channel_id: chid, code: spec.code, message: spec.text.clone() });
                let first = after_calls.first().cloned().unwrap_or_default();
                if first != want_err && !(may_be_swallowed && first.contains("EventLoopDropped")) {
                    return Outcome::fail("closed-channel-wrong-error", format!("channel {}: next call returned {:?}, expected {}", chid, after_calls.first(), want_err));
                }
            }
            if after_calls.iter().any(|s| s == "Ok") {
                return Outcome::fail("call-succeeded-on-closed-channel", format!("channel {}: follow-up calls {:?}", chid, after_calls));
            }
        }
    }
    if let Some(r) = &reopen {
        if b.close_sent {
            match r {
                Ok(id) if Some(*id) == close_ch.map(|i| chan_ids[i]) => {}
                other => return Outcome::fail("closed-channel-id-not-reusable", format!("open_channel(Some({})) after the server closed it: {:?}", chan_ids[close_ch.unwrap()], other)),
            }
        }
    }
    // C01: measure which write calls ended strictly inside a frame
    let mut split_writes = 0usize;
    let mut blocks = 0usize;
    {
        let st = wire.lock();
        let bounds: std::collections::HashSet<usize> = d.frames.iter().map(|(r, _)| r.end()).chain(std::iter::once(8)).collect();
        for (off, len, _) in &st.write_calls {
            if !bounds.contains(&(off + len)) {
                split_writes += 1;
            }
        }
        blocks = st.n_holds;
        let _ = &mut blocks;
    }
    let channels_that_wrote = chans_w.keys().filter(|k| **k != 0).count();
    if !c.wscript.is_empty() {
        let mut o = Outcome::pass(split_writes >= 1 && channels_that_wrote >= 2);
        if split_writes >= 1 {
            o.labels.push("write-ended-inside-frame".into());
        }
        if blocks >= 1 {
            o.labels.push("would-block-hold".into());
        }
        if channels_that_wrote >= 2 {
            o.labels.push("several-channels-wrote".into());
        }
        if groups.iter().any(|g| g.len() >= 2) {
            o.labels.push("two-channels-on-one-thread".into());
        }
        return o;
    }
    // non-triviality: replies released in an order different from arrival, with >= 2 in flight
    let reordered = b.released_order.windows(2).any(|w| w[0] > w[1]);
    let mut o;
    if c.close.is_some() {
        o = Outcome::pass(b.close_sent && (b.closed_with_call_in_flight || c.close.as_ref().map_or(false, |s| s.state == CloseState::HalfContent)) && b.closed_while_other_in_flight);
        if b.close_sent {
            o.labels.push(format!("closed-{:?}", c.close.as_ref().unwrap().state));
        } else {
            o.labels.push("close-point-not-reached".into());
        }
        if b.closed_with_call_in_flight {
            o.labels.push("call-in-flight-on-closed-channel".into());
        }
        if b.closed_while_other_in_flight {
            o.labels.push("other-channel-call-in-flight".into());
        }
    } else {
        o = Outcome::pass(b.max_pool >= 2 && reordered);
    }
    if reordered {
        o.labels.push("replies-reordered".into());
    }
    if b.max_pool >= 2 {
        o.labels.push("calls-in-flight-simultaneously".into());
    }
    o
}

fn base_strat(with_close: bool) -> BoxedStrategy<Case> {
    let prog = vec(op_strategy(3000, true, false), 3..20);
    let close = if with_close {
        (
            any::<u16>(),
            0u16..40,
            any::<u16>(),
            "[a-zA-Z _-]{0,24}",
            prop_oneof![1 => Just(CloseState::Idle), 2 => Just(CloseState::CallInFlight), 1 => Just(CloseState::HalfContent)],
            any::<bool>(),
        )
            .prop_map(|(ch, after, code, text, state, glue)| Some(CloseSpec { ch, after, code, text, state, glue }))
            .boxed()
    } else {
        Just(None).boxed()
    };
    (vec(prog, 2..=6), 1u8..=6, vec(any::<u16>(), 0..12), vec(any::<bool>(), 0..8), 0u8..3, any::<u64>(), close)
        .prop_map(move |(programs, hold, release, glue, conn_opens, salt, close)| Case {
            programs,
            hold,
            release,
            glue,
            conn_opens,
            salt,
            close,
            wscript: Vec::new(),
            frame_max: 0,
            mem_bound: 0,
            group: Vec::new(),
            turn: Vec::new(),
            wcycles: 0,
            // (base sessions only; one in twelve)
            conn_timeout: !with_close && salt % 12 == 0,
        })
        .boxed()
}

pub fn parts() -> Vec<Box<dyn PartDyn>> {
    vec![Box::new(Part::<Case> {
        name: "e2e",
        rule: "2-6 channels on as many threads, each running 3-19 ops drawn from every synchronous entry point and its nowait variant (plus publishes, gets and consumes with messages), the connection thread opening/closing extra channels meanwhile, one session in twelve on a connection opened with connection_timeout 30 ms against a broker that withholds replies for 80 ms; the broker answers with unique values per (channel, sequence), holds replies in a pool and releases them in a generated cross-channel order, optionally several per read segment; oracle: every call returns exactly the values of the reply generated for that channel and sequence number (expectation table shared with C12), nowait variants return without a reply, the wire per channel equals the expected frames; non-trivial = >= 2 calls in flight at once and replies released out of arrival order (measured in the broker); distinct by case hash",
        cases: |t| t.pick(2000, 40_000),
        threads: 12,
        strategy: |_t| base_strat(false),
        exec,
        enumerate: None,
        shrink_budget: 150,
        confirm_runs: 2,
            fuzz: None,
            watchdog_s: 60,
    })]
}

fn c01_strat() -> BoxedStrategy<Case> {
    use crate::wire::WStep;
    // one session in seven is a bulk session: only large publishes on 3-6 channels against a
    // transport that mostly stalls, so that a backlog of hundreds of kilobytes builds up
    let bulk_op = (crate::gen::props(), 6_000u32..=20_000, any::<bool>()).prop_map(|(props, body_len, via_exchange)| Op::Publish {
        exchange: "x".into(),
        routing_key: "bulk".into(),
        mandatory: false,
        immediate: false,
        props,
        body_len,
        via_exchange,
    });
    let programs = prop_oneof![
        6 => vec(vec(op_strategy(20_000, false, false), 1..25), 1..=6),
        1 => vec(vec(bulk_op, 12..25), 3..=6),
    ];
    let wstep = prop_oneof![
        6 => prop::sample::select(vec![1usize, 2, 3, 7, 8, 9]).prop_map(WStep::Accept),
        4 => (1usize..20_000).prop_map(WStep::Accept),
        2 => Just(WStep::BlockRearm),
        2 => Just(WStep::BlockHold),
    ];
    (
        programs,
        vec(0u8..4, 1..=6),
        vec(any::<u16>(), 0..12),
        vec(wstep, 0..200),
        prop::sample::select(vec![4096u32, 4097, 8192, 0]),
        1u8..=16,
        any::<u64>(),
        prop::sample::select(vec![1u8, 1, 2, 5, 20]),
    )
        .prop_map(|(programs, group, turn, mut wscript, frame_max, mem_bound, salt, wcycles)| {
            if wscript.is_empty() {
                wscript.push(WStep::Accept(7));
            }
            Case {
                programs,
                hold: 1,
                release: Vec::new(),
                glue: Vec::new(),
                conn_opens: 0,
                salt,
                close: None,
                wscript,
                frame_max,
                mem_bound,
                group,
                turn,
                wcycles,
                conn_timeout: false,
            }
        })
        .boxed()
}

pub fn parts_c01() -> Vec<Box<dyn PartDyn>> {
    vec![Box::new(Part::<Case> {
        name: "e2e",
        rule: "programs of 1-24 client ops (publishes with bodies up to 20 000 bytes and generated properties, every nowait method, synchronous calls, gets/consumes) on 1-6 channels spread over 1-4 client threads (up to two channels interleaved on one thread), client frame_max in {4096, 4097, 8192, unlimited}, mem_channel_bound 1-16, against a transport write script of up to 200 entries (short writes of 1/2/3/7/8/9 or up to 20 000 bytes, would-block with immediate re-arm, would-block held until granted) that applies from the first byte of the protocol header; oracle on the complete outbound log after close: 8-byte protocol header, then only whole well-formed frames with nothing trailing (independent envelope parser), and per channel exactly the concatenation of the frames each op must emit, in issue order (expectation table shared with C12) - which rules out loss, duplication, reordering and intra-frame interleaving; non-trivial = >= 2 channels wrote and >= 1 write call ended strictly inside a frame (measured from the write-size log); distinct by case hash",
        cases: |t| t.pick(4000, 60_000),
        threads: 12,
        strategy: |_t| c01_strat(),
        exec,
        enumerate: None,
        shrink_budget: 150,
        confirm_runs: 2,
            fuzz: None,
            watchdog_s: 60,
    }),
    // how a program ends belongs to the program: closes (by either side) that meet a backlog whose
    // head was cut by a short write. The sessions and their oracle are C08's; what this part adds
    // to C01 is that every such session runs with the stalled, trickling transport.
    Box::new(Part::<crate::checks::c08::Case> {
        name: "close-under-backlog",
        rule: "C08's sessions (0-4 channels with racing numbered publishes and calls, closed by the client or by the server with arbitrary code and text) with the transport always stalled at the moment of closing - a few bytes of budget left, so the pending output begins in the middle of a frame - and released in small grants; oracle (C08's, of which C01 needs): the outbound log is the protocol header plus whole frames only, the racing publishes of each channel appear as #0..#m without gaps, duplicates or reordering, and the close frame (Close or CloseOk) is the last frame; non-trivial as in C08; distinct by case hash",
        cases: |t| t.pick(600, 10_000),
        threads: 16,
        strategy: |t| {
            crate::checks::c08::strat(t)
                .prop_map(|mut c| {
                    c.stalled = true;
                    c
                })
                .boxed()
        },
        exec: crate::checks::c08::exec,
        enumerate: None,
        shrink_budget: 60,
        confirm_runs: 2,
        fuzz: None,
        watchdog_s: 60,
    })]
}

// ---------------------------------------------------------------------------------------------
// C09 part `crossing`: the request in flight on n when the server closes n is Channel::close itself

#[derive(Clone, Debug, Serialize, Deserialize, PartialEq)]
pub struct XCase {
    /// number of channels (2-4); channel index `target` is closed by its owner and by the server
    pub channels: u8,
    pub target: u8,
    /// synchronous calls each other channel makes while this happens
    pub calls: u8,
    /// synchronous calls the target makes before it closes
    pub before: u8,
    pub code: u16,
    pub text: String,
    /// how the server's Close and its CloseOk for the client's Close travel: 0 = one segment,
    /// 1 = two segments, 2 = CloseOk only after the client's CloseOk has arrived
    pub timing: u8,
    pub salt: u64,
}

/// Auto-replying broker that treats the client's Channel.Close on `target` as a collision: it
/// "had just sent" its own Close, so the client sees Channel.Close(target, code, text) and then
/// the CloseOk for its own Close (AMQP 0-9-1 close-collision rule; RabbitMQ does this).
struct CrossBroker {
    inner: crate::broker::AutoBroker,
    target: u16,
    code: u16,
    text: String,
    timing: u8,
    collided: bool,
    owe_close_ok: bool,
}

impl Responder for CrossBroker {
    fn on_frame(&mut self, io: &mut BrokerIo, frame: &AMQPFrame) {
        match frame {
            AMQPFrame::Method(ch, AMQPClass::Channel(Chan::Close(_))) if *ch == self.target && !self.collided => {
                self.collided = true;
                let close = AMQPFrame::Method(
                    *ch,
                    AMQPClass::Channel(Chan::Close(channel::Close {
                        reply_code: self.code,
                        reply_text: self.text.clone(),
                        class_id: 0,
                        method_id: 0,
                    })),
                );
                let ok = AMQPFrame::Method(*ch, AMQPClass::Channel(Chan::CloseOk(channel::CloseOk {})));
                match self.timing % 3 {
                    0 => io.send_glued(vec![close, ok]),
                    1 => {
                        io.send(close);
                        io.send(ok);
                    }
                    _ => {
                        io.send(close);
                        self.owe_close_ok = true;
                    }
                }
            }
            _ => {
                // the owed CloseOk goes out before anything else is answered (the client may
                // already be re-opening the id)
                self.pay_close_ok(io);
                self.inner.on_frame(io, frame)
            }
        }
    }
    fn on_tick(&mut self, io: &mut BrokerIo) {
        self.pay_close_ok(io);
        self.inner.on_tick(io)
    }
}

impl CrossBroker {
    fn pay_close_ok(&mut self, io: &mut BrokerIo) {
        // (the broker core swallows the client's CloseOk for a channel we are closing and clears
        // `closing_channels`; that is the moment the owed CloseOk goes out)
        if self.owe_close_ok && !io.closing_channels.contains(&self.target) {
            self.owe_close_ok = false;
            io.send(AMQPFrame::Method(self.target, AMQPClass::Channel(Chan::CloseOk(channel::CloseOk {}))));
        }
    }
}

pub fn exec_crossing(c: &XCase) -> Outcome {
    let nch = (c.channels as usize).clamp(2, 4);
    let target = c.target as usize % nch;
    let mut sess = open_session(
        &ClientCfg::default(),
        ServerCfg::default(),
        vec![],
        CrossBroker {
            inner: crate::broker::AutoBroker::new(c.salt),
            target: (target + 1) as u16,
            code: c.code,
            text: c.text.clone(),
            timing: c.timing,
            collided: false,
            owe_close_ok: false,
        },
    );
    let mut conn = match sess.conn.take() {
        Some(c) => c,
        None => {
            let _ = sess.broker.stop();
            return Outcome {
                inconclusive: Some(format!("open failed: {:?}", sess.open_error)),
                ..Default::default()
            };
        }
    };
    let wire = sess.wire.clone();
    let mut chans = Vec::new();
    for i in 0..nch {
        match conn.open_channel(Some((i + 1) as u16)) {
            Ok(ch) => chans.push(ch),
            Err(e) => {
                let _ = sess.broker.stop();
                return Outcome::fail("session-setup-failed", format!("{:?}", e));
            }
        }
    }
    let (tx, rx) = mpsc::channel::<(usize, Vec<String>, Option<String>)>();
    for (i, ch) in chans.into_iter().enumerate() {
        let tx = tx.clone();
        let (calls, before) = (c.calls % 12 + 1, c.before % 4);
        std::thread::spawn(move || {
            let mut results = Vec::new();
            if i == target {
                for k in 0..before {
                    results.push(format!("{:?}", ch.qos(0, k as u16, false)));
                }
                let r = ch.close();
                let _ = tx.send((i, results, Some(format!("{:?}", r))));
            } else {
                for k in 0..calls {
                    results.push(format!("{:?}", ch.qos(0, k as u16, false)));
                }
                // keep the channel open until the session is closed
                crate::run::bury(ch);
                let _ = tx.send((i, results, None));
            }
        });
    }
    let mut reports: Vec<Option<(Vec<String>, Option<String>)>> = vec![None; nch];
    let deadline = Instant::now() + Duration::from_secs(10);
    for _ in 0..nch {
        match rx.recv_timeout(deadline.saturating_duration_since(Instant::now())) {
            Ok((i, r, cl)) => reports[i] = Some((r, cl)),
            Err(_) => {
                wire.push_eof();
                let _ = sess.broker.stop();
                return Outcome::hang(
                    "caller-not-released-by-crossing-close",
                    format!("{:?}: threads finished: {:?}", c, reports.iter().map(|r| r.is_some()).collect::<Vec<_>>()),
                );
            }
        }
    }
    // A server that answers the crossing Close only after the client's CloseOk (timing 2) still
    // owes that answer; the client has already freed the id (it did so when it answered the
    // server's Close), and an id re-opened before the late CloseOk arrives would receive it.
    // What the client should do about that is outside C09: the id is re-opened once the server
    // has paid.
    let t0 = Instant::now();
    while sess.broker.call(|b, _| b.owe_close_ok).unwrap_or(false) && t0.elapsed() < Duration::from_secs(5) {
        std::thread::sleep(Duration::from_millis(1));
    }
    // the id is free again and the connection is fine
    let reopen = crate::session::timed(crate::session::CALL_TIMEOUT, "avh-c09-reopen", move || {
        let r = conn.open_channel(Some((target + 1) as u16)).and_then(|ch| {
            let r = ch.qos(0, 9, false);
            crate::run::bury(ch);
            r
        });
        (r, conn)
    });
    let (reopen, conn) = match reopen {
        Some(x) => x,
        None => {
            wire.push_eof();
            let _ = sess.broker.stop();
            return Outcome::hang("reopen-hang", format!("{:?}", c));
        }
    };
    let close = timed_close(conn);
    let io = wire.io_thread();
    let (b, _bio) = sess.broker.stop();
    if let Some(t) = io {
        let p = take_panics(t);
        if !p.is_empty() {
            return Outcome::fail("io-thread-panic", format!("{} at {}", p[0].message, p[0].location));
        }
    }
    if !b.collided {
        return Outcome::fail("client-close-never-sent", format!("{:?}", c));
    }
    let ctx = format!("{:?}", c);
    let want_err = format!("Err(ServerClosedChannel {{ channel_id: {}, code: {}, message: {:?} }})", target + 1, c.code, c.text);
    for (i, rep) in reports.iter().enumerate() {
        let (results, closed) = rep.as_ref().unwrap();
        if let Some(bad) = results.iter().find(|r| r.as_str() != "Ok(())") {
            let sig = if i == target { "call-before-close-failed" } else { "other-channel-affected-by-crossing-close" };
            return Outcome::fail(sig, format!("channel {}: {}\n{}", i + 1, bad, ctx));
        }
        if let Some(cl) = closed {
            // the server's Close is what the pending close() meets; Ok would also be a serial outcome
            if *cl != want_err && cl != "Ok(())" {
                return Outcome::fail("crossing-close-wrong-result", format!("Channel::close returned {}, expected {} (or Ok)\n{}", cl, want_err, ctx));
            }
        }
    }
    if let Err(e) = reopen {
        return Outcome::fail("closed-channel-id-not-reusable", format!("open_channel(Some({})) / call after the crossing close: {:?}\n{}", target + 1, e, ctx));
    }
    match close {
        Some(Ok(())) => {}
        Some(Err(e)) => return Outcome::fail("connection-failed", format!("Connection::close: {:?}\n{}", e, ctx)),
        None => return Outcome::hang("close-hang", ctx),
    }
    // wire of the target: Open, calls, Close, exactly one CloseOk, then the re-opened channel
    let d = crate::codec::decode_stream(&wire.out_snapshot());
    let on_target: Vec<String> = d
        .frames
        .iter()
        .filter(|(_, f)| crate::codec::frame_channel(f) == (target + 1) as u16)
        .map(|(_, f)| brief(f))
        .collect();
    let n_close = on_target.iter().filter(|s| s.contains("Channel(Close(")).count();
    let n_ok = on_target.iter().filter(|s| s.contains("Channel(CloseOk(")).count();
    if n_close != 1 || n_ok != 1 {
        return Outcome::fail("crossing-close-wire", format!("channel {} carries {} Close and {} CloseOk frames: {:?}\n{}", target + 1, n_close, n_ok, on_target, ctx));
    }
    Outcome::pass(true).label(match c.timing % 3 {
        0 => "close+close-ok-in-one-segment",
        1 => "close-then-close-ok",
        _ => "close-ok-after-client-close-ok",
    })
}

fn xstrat(_t: Tier) -> BoxedStrategy<XCase> {
    (2u8..=4, any::<u8>(), any::<u8>(), any::<u8>(), 200u16..600, "[a-zA-Z -]{0,20}", 0u8..3, any::<u64>())
        .prop_map(|(channels, target, calls, before, code, text, timing, salt)| XCase {
            channels,
            target,
            calls,
            before,
            code,
            text,
            timing,
            salt,
        })
        .boxed()
}

pub fn parts_c09() -> Vec<Box<dyn PartDyn>> {
    vec![Box::new(Part::<Case> {
        name: "e2e",
        rule: "the C04 sessions (2-6 channel threads, held and reordered replies) plus one server-initiated Channel.Close(n, code, text) sent after a generated number of requests while n is idle / has a call in flight (its reply withheld) / has half-received content, optionally glued to other channels' replies in one segment; oracle on n: results before the close equal the expectation, the first failing call carries ServerClosedChannel{n, code, text}, every later call fails, the wire of n is a prefix of its program followed by exactly one Channel.CloseOk; elsewhere the C04 oracle holds, open_channel(Some(n)) succeeds again and the session closes Ok; non-trivial = n had a call in flight or half-received content while another channel had a call in flight; distinct by case hash",
        cases: |t| t.pick(2000, 40_000),
        threads: 12,
        strategy: |_t| base_strat(true),
        exec,
        enumerate: None,
        shrink_budget: 150,
        confirm_runs: 2,
            fuzz: None,
            watchdog_s: 60,
    }),
    Box::new(Part::<XCase> {
        name: "crossing",
        rule: "2-4 channels on threads making synchronous calls while the owner of channel n calls Channel::close and the server, as if it had closed n at the same moment, answers with Channel.Close(n, code, text) followed by the CloseOk for the client's Close (one segment / two segments / CloseOk only after the client's CloseOk: the close-collision rule of AMQP 0-9-1, RabbitMQ's behaviour); oracle: close() on n returns ServerClosedChannel{n, code, text} (or Ok), every call on every other channel succeeds, n carries exactly one Close and one CloseOk from the client, open_channel(Some(n)) works again, Connection::close is Ok, nothing panics or hangs; every case is non-trivial (the collision happens by construction); distinct by case hash",
        cases: |t| t.pick(600, 12_000),
        threads: 12,
        strategy: xstrat,
        exec: exec_crossing,
        enumerate: None,
        shrink_budget: 60,
        confirm_runs: 2,
        fuzz: None,
        watchdog_s: 60,
    })]
}
