//! C15 — tuning is negotiated as documented and then obeyed.

use crate::broker::{AutoBroker, ServerCfg};
use crate::gen::body_bytes;
use crate::oracle::{check_stream_wellformed, per_channel};
use crate::run::{catch, take_panics, Outcome, Part, PartDyn, Tier};
use crate::session::{open_session, timed, timed_close, ClientCfg, CALL_TIMEOUT};
use amiquip::{Error, Publish};
use amq_protocol::frame::AMQPFrame;
use amq_protocol::protocol::connection::AMQPMethod as Conn;
use amq_protocol::protocol::connection::Tune;
use amq_protocol::protocol::AMQPClass;
use proptest::prelude::*;
use serde::{Deserialize, Serialize};

#[derive(Clone, Debug, Serialize, Deserialize, PartialEq)]
pub struct Case {
    pub c_channel_max: u16,
    pub c_frame_max: u32,
    pub c_heartbeat: u16,
    pub s_channel_max: u16,
    pub s_frame_max: u32,
    pub s_heartbeat: u16,
}

/// Independent specification of the negotiation.
pub fn spec(c: &Case) -> Result<(u16, u32, u16), (u32, u32)> {
    fn lim16(a: u16, b: u16) -> u16 {
        match (a, b) {
            (0, 0) => u16::MAX,
            (0, x) | (x, 0) => x,
            (x, y) => x.min(y),
        }
    }
    fn lim32(a: u32, b: u32) -> u32 {
        match (a, b) {
            (0, 0) => u32::MAX,
            (0, x) | (x, 0) => x,
            (x, y) => x.min(y),
        }
    }
    let ch = lim16(c.c_channel_max, c.s_channel_max);
    let fm = lim32(c.c_frame_max, c.s_frame_max);
    let hb = c.c_heartbeat.min(c.s_heartbeat);
    if fm < 4096 {
        Err((4096, fm))
    } else {
        Ok((ch, fm, hb))
    }
}

fn nontrivial(c: &Case) -> bool {
    let differ = c.c_channel_max != c.s_channel_max || c.c_frame_max != c.s_frame_max || c.c_heartbeat != c.s_heartbeat;
    let zero = [c.c_channel_max as u64, c.s_channel_max as u64, c.c_frame_max as u64, c.s_frame_max as u64, c.c_heartbeat as u64, c.s_heartbeat as u64]
        .iter()
        .any(|v| *v == 0);
    let boundary = match spec(c) {
        Ok((ch, fm, _)) => ch == 65535 || fm == 4096 || fm == u32::MAX,
        Err((_, fm)) => fm == 4095,
    };
    differ && (zero || boundary)
}

pub fn exec_probe(c: &Case) -> Outcome {
    let tune = Tune {
        channel_max: c.s_channel_max,
        frame_max: c.s_frame_max,
        heartbeat: c.s_heartbeat,
    };
    let got = catch(std::panic::AssertUnwindSafe(|| {
        amiquip::verif::tune_ok(c.c_channel_max, c.c_frame_max, c.c_heartbeat, tune)
    }));
    let got = match got {
        Ok(g) => g,
        Err(p) => return Outcome::fail("tune-panic", format!("{:?}: {} ({})", c, p.message, p.location)),
    };
    match (spec(c), got) {
        (Ok((ch, fm, hb)), Ok(t)) => {
            if t.channel_max != ch {
                return Outcome::fail("tune-ok-channel-max", format!("{:?}: TuneOk.channel_max={} expected {}", c, t.channel_max, ch));
            }
            if t.frame_max != fm {
                return Outcome::fail("tune-ok-frame-max", format!("{:?}: TuneOk.frame_max={} expected {}", c, t.frame_max, fm));
            }
            if t.heartbeat != hb {
                return Outcome::fail("tune-ok-heartbeat", format!("{:?}: TuneOk.heartbeat={} expected {}", c, t.heartbeat, hb));
            }
        }
        (Err((min, req)), Err(Error::FrameMaxTooSmall { min: m, requested })) => {
            if m != min || requested != req {
                return Outcome::fail("frame-max-too-small-fields", format!("{:?}: got min={} requested={}, expected min={} requested={}", c, m, requested, min, req));
            }
        }
        (Ok(want), Err(e)) => return Outcome::fail("tune-unexpected-error", format!("{:?}: {:?}, expected TuneOk{:?}", c, e, want)),
        (Err(_), Ok(t)) => return Outcome::fail("frame-max-floor-not-enforced", format!("{:?}: produced {:?}, expected FrameMaxTooSmall", c, t)),
        (Err(_), Err(e)) => return Outcome::fail("tune-wrong-error", format!("{:?}: {:?}, expected FrameMaxTooSmall", c, e)),
    }
    Outcome::pass(nontrivial(c))
}

const CH: [u16; 6] = [0, 1, 2, 255, 65534, 65535];
const FM: [u32; 8] = [0, 1, 4095, 4096, 4097, 131072, u32::MAX - 1, u32::MAX];
const HB: [u16; 5] = [0, 1, 2, 60, 65535];

fn enumerate_probe(_t: Tier) -> Vec<Case> {
    let mut v = Vec::with_capacity(57600);
    for &a in &CH {
        for &b in &CH {
            for &c in &FM {
                for &d in &FM {
                    for &e in &HB {
                        for &f in &HB {
                            v.push(Case {
                                c_channel_max: a,
                                s_channel_max: b,
                                c_frame_max: c,
                                s_frame_max: d,
                                c_heartbeat: e,
                                s_heartbeat: f,
                            });
                        }
                    }
                }
            }
        }
    }
    v
}

fn strat_probe(_t: Tier) -> BoxedStrategy<Case> {
    let ch = || prop_oneof![1 => Just(0u16), 3 => any::<u16>(), 1 => prop::sample::select(CH.to_vec())];
    let fm = || prop_oneof![1 => Just(0u32), 3 => any::<u32>(), 2 => 4000u32..4200, 1 => prop::sample::select(FM.to_vec())];
    let hb = || prop_oneof![1 => Just(0u16), 3 => any::<u16>(), 1 => prop::sample::select(HB.to_vec())];
    (ch(), fm(), hb(), ch(), fm(), hb())
        .prop_map(|(a, c, e, b, d, f)| Case {
            c_channel_max: a,
            c_frame_max: c,
            c_heartbeat: e,
            s_channel_max: b,
            s_frame_max: d,
            s_heartbeat: f,
        })
        .boxed()
}

// ---------------------------------------------------------------------------------------------
// end to end: the TuneOk on the wire and the behaviour afterwards

pub fn exec_e2e(c: &Case) -> Outcome {
    // heartbeats > 0 would start real timers; any announced interval >= 10 s cannot fire within a case
    let ccfg = ClientCfg {
        channel_max: c.c_channel_max,
        frame_max: c.c_frame_max,
        heartbeat: c.c_heartbeat,
        ..Default::default()
    };
    let scfg = ServerCfg {
        channel_max: c.s_channel_max,
        frame_max: c.s_frame_max,
        heartbeat: c.s_heartbeat,
        ..Default::default()
    };
    let want = spec(c);
    let mut sess = open_session(&ccfg, scfg, vec![], AutoBroker::new(7));
    if sess.open_hung {
        let _ = sess.broker.stop();
        return Outcome::hang("open-hang", format!("{:?}: insecure_open_stream did not return", c));
    }
    let io_thread = sess.wire.io_thread();
    match (&want, sess.conn.take()) {
        (Err((min, req)), None) => {
            let (_b, _io) = sess.broker.stop();
            match sess.open_error {
                Some(Error::FrameMaxTooSmall { min: m, requested }) if m == *min && requested == *req => {}
                other => return Outcome::fail("e2e-wrong-open-error", format!("{:?}: open failed with {:?}, expected FrameMaxTooSmall", c, other)),
            }
            // no TuneOk / Open on the wire
            sess.wire.wait_until(std::time::Duration::from_secs(5), |st| st.dropped);
            let out = sess.wire.out_snapshot();
            let d = crate::codec::decode_stream(&out);
            for (_, f) in &d.frames {
                if let AMQPFrame::Method(_, AMQPClass::Connection(Conn::TuneOk(_))) | AMQPFrame::Method(_, AMQPClass::Connection(Conn::Open(_))) = f {
                    return Outcome::fail("tune-ok-sent-despite-frame-max-too-small", format!("{:?}: wire has {:?}", c, f));
                }
            }
            Outcome::pass(nontrivial(c)).label("e2e-too-small")
        }
        (Err(_), Some(conn)) => {
            let _ = timed_close(conn);
            let _ = sess.broker.stop();
            Outcome::fail("frame-max-floor-not-enforced", format!("{:?}: connection opened", c))
        }
        (Ok(_), None) => {
            let _ = sess.broker.stop();
            Outcome::fail("e2e-open-failed", format!("{:?}: {:?}", c, sess.open_error))
        }
        (Ok((ch, fm, hb)), Some(mut conn)) => {
            let (ch, fm, hb) = (*ch, *fm, *hb);
            let body_len = if fm == u32::MAX || fm > 200_000 { 10_000 } else { 3 * fm as usize + 5 };
            let r = timed(CALL_TIMEOUT * 2, "avh-c15", move || {
                let mut notes: Vec<(String, String)> = Vec::new();
                // channel_max obeyed
                match conn.open_channel(Some(ch)) {
                    Ok(chan) => {
                        let body = body_bytes(body_len, 3);
                        if let Err(e) = chan.basic_publish("", Publish::new(&body, "rk")) {
                            notes.push(("e2e-publish-failed".into(), format!("{:?}", e)));
                        }
                        drop(chan);
                    }
                    Err(e) => notes.push(("channel-max-id-refused".into(), format!("open_channel(Some({})) failed: {:?}", ch, e))),
                }
                if ch < u16::MAX {
                    match conn.open_channel(Some(ch + 1)) {
                        Ok(_) => notes.push(("channel-above-channel-max-opened".into(), format!("open_channel(Some({})) succeeded with channel_max {}", ch + 1, ch))),
                        Err(Error::UnavailableChannelId { .. }) => {}
                        Err(e) => notes.push(("channel-above-max-wrong-error".into(), format!("{:?}", e))),
                    }
                }
                (notes, conn.close())
            });
            let (_b, _io) = sess.broker.stop();
            let (notes, close) = match r {
                Some(x) => x,
                None => {
                    sess.wire.push_eof();
                    return Outcome::hang("e2e-hang", format!("{:?}: session did not finish", c));
                }
            };
            if let Some(t) = io_thread.or(sess.wire.io_thread()) {
                let p = take_panics(t);
                if !p.is_empty() {
                    return Outcome::fail("io-thread-panic", format!("{:?}: {:?}", c, p));
                }
            }
            if let Some((s, m)) = notes.into_iter().next() {
                return Outcome::fail(s, format!("{:?}: {}", c, m));
            }
            if let Err(e) = close {
                return Outcome::fail("e2e-close-failed", format!("{:?}: {:?}", c, e));
            }
            let out = sess.wire.out_snapshot();
            let d = match check_stream_wellformed(&out) {
                Ok(d) => d,
                Err((s, m)) => return Outcome::fail(s, m),
            };
            let mut seen_tune_ok = false;
            for (raw, f) in &d.frames {
                if let AMQPFrame::Method(0, AMQPClass::Connection(Conn::TuneOk(t))) = f {
                    seen_tune_ok = true;
                    if (t.channel_max, t.frame_max, t.heartbeat) != (ch, fm, hb) {
                        return Outcome::fail("wire-tune-ok-differs-from-spec", format!("{:?}: wire {:?}, expected ({},{},{})", c, t, ch, fm, hb));
                    }
                }
                if fm != u32::MAX && raw.total_len() > fm as usize {
                    return Outcome::fail("frame-exceeds-negotiated-frame-max", format!("{:?}: frame of {} bytes", c, raw.total_len()));
                }
            }
            if !seen_tune_ok {
                return Outcome::fail("tune-ok-missing", format!("{:?}", c));
            }
            // the body must be there in full
            let chans = per_channel(&d);
            let total: usize = chans
                .get(&ch)
                .map(|fs| fs.iter().map(|(_, f)| if let AMQPFrame::Body(_, b) = f { b.len() } else { 0 }).sum())
                .unwrap_or(0);
            if total != body_len {
                return Outcome::fail("e2e-body-bytes-missing", format!("{:?}: {} of {} body bytes on channel {}", c, total, body_len, ch));
            }
            Outcome::pass(nontrivial(c)).label("e2e-ok")
        }
    }
}

fn strat_e2e(_t: Tier) -> BoxedStrategy<Case> {
    // heartbeat: keep announced intervals either 0 or >= 30 s so no timer fires inside a case
    let ch = || prop_oneof![1 => Just(0u16), 2 => 1u16..10, 1 => Just(65535u16), 1 => any::<u16>()];
    let fm = || prop_oneof![2 => Just(0u32), 2 => 4000u32..4200, 1 => 4096u32..20000, 1 => Just(131072u32), 1 => any::<u32>()];
    let hb = || prop_oneof![2 => Just(0u16), 1 => 30u16..1000, 1 => Just(65535u16)];
    (ch(), fm(), hb(), ch(), fm(), hb())
        .prop_map(|(a, c, e, b, d, f)| Case {
            c_channel_max: a,
            c_frame_max: c,
            c_heartbeat: e,
            s_channel_max: b,
            s_frame_max: d,
            s_heartbeat: f,
        })
        .boxed()
}

fn fuzz_case(c: Case) -> Case {
    c
}

pub fn parts() -> Vec<Box<dyn PartDyn>> {
    vec![
        Box::new(Part::<Case> {
            name: "negotiate",
            rule: "(client channel_max, frame_max, heartbeat) x (server ...): the boundary grid {0,1,2,255,65534,65535}^2 x {0,1,4095,4096,4097,131072,2^32-2,2^32-1}^2 x {0,1,2,60,65535}^2 enumerated completely (57 600 points) plus uniform/biased random points, through the tune_ok hook; oracle: independent spec (0 = unlimited, both unlimited = field maximum, else min; heartbeat = min; frame_max < 4096 => FrameMaxTooSmall{4096, requested}); non-trivial = the two sides differ and a value is 0 or the result sits on a boundary; distinct by case hash",
            cases: |t| t.pick(100_000, 3_000_000),
            threads: 16,
            strategy: strat_probe,
            exec: exec_probe,
            enumerate: Some(enumerate_probe),
            shrink_budget: 2000,
            confirm_runs: 1,
            fuzz: Some(fuzz_case),
            watchdog_s: 0,
        }),
        Box::new(Part::<Case> {
            name: "e2e",
            rule: "sampled option/Tune pairs run end-to-end on the mock transport: TuneOk on the wire equals the spec (none, and no Open, when FrameMaxTooSmall), open_channel(Some(channel_max)) works and Some(channel_max+1) fails with UnavailableChannelId, a publish of 3*frame_max+5 bytes arrives complete in frames <= frame_max; non-trivial as above",
            cases: |t| t.pick(1000, 20_000),
            threads: 16,
            strategy: strat_e2e,
            exec: exec_e2e,
            enumerate: None,
            shrink_budget: 100,
            confirm_runs: 2,
            fuzz: None,
            watchdog_s: 60,
        }),
        Box::new(Part::<crate::checks::c17::Case> {
            name: "hb-timing",
            rule: "the connection behaves by the announced heartbeat: client and server options differ (one of them 0, or 1-2 s against 60 s), so the negotiated interval is not the client's own option; in a third of the cases the transport stalls for 1.2-1.6 intervals with data queued and the client idles afterwards; the C17 timing oracle (longest gap between client writes <= h + 0.9 s, silence fatal at 2h, nothing at all when 0 was announced) is applied on the real clock, all cases concurrently; every case non-trivial",
            cases: |t| t.pick(24, 96),
            threads: 48,
            strategy: hb_strat,
            exec: crate::checks::c17::exec,
            enumerate: None,
            shrink_budget: 0,
            confirm_runs: 2,
            fuzz: None,
            watchdog_s: 60,
        }),
    ]
}

/// client / server heartbeat options that differ, so that "negotiated" != "client's option"
fn hb_strat(_t: Tier) -> BoxedStrategy<crate::checks::c17::Case> {
    let pair = prop_oneof![
        Just((60u8, 1u8)),
        Just((60u8, 2u8)),
        Just((1u8, 0u8)),
        Just((2u8, 0u8)),
        Just((0u8, 1u8)),
        Just((1u8, 60u8)),
        Just((2u8, 1u8)),
    ];
    (pair, any::<u8>(), prop_oneof![1 => Just(None), 1 => any::<u16>().prop_map(Some)], any::<bool>(), prop_oneof![2 => Just(None), 1 => any::<u8>().prop_map(Some)])
        .prop_map(|((client_hb, server_hb), feed_pct, silent_after_ms, feed_other, stall_pct)| crate::checks::c17::Case {
            client_hb,
            server_hb,
            feed_pct,
            silent_after_ms,
            publish_pct: None,
            feed_other,
            slow_open_pct: None,
            trickle: false,
            stall_pct,
            close_into_silence: false,
        })
        .boxed()
}
