//! C06 — frame decoding does not depend on how the byte stream is segmented.

use crate::codec::encode;
use crate::gen::{self, body_bytes, pick, Props};
use crate::methods::{make, MArgs, N_METHODS};
use crate::run::{catch, Outcome, Part, PartDyn, Tier};
use crate::wire::IoKind;
use amiquip::verif::FrameBuffer;
use amiquip::Error;
use amq_protocol::frame::{parse_frame, AMQPContentHeader, AMQPFrame};
use proptest::collection::vec;
use proptest::prelude::*;
use serde::{Deserialize, Serialize};
use std::io::{self, Read};

#[derive(Clone, Debug, Serialize, Deserialize, PartialEq)]
pub enum FrameSpec {
    Method { ch: u16, idx: u8, args: MArgs },
    Header { ch: u16, body_size: u64, props: Props },
    Body { ch: u16, len: u32, salt: u8 },
    Heartbeat,
}

#[derive(Clone, Debug, Serialize, Deserialize, PartialEq)]
pub enum Tail {
    /// nothing more arrives (reads keep returning WouldBlock)
    Quiet,
    /// a complete frame whose frame-end octet is wrong
    BadEnd(Box<FrameSpec>),
    /// a complete frame with an unknown type octet
    BadType(u8),
    /// a method frame whose payload names an unknown class/method
    BadPayload(u16),
    /// end of stream after `partial` bytes of a further frame (0 = at a frame boundary)
    Eof { partial: u8 },
    /// I/O error after `partial` bytes of a further frame
    IoErr { kind: IoKind, partial: u8 },
}

#[derive(Clone, Debug, Serialize, Deserialize, PartialEq)]
pub struct Case {
    pub frames: Vec<FrameSpec>,
    pub tail: Tail,
    /// two cut scripts: (size hint, would-block after this chunk)
    pub cuts_a: Vec<(u16, bool)>,
    pub cuts_b: Vec<(u16, bool)>,
}

pub fn spec_frame(s: &FrameSpec) -> AMQPFrame {
    match s {
        FrameSpec::Method { ch, idx, args } => AMQPFrame::Method(*ch, make(*idx as usize, args)),
        FrameSpec::Header { ch, body_size, props } => AMQPFrame::Header(
            *ch,
            60,
            Box::new(AMQPContentHeader {
                class_id: 60,
                weight: 0,
                body_size: *body_size,
                properties: props.to_amqp(),
            }),
        ),
        FrameSpec::Body { ch, len, salt } => AMQPFrame::Body(*ch, body_bytes(*len as usize, *salt as u64)),
        FrameSpec::Heartbeat => AMQPFrame::Heartbeat(0),
    }
}

/// A reader that hands out `data` in scripted chunks, then behaves per `end`.
pub struct ScriptedReader<'a> {
    data: &'a [u8],
    pos: usize,
    cuts: &'a [(u16, bool)],
    cut_i: usize,
    pending_block: bool,
    end: End,
    pub supplied: usize,
    pub end_reported: bool,
    /// the reader's last answer was WouldBlock (nothing further has arrived)
    pub last_block: bool,
}

#[derive(Clone, Copy, Debug, PartialEq)]
pub enum End {
    Quiet,
    Eof,
    Err(IoKind),
}

impl<'a> ScriptedReader<'a> {
    pub fn new(data: &'a [u8], cuts: &'a [(u16, bool)], end: End) -> Self {
        ScriptedReader {
            data,
            pos: 0,
            cuts,
            cut_i: 0,
            pending_block: false,
            end,
            supplied: 0,
            end_reported: false,
            last_block: false,
        }
    }
    pub fn exhausted(&self) -> bool {
        self.pos >= self.data.len()
    }
}

impl<'a> Read for ScriptedReader<'a> {
    fn read(&mut self, buf: &mut [u8]) -> io::Result<usize> {
        if self.pending_block {
            self.pending_block = false;
            self.last_block = true;
            return Err(io::ErrorKind::WouldBlock.into());
        }
        self.last_block = false;
        if self.pos >= self.data.len() {
            return match self.end {
                End::Quiet => {
                    self.last_block = true;
                    Err(io::ErrorKind::WouldBlock.into())
                }
                End::Eof => {
                    self.end_reported = true;
                    Ok(0)
                }
                End::Err(k) => {
                    self.end_reported = true;
                    Err(io::Error::new(k.kind(), "injected"))
                }
            };
        }
        let left = self.data.len() - self.pos;
        let (hint, block) = if self.cuts.is_empty() {
            (u16::MAX, false)
        } else {
            let c = self.cuts[self.cut_i % self.cuts.len()];
            self.cut_i += 1;
            c
        };
        let want = match hint % 10 {
            0 => 1,
            1 => 2,
            2 => 3,
            3 => 4,
            4 => 7,
            5 => 8,
            6 => 4096,
            _ => 1 + pick(hint, left),
        };
        let n = want.min(left).min(buf.len()).max(1);
        buf[..n].copy_from_slice(&self.data[self.pos..self.pos + n]);
        self.pos += n;
        self.supplied += n;
        self.pending_block = block;
        Ok(n)
    }
}

#[derive(Debug, PartialEq, Clone)]
pub enum Terminal {
    None,
    Malformed,
    Eof,
    IoErr(io::ErrorKind),
    Other(String),
}

pub struct RunResult {
    pub frames: Vec<AMQPFrame>,
    pub terminal: Terminal,
    /// per read_from call: (bytes supplied so far, frames handed so far, returned count or None)
    pub calls: Vec<(usize, usize, Option<usize>)>,
    pub handed_after_error: bool,
    /// a read_from call returned Ok although the reader's last answer was not WouldBlock, and the
    /// following call(s) - which a caller woken by readiness edges never makes - handed over
    /// frames or reported the end of the stream: (bytes supplied at the early return, frames
    /// handed over late, end reported late)
    pub early_return: Option<(usize, usize, bool)>,
}

/// Drive a FrameBuffer over `data` with the given cut script until the stream is exhausted.
pub fn drive(data: &[u8], cuts: &[(u16, bool)], end: End) -> RunResult {
    let mut fb = FrameBuffer::new();
    let mut rd = ScriptedReader::new(data, cuts, end);
    let mut frames: Vec<AMQPFrame> = Vec::new();
    let mut calls = Vec::new();
    let mut terminal = Terminal::None;
    let mut quiet_rounds = 0;
    // bytes supplied when a call returned Ok without the reader having answered WouldBlock; every
    // byte supplied from there to the next WouldBlock had already arrived at that moment
    let mut unsolicited: Option<usize> = None;
    let mut early_return: Option<(usize, usize, bool)> = None;
    loop {
        let before = rd.supplied;
        let handed_before = frames.len();
        let res = fb.read_from(&mut rd, |f| {
            frames.push(f);
            Ok(())
        });
        if let Some(at) = unsolicited {
            let late = frames.len() - handed_before;
            let end_late = res.is_err();
            if late > 0 || end_late {
                let e = early_return.get_or_insert((at, 0, false));
                e.1 += late;
                e.2 |= end_late;
            }
        }
        unsolicited = match &res {
            Ok(_) if !rd.last_block => Some(unsolicited.unwrap_or(rd.supplied)),
            _ => None,
        };
        match res {
            Ok(n) => {
                calls.push((rd.supplied, frames.len(), Some(n)));
                if n != rd.supplied - before {
                    terminal = Terminal::Other(format!(
                        "read_from returned {} but {} bytes were supplied in that call",
                        n,
                        rd.supplied - before
                    ));
                    break;
                }
                if rd.exhausted() && end == End::Quiet {
                    quiet_rounds += 1;
                    if quiet_rounds >= 2 {
                        break;
                    }
                }
            }
            Err(e) => {
                calls.push((rd.supplied, frames.len(), None));
                terminal = match e {
                    Error::MalformedFrame => Terminal::Malformed,
                    Error::UnexpectedSocketClose => Terminal::Eof,
                    Error::IoErrorReadingSocket { source } => Terminal::IoErr(source.kind()),
                    other => Terminal::Other(format!("{:?}", other)),
                };
                break;
            }
        }
        if calls.len() > data.len() * 2 + 16 {
            terminal = Terminal::Other("read_from made no progress".into());
            break;
        }
    }
    RunResult {
        frames,
        terminal,
        calls,
        handed_after_error: false,
        early_return,
    }
}

/// Build the byte stream, the reference frame list (with end offsets) and the expected terminal.
pub fn build(c: &Case) -> (Vec<u8>, Vec<(usize, AMQPFrame)>, End, Terminal, Option<usize>) {
    let mut bytes = Vec::new();
    let mut refs = Vec::new();
    for s in &c.frames {
        let f = spec_frame(s);
        let enc = encode(&f);
        // the reference decoding is amq-protocol's own parse of this frame in isolation
        let parsed = parse_frame(&enc).map(|(_, f)| f).unwrap_or(f);
        bytes.extend_from_slice(&enc);
        refs.push((bytes.len(), parsed));
    }
    let mut malformed_at = None;
    let (end, term) = match &c.tail {
        Tail::Quiet => (End::Quiet, Terminal::None),
        Tail::BadEnd(s) => {
            let mut enc = encode(&spec_frame(s));
            let l = enc.len();
            enc[l - 1] = 0xCD;
            bytes.extend_from_slice(&enc);
            malformed_at = Some(bytes.len());
            (End::Quiet, Terminal::Malformed)
        }
        Tail::BadType(t) => {
            let ty = match *t {
                1 | 2 | 3 | 8 => 9,
                x => x,
            };
            bytes.extend_from_slice(&[ty, 0, 1, 0, 0, 0, 2, 0xAA, 0xBB, 0xCE]);
            malformed_at = Some(bytes.len());
            (End::Quiet, Terminal::Malformed)
        }
        Tail::BadPayload(class) => {
            let class = 1000 + (*class % 1000);
            let mut v = vec![1u8, 0, 1, 0, 0, 0, 4];
            v.extend_from_slice(&class.to_be_bytes());
            v.extend_from_slice(&[0, 10, 0xCE]);
            bytes.extend_from_slice(&v);
            malformed_at = Some(bytes.len());
            (End::Quiet, Terminal::Malformed)
        }
        Tail::Eof { partial } => {
            let filler = encode(&AMQPFrame::Body(1, vec![7u8; 300]));
            bytes.extend_from_slice(&filler[..(*partial as usize).min(filler.len() - 1)]);
            (End::Eof, Terminal::Eof)
        }
        Tail::IoErr { kind, partial } => {
            let filler = encode(&AMQPFrame::Body(1, vec![7u8; 300]));
            bytes.extend_from_slice(&filler[..(*partial as usize).min(filler.len() - 1)]);
            (End::Err(*kind), Terminal::IoErr(kind.kind()))
        }
    };
    (bytes, refs, end, term, malformed_at)
}

fn judge(
    which: &str,
    r: &RunResult,
    refs: &[(usize, AMQPFrame)],
    want_term: &Terminal,
    malformed_at: Option<usize>,
    total: usize,
) -> Result<(), (String, String)> {
    if let Terminal::Other(m) = &r.terminal {
        return Err(("read-from-count-or-progress".into(), format!("[{}] {}", which, m)));
    }
    // (a) frames handed = reference prefix, each once, in order
    for (i, f) in r.frames.iter().enumerate() {
        match refs.get(i) {
            Some((_, rf)) if rf == f => {}
            Some((_, rf)) => {
                return Err((
                    "frame-differs-from-reference".into(),
                    format!("[{}] frame #{} handed over as {:?}\nreference {:?}", which, i, crate::oracle::brief(f), crate::oracle::brief(rf)),
                ))
            }
            None => {
                return Err((
                    "extra-frame-handed-over".into(),
                    format!("[{}] frame #{} {:?} handed over, stream has only {} frames", which, i, crate::oracle::brief(f), refs.len()),
                ))
            }
        }
    }
    // (b) promptness after every successful call; (c) is checked inside drive()
    for (supplied, handed, ret) in &r.calls {
        let complete = refs.partition_point(|(end, _)| end <= supplied);
        if ret.is_some() && *handed != complete {
            return Err((
                if *handed < complete { "frame-handed-over-late".into() } else { "frame-handed-over-early".into() },
                format!("[{}] after {} bytes supplied {} frames were complete but {} had been handed over", which, supplied, complete, handed),
            ));
        }
    }
    // (e) terminal
    if &r.terminal != want_term {
        return Err((
            "wrong-terminal-result".into(),
            format!("[{}] terminal {:?}, expected {:?}", which, r.terminal, want_term),
        ));
    }
    match want_term {
        Terminal::None => {
            if r.frames.len() != refs.len() {
                return Err(("frame-lost".into(), format!("[{}] {} of {} frames handed over", which, r.frames.len(), refs.len())));
            }
        }
        Terminal::Malformed => {
            // all frames before the malformed one must have been handed over, and the error must
            // come in the call that supplied its last byte
            if r.frames.len() != refs.len() {
                return Err(("frame-lost-before-malformed".into(), format!("[{}] {} of {} frames handed over before MalformedFrame", which, r.frames.len(), refs.len())));
            }
            let at = malformed_at.unwrap_or(total);
            let (supplied, _, _) = r.calls.last().copied().unwrap_or((0, 0, None));
            if supplied < at {
                return Err(("malformed-reported-before-complete".into(), format!("[{}] MalformedFrame after {} bytes, frame completes at {}", which, supplied, at)));
            }
            let earlier_ok_calls_with_all = r.calls[..r.calls.len().saturating_sub(1)].iter().any(|(s, _, _)| *s >= at);
            if earlier_ok_calls_with_all {
                return Err(("malformed-reported-late".into(), format!("[{}] a read_from call returned Ok although the malformed frame was complete", which)));
            }
        }
        Terminal::Eof | Terminal::IoErr(_) => {
            if r.frames.len() != refs.len() {
                return Err(("frame-lost-before-end".into(), format!("[{}] {} of {} complete frames handed over before the stream ended", which, r.frames.len(), refs.len())));
            }
        }
        Terminal::Other(_) => {}
    }
    Ok(())
}

/// What becomes of bytes a `read_from` call left behind depends on its caller: the I/O loop
/// registers the socket edge-triggered and calls `read_from` once per readiness event, so today
/// they are stranded; a loop that came back for them would make an early return harmless. An early
/// return seen at the FrameBuffer is therefore put to the real client once per process: a session
/// on the mock transport receives a burst (8192 deliveries, about 1 MB, no would-block) - or one
/// delivery with the end of the stream right behind it - and only if frames or the stream's end are
/// late *there* is the early return a violation. Some(text) = confirmed end to end.
fn early_return_confirmed(frames_late: bool) -> Result<Option<String>, String> {
    use std::sync::OnceLock;
    static FRAMES: OnceLock<Result<Option<String>, String>> = OnceLock::new();
    static END: OnceLock<Result<Option<String>, String>> = OnceLock::new();
    if frames_late {
        FRAMES
            .get_or_init(|| {
                // (stranded bytes can be rescued by an unrelated wake-up, so one clean session
                // proves nothing: confirmed if any attempt shows the loss)
                let mut last = Ok(None);
                for _ in 0..2 {
                    let o = crate::checks::c03::exec_flood(&crate::checks::c03::FloodCase { backlog: 8192, body_len: 39 });
                    last = match (o.fail, o.inconclusive) {
                        (Some(f), _) => return Ok(Some(format!("end to end (a burst of 8192 deliveries to a live session): {}: {}", f.sig, f.msg))),
                        (None, Some(i)) => Err(i),
                        (None, None) => Ok(None),
                    };
                }
                last
            })
            .clone()
    } else {
        END.get_or_init(|| {
            let mut last = Ok(None);
            for _ in 0..3 {
                last = end_behind_frames_session();
                if let Ok(Some(_)) = last {
                    break;
                }
            }
            last
        })
        .clone()
    }
}

/// A live session whose server sends one delivery and hangs up, both readable at once.
fn end_behind_frames_session() -> Result<Option<String>, String> {
    use crate::broker::{content_frames, AutoBroker, ServerCfg};
    use crate::session::{open_session, timed, ClientCfg};
    use amiquip::{ConsumerMessage, ConsumerOptions};
    use amq_protocol::protocol::basic;
    use amq_protocol::protocol::AMQPClass;
    use std::time::Duration;
    let mut sess = open_session(&ClientCfg::default(), ServerCfg::default(), vec![], AutoBroker::new(3));
    let conn = match sess.conn.take() {
        Some(c) => c,
        None => {
            let _ = sess.broker.stop();
            return Err(format!("open failed {:?}", sess.open_error));
        }
    };
    let wire = sess.wire.clone();
    let w2 = wire.clone();
    let res = timed(Duration::from_secs(30), "avh-c06-end-behind-frames", move || -> Result<Option<String>, String> {
        let mut conn = conn;
        let ch = conn.open_channel(None).map_err(|e| format!("open_channel: {:?}", e))?;
        let consumer = ch.basic_consume("q", ConsumerOptions::default()).map_err(|e| format!("basic_consume: {:?}", e))?;
        let mut bytes = Vec::new();
        for f in content_frames(
            ch.channel_id(),
            AMQPClass::Basic(basic::AMQPMethod::Deliver(basic::Deliver {
                consumer_tag: consumer.consumer_tag().to_string(),
                delivery_tag: 1,
                redelivered: false,
                exchange: String::new(),
                routing_key: "k".into(),
            })),
            &amiquip::AmqpProperties::default(),
            b"last words",
            &[1000],
        ) {
            bytes.extend_from_slice(&encode(&f));
        }
        // let the I/O thread finish the iteration that wrote basic.consume and park in poll: a
        // re-registration of the socket (as after a write) re-arms the readiness edge and would
        // rescue what the read left behind
        std::thread::sleep(Duration::from_millis(400));
        w2.push_items(vec![crate::wire::InItem::Data(bytes), crate::wire::InItem::Eof]);
        match consumer.receiver().recv_timeout(Duration::from_secs(5)) {
            Ok(ConsumerMessage::Delivery(_)) => {}
            other => return Err(format!("the delivery ahead of the end of the stream did not arrive: {:?}", other.map(|_| "another message"))),
        }
        let second = consumer.receiver().recv_timeout(Duration::from_secs(5));
        if std::env::var("AVH_DEBUG").is_ok() {
            let st_dropped = w2.is_dropped();
            let io = w2.io_thread();
            std::thread::sleep(Duration::from_millis(200));
            let panics = io.map(|t| crate::run::take_panics(t)).unwrap_or_default();
            eprintln!("c06 end-behind-frames: second message {:?} transport dropped={} panics={:?}", second, st_dropped, panics.iter().map(|p| format!("{} at {}", p.message, p.location)).collect::<Vec<_>>());
        }
        let verdict = match second {
            Err(crossbeam_channel::RecvTimeoutError::Timeout) => Some(
                "end to end (a delivery and the end of the stream readable at once): 5 s later the consumer had not been told that the connection is gone".to_string(),
            ),
            _ => None,
        };
        std::mem::forget(consumer);
        let _ = conn.close();
        drop(ch);
        Ok(verdict)
    });
    let _ = sess.broker.stop();
    match res {
        Some(r) => r,
        None => {
            wire.push_eof();
            Err("the confirmation session did not finish".into())
        }
    }
}

pub fn exec(c: &Case) -> Outcome {
    let (bytes, refs, end, term, malformed_at) = build(c);
    let mut spans = false;
    let mut big = false;
    let mut compensated = false;
    let mut results = Vec::new();
    for (name, cuts) in [("cuts_a", &c.cuts_a), ("cuts_b", &c.cuts_b)] {
        let r = match catch(std::panic::AssertUnwindSafe(|| drive(&bytes, cuts, end))) {
            Ok(r) => r,
            Err(p) => return Outcome::fail("frame-buffer-panic", format!("[{}] {} at {}", name, p.message, p.location)),
        };
        // "as soon as its last byte has arrived": whatever the transport gives without would-block
        // has arrived; a call that returns before would-block leaves it to a caller that may never
        // come back (see early_return_confirmed)
        if let Some((at, late, end_late)) = r.early_return {
            match early_return_confirmed(late > 0) {
                Ok(Some(e2e)) => {
                    return Outcome::fail(
                        "frame-handed-over-late",
                        format!(
                            "[{}] read_from returned Ok after {} bytes although the transport had not answered would-block; {} frame(s){} whose bytes had already arrived were only dealt with by a further call, which a caller woken by readiness edges never makes\n{}",
                            name,
                            at,
                            late,
                            if end_late { " and the error that ends the stream" } else { "" },
                            e2e
                        ),
                    )
                }
                Ok(None) => compensated = true,
                Err(i) => {
                    return Outcome {
                        inconclusive: Some(format!("early return of read_from could not be put to a live session: {}", i)),
                        ..Default::default()
                    }
                }
            }
        }
        if let Err((s, m)) = judge(name, &r, &refs, &term, malformed_at, bytes.len()) {
            return Outcome::fail(s, m);
        }
        // non-triviality: some frame spans >= 2 read calls' worth of supplied bytes
        let mut start = 0usize;
        for (e, _) in &refs {
            // calls are ordered by bytes supplied: the first call boundary behind `start`
            let k = r.calls.partition_point(|(s, _, _)| *s <= start);
            if r.calls.get(k).map_or(false, |(s, _, _)| *s < *e) {
                spans = true;
            }
            if e - start > 4096 {
                big = true;
            }
            start = *e;
        }
        results.push(r);
    }
    // (d) metamorphic: both cut scripts give identical frames and terminal
    if results[0].frames != results[1].frames || results[0].terminal != results[1].terminal {
        return Outcome::fail("result-depends-on-segmentation", "two cut scripts of one stream gave different results");
    }
    let mut o = Outcome::pass(spans || big);
    if spans {
        o.labels.push("frame-spans-reads".into());
    }
    if big {
        o.labels.push("frame-over-4096".into());
    }
    if compensated {
        o.labels.push("early-return-made-good-by-the-io-loop".into());
    }
    o.labels.push(format!("tail-{}", match &c.tail {
        Tail::Quiet => "quiet",
        Tail::BadEnd(_) => "bad-end",
        Tail::BadType(_) => "bad-type",
        Tail::BadPayload(_) => "bad-payload",
        Tail::Eof { .. } => "eof",
        Tail::IoErr { .. } => "ioerr",
    }));
    o
}

pub fn margs() -> BoxedStrategy<MArgs> {
    (
        gen::short_string(),
        gen::short_string(),
        prop_oneof![3 => any::<u64>(), 1 => Just(0u64), 1 => Just(u64::MAX)],
        any::<bool>(),
        any::<bool>(),
        gen::field_table(),
    )
        .prop_map(|(s1, s2, n, flag, flag2, table)| MArgs {
            s1,
            s2,
            n,
            flag,
            flag2,
            table,
        })
        .boxed()
}

pub fn frame_spec() -> BoxedStrategy<FrameSpec> {
    let ch = prop_oneof![2 => Just(0u16), 4 => 1u16..5, 1 => any::<u16>()];
    prop_oneof![
        5 => (ch.clone(), 0u8..(N_METHODS as u8), margs()).prop_map(|(ch, idx, args)| FrameSpec::Method { ch, idx, args }),
        2 => (ch.clone(), prop_oneof![any::<u64>(), 0u64..100_000], gen::props()).prop_map(|(ch, body_size, props)| FrameSpec::Header { ch, body_size, props }),
        3 => (ch, prop_oneof![4 => 0u32..300, 2 => 4000u32..4200, 1 => 0u32..20_000], any::<u8>()).prop_map(|(ch, len, salt)| FrameSpec::Body { ch, len, salt }),
        1 => Just(FrameSpec::Heartbeat),
    ]
    .boxed()
}

fn strat(_t: Tier) -> BoxedStrategy<Case> {
    let tail = prop_oneof![
        4 => Just(Tail::Quiet),
        1 => frame_spec().prop_map(|f| Tail::BadEnd(Box::new(f))),
        1 => any::<u8>().prop_map(Tail::BadType),
        1 => any::<u16>().prop_map(Tail::BadPayload),
        1 => (0u8..40).prop_map(|partial| Tail::Eof { partial }),
        1 => (prop::sample::select(IoKind::ALL.to_vec()), 0u8..40).prop_map(|(kind, partial)| Tail::IoErr { kind, partial }),
    ];
    let cuts = || vec((any::<u16>(), prop::bool::weighted(0.4)), 0..12);
    (vec(frame_spec(), 0..14), tail, cuts(), cuts())
        .prop_map(|(frames, tail, cuts_a, cuts_b)| Case {
            frames,
            tail,
            cuts_a,
            cuts_b,
        })
        .boxed()
}

fn fuzz_spec(f: &mut FrameSpec) {
    match f {
        FrameSpec::Method { idx, args, .. } => {
            *idx %= N_METHODS as u8;
            gen::clamp_short(&mut args.s1);
            gen::clamp_short(&mut args.s2);
            args.table.clear();
        }
        FrameSpec::Header { props, .. } => gen::sanitize_props(props),
        FrameSpec::Body { len, .. } => *len %= 20_001,
        FrameSpec::Heartbeat => {}
    }
}

fn fuzz_case(mut c: Case) -> Case {
    c.frames.truncate(14);
    for f in c.frames.iter_mut() {
        fuzz_spec(f);
    }
    match &mut c.tail {
        Tail::BadEnd(f) => fuzz_spec(f),
        Tail::Eof { partial } | Tail::IoErr { partial, .. } => *partial %= 40,
        _ => {}
    }
    c.cuts_a.truncate(12);
    c.cuts_b.truncate(12);
    c
}

// ---------------------------------------------------------------------------------------------
// part `burst`: the same oracle over long streams - a short unit of frames repeated until the
// stream is tens to hundreds of KiB and up to several thousand frames long, mostly read without
// any would-block in between, which is how a prefetch burst reaches a client that is a little late.

#[derive(Clone, Debug, Serialize, Deserialize, PartialEq)]
pub struct BCase {
    pub unit: Vec<FrameSpec>,
    pub reps: u16,
    pub tail: Tail,
    pub cuts_a: Vec<(u16, bool)>,
    pub cuts_b: Vec<(u16, bool)>,
}

const BURST_MAX_BYTES: usize = 400 * 1024;

pub fn exec_burst(c: &BCase) -> Outcome {
    let unit_len: usize = c.unit.iter().map(|s| encode(&spec_frame(s)).len()).sum();
    let reps = (c.reps as usize).min(BURST_MAX_BYTES / unit_len.max(1)).max(1);
    let mut frames = Vec::with_capacity(reps * c.unit.len());
    for _ in 0..reps {
        frames.extend(c.unit.iter().cloned());
    }
    let n_frames = frames.len();
    let big = Case {
        frames,
        tail: c.tail.clone(),
        cuts_a: c.cuts_a.clone(),
        cuts_b: c.cuts_b.clone(),
    };
    let mut o = exec(&big);
    let bytes = unit_len * reps;
    let never_blocks = |cuts: &Vec<(u16, bool)>| cuts.iter().all(|(_, b)| !*b);
    o.nontrivial = o.fail.is_none() && (bytes >= 65536 || n_frames >= 1024);
    if bytes >= 65536 {
        o.labels.push("stream-of-64KiB-or-more".into());
    }
    if bytes >= 262144 {
        o.labels.push("stream-of-256KiB-or-more".into());
    }
    if n_frames >= 1024 {
        o.labels.push("1024-frames-or-more".into());
    }
    if n_frames >= 4096 {
        o.labels.push("4096-frames-or-more".into());
    }
    if never_blocks(&c.cuts_a) || never_blocks(&c.cuts_b) {
        o.labels.push("no-would-block-before-the-end".into());
    }
    o
}

fn bstrat(_t: Tier) -> BoxedStrategy<BCase> {
    let tail = prop_oneof![
        4 => Just(Tail::Quiet),
        1 => any::<u8>().prop_map(Tail::BadType),
        1 => (0u8..40).prop_map(|partial| Tail::Eof { partial }),
        1 => (prop::sample::select(IoKind::ALL.to_vec()), 0u8..40).prop_map(|(kind, partial)| Tail::IoErr { kind, partial }),
    ];
    let cuts = || {
        prop_oneof![
            1 => Just(Vec::new()),
            3 => vec((any::<u16>(), Just(false)), 1..5),
            2 => vec((any::<u16>(), prop::bool::weighted(0.2)), 1..12),
        ]
    };
    let ch = prop_oneof![1 => Just(0u16), 4 => 1u16..5];
    let small = prop_oneof![
        3 => (ch.clone(), 0u32..40, any::<u8>()).prop_map(|(ch, len, salt)| FrameSpec::Body { ch, len, salt }),
        2 => (ch.clone(), prop_oneof![2 => 3000u32..4200, 1 => 0u32..20_000], any::<u8>()).prop_map(|(ch, len, salt)| FrameSpec::Body { ch, len, salt }),
        1 => Just(FrameSpec::Heartbeat),
        2 => frame_spec(),
    ];
    (vec(small, 1..4), prop_oneof![1 => 1u16..400, 2 => 400u16..6000], tail, cuts(), cuts())
        .prop_map(|(unit, reps, tail, cuts_a, cuts_b)| BCase {
            unit,
            reps,
            tail,
            cuts_a,
            cuts_b,
        })
        .boxed()
}

// ---------------------------------------------------------------------------------------------
// part `session`: the same claim for the frames the *connection* acts on. The handshake and the
// steady state are served by one frame buffer, so a read that ends inside the first frame behind
// OpenOk is just another cut; the session must not depend on where it falls.

#[derive(Clone, Debug, Serialize, Deserialize, PartialEq)]
pub enum TFrame {
    Blocked(String),
    Unblocked,
    Heartbeat,
    /// Connection.Close(code, text): only generated as the last frame; makes "acted on exactly
    /// once" observable (one CloseOk on the wire, the close's code and text in the result)
    ServerClose(u16, String),
}

#[derive(Clone, Debug, Serialize, Deserialize, PartialEq)]
pub struct SCase {
    /// frames the server sends of its own accord right behind OpenOk
    pub frames: Vec<TFrame>,
    /// how many of their bytes arrive in the same read segment as OpenOk (picked in 0..=len)
    pub glue: u16,
    /// handshake replies cut into segments of this many bytes (0 = whole frames)
    pub handshake_chunk: u8,
    pub salt: u64,
    /// the transport reports would-block between the two segments (otherwise the client may
    /// drain both in one read loop)
    #[serde(default)]
    pub block_between: bool,
    /// what the server sends right behind its CloseOk when the client closes the connection:
    /// nothing, heartbeat frames, or bytes that are not a frame; `close_glue` of these bytes
    /// arrive in CloseOk's read segment (the client must return Ok wherever the cut falls)
    #[serde(default)]
    pub close_trailer: u8,
    #[serde(default)]
    pub close_glue: u16,
}

/// Auto-replying broker that sends `trailer` behind the CloseOk with which it answers the
/// client's Connection.Close.
struct CloseTrailBroker {
    inner: crate::broker::AutoBroker,
    trailer: Vec<u8>,
    glue: usize,
    block: bool,
    /// 0 = CloseOk (+ trailer); 1 = hang up instead of answering; 2 = a CloseOk with a wrong
    /// frame-end octet, then the real one, cut after `glue` bytes
    instead: u8,
}

impl crate::broker::Responder for CloseTrailBroker {
    fn on_frame(&mut self, io: &mut crate::broker::BrokerIo, frame: &AMQPFrame) {
        use amq_protocol::protocol::connection::{AMQPMethod as Conn, CloseOk};
        use amq_protocol::protocol::AMQPClass;
        if let AMQPFrame::Method(0, AMQPClass::Connection(Conn::Close(_))) = frame {
            if self.instead == 1 {
                io.wire.push_items(vec![crate::wire::InItem::Eof]);
                return;
            }
            if self.instead == 2 {
                let good = encode(&AMQPFrame::Method(0, AMQPClass::Connection(Conn::CloseOk(CloseOk {}))));
                let mut bytes = good.clone();
                let n = bytes.len();
                bytes[n - 1] = 0xCD;
                bytes.extend_from_slice(&good);
                let k = self.glue.min(bytes.len());
                let mut items = Vec::new();
                if k > 0 {
                    items.push(crate::wire::InItem::Data(bytes[..k].to_vec()));
                }
                if k < bytes.len() {
                    if self.block && k > 0 {
                        items.push(crate::wire::InItem::Block);
                    }
                    items.push(crate::wire::InItem::Data(bytes[k..].to_vec()));
                }
                io.wire.push_items(items);
                return;
            }
            if !self.trailer.is_empty() {
                let ok = AMQPFrame::Method(0, AMQPClass::Connection(Conn::CloseOk(CloseOk {})));
                let k = self.glue.min(self.trailer.len());
                let mut first = encode(&ok);
                first.extend_from_slice(&self.trailer[..k]);
                let mut items = vec![crate::wire::InItem::Data(first)];
                if k < self.trailer.len() {
                    if self.block {
                        items.push(crate::wire::InItem::Block);
                    }
                    items.push(crate::wire::InItem::Data(self.trailer[k..].to_vec()));
                }
                io.wire.push_items(items);
                io.sent.push(ok);
                return;
            }
        }
        self.inner.on_frame(io, frame)
    }
    fn on_tick(&mut self, io: &mut crate::broker::BrokerIo) {
        self.inner.on_tick(io)
    }
}

pub fn exec_session(c: &SCase) -> Outcome {
    use crate::broker::{AutoBroker, ServerCfg};
    use crate::session::{open_session, timed, timed_close, ClientCfg, CALL_TIMEOUT};
    use amq_protocol::protocol::connection::{AMQPMethod as Conn, Blocked, Unblocked};
    use amq_protocol::protocol::AMQPClass;
    let mut trailer = Vec::new();
    let mut bounds = vec![0usize];
    for f in &c.frames {
        let fr = match f {
            TFrame::Blocked(r) => AMQPFrame::Method(0, AMQPClass::Connection(Conn::Blocked(Blocked { reason: r.clone() }))),
            TFrame::Unblocked => AMQPFrame::Method(0, AMQPClass::Connection(Conn::Unblocked(Unblocked {}))),
            TFrame::Heartbeat => AMQPFrame::Heartbeat(0),
            TFrame::ServerClose(code, text) => AMQPFrame::Method(
                0,
                AMQPClass::Connection(Conn::Close(amq_protocol::protocol::connection::Close {
                    reply_code: *code,
                    reply_text: text.clone(),
                    class_id: 0,
                    method_id: 0,
                })),
            ),
        };
        trailer.extend_from_slice(&encode(&fr));
        bounds.push(trailer.len());
    }
    let glue = pick(c.glue, trailer.len() + 1);
    let scfg = ServerCfg {
        handshake_chunk: c.handshake_chunk as usize,
        trailer: trailer.clone(),
        trailer_glue: glue,
        trailer_block: c.block_between,
        ..Default::default()
    };
    let ctx = format!("{} bytes of {:?} ({} bytes, frame boundaries {:?}) glued to OpenOk", glue, c.frames, trailer.len(), bounds);
    // 4 = the server hangs up instead of answering the close; 5 = it answers with a malformed
    // CloseOk followed by a proper one (24 bytes, cut anywhere)
    let instead = match c.close_trailer % 6 {
        4 => 1u8,
        5 => 2,
        _ => 0,
    };
    let close_trailer: Vec<u8> = match c.close_trailer % 6 {
        4 | 5 => Vec::new(),
        0 => Vec::new(),
        1 => encode(&AMQPFrame::Heartbeat(0)),
        2 => [encode(&AMQPFrame::Heartbeat(0)), encode(&AMQPFrame::Heartbeat(0))].concat(),
        // 11 bytes that are not a frame: unknown type octet, a plausible size (3), wrong frame-end
        // (a random size field would make the client reserve up to 4 GiB for the "frame")
        _ => vec![9, 0, 0, 0, 0, 0, 3, (c.salt >> 8) as u8, (c.salt >> 16) as u8, (c.salt >> 24) as u8, 0x00],
    };
    let close_glue = if instead == 2 { pick(c.close_glue, 25) } else { pick(c.close_glue, close_trailer.len() + 1) };
    let ctx = format!("{}; behind the server's CloseOk: {} bytes (kind {}), {} of them in CloseOk's segment", ctx, close_trailer.len(), c.close_trailer % 6, close_glue);
    let mut sess = open_session(
        &ClientCfg::default(),
        scfg,
        vec![],
        CloseTrailBroker {
            inner: AutoBroker::new(c.salt),
            trailer: close_trailer.clone(),
            glue: close_glue,
            block: c.block_between,
            instead,
        },
    );
    let mut conn = match sess.conn.take() {
        Some(c) => c,
        None => {
            let io = sess.wire.io_thread();
            let _ = sess.broker.stop();
            if let Some(t) = io {
                let p = crate::run::take_panics(t);
                if !p.is_empty() {
                    return Outcome::fail("io-thread-panic", format!("{} at {}\n{}", p[0].message, p[0].location, ctx));
                }
            }
            if sess.open_hung {
                return Outcome::hang("session-depends-on-segmentation:open-hang", ctx);
            }
            return Outcome::fail("session-depends-on-segmentation:open-failed", format!("{:?}\n{}", sess.open_error, ctx));
        }
    };
    if c.frames.iter().any(|f| matches!(f, TFrame::ServerClose(..))) {
        // the close travelled as raw bytes: from now on the broker behaves like a server that has
        // sent Connection.Close (it answers nothing but CloseOk)
        let _ = sess.broker.call(|_, io| io.closing = true);
    }
    let wire = sess.wire.clone();
    let res = timed(CALL_TIMEOUT, "avh-c06-session", move || {
        let r = (|| -> amiquip::Result<()> {
            let ch = conn.open_channel(None)?;
            ch.qos(0, 1, false)?;
            ch.close()
        })();
        (r, conn)
    });
    let (r, conn) = match res {
        Some(x) => x,
        None => {
            wire.push_eof();
            let _ = sess.broker.stop();
            return Outcome::hang("session-depends-on-segmentation:call-hang", ctx);
        }
    };
    let close = timed_close(conn);
    let io = wire.io_thread();
    let _ = sess.broker.stop();
    if let Some(t) = io {
        let p = crate::run::take_panics(t);
        if !p.is_empty() {
            return Outcome::fail("io-thread-panic", format!("{} at {}\n{}", p[0].message, p[0].location, ctx));
        }
    }
    let server_close = c.frames.iter().find_map(|f| match f {
        TFrame::ServerClose(code, text) => Some((*code, text.clone())),
        _ => None,
    });
    match &server_close {
        None => {
            if let Err(e) = r {
                return Outcome::fail("session-depends-on-segmentation:call-failed", format!("{:?}\n{}", e, ctx));
            }
            match (instead, close) {
                (0, Some(Ok(()))) => {}
                // the server hung up / sent something that is not a frame instead of CloseOk:
                // the close fails with exactly that, wherever the bytes were cut
                (1, Some(Err(Error::UnexpectedSocketClose))) => {}
                (2, Some(Err(Error::MalformedFrame))) => {}
                (_, Some(other)) => return Outcome::fail("session-depends-on-segmentation:close-failed", format!("{:?}\n{}", other, ctx)),
                (_, None) => return Outcome::hang("session-depends-on-segmentation:close-hang", ctx),
            }
        }
        Some((code, text)) => {
            // the calls race with the close (either outcome is fine); the close itself must be
            // answered exactly once and reported with its code and text
            match close {
                Some(Err(Error::ServerClosedConnection { code: c2, message })) if c2 == *code && message == *text => {}
                Some(other) => return Outcome::fail("session-depends-on-segmentation:server-close-not-reported", format!("close returned {:?}\n{}", other, ctx)),
                None => return Outcome::hang("session-depends-on-segmentation:close-hang", ctx),
            }
            let d = crate::codec::decode_stream(&wire.out_snapshot());
            let n_ok = d
                .frames
                .iter()
                .filter(|(_, f)| matches!(f, AMQPFrame::Method(0, AMQPClass::Connection(Conn::CloseOk(_)))))
                .count();
            let last_ok = matches!(d.frames.last(), Some((_, AMQPFrame::Method(0, AMQPClass::Connection(Conn::CloseOk(_))))));
            if n_ok != 1 || !last_ok {
                return Outcome::fail("session-depends-on-segmentation:close-ok-count", format!("{} CloseOk frames, last frame is CloseOk: {}\n{}", n_ok, last_ok, ctx));
            }
        }
    }
    let inside = glue > 0 && !bounds.contains(&glue);
    let mut o = Outcome::pass(inside);
    o.labels.push(if inside { "read-ends-inside-first-steady-frame".into() } else if glue == 0 { "nothing-glued".into() } else { "cut-at-frame-boundary".to_string() });
    if server_close.is_some() {
        o.labels.push("server-close-right-behind-open-ok".into());
    }
    o.labels.push(if c.block_between { "would-block-between-segments".into() } else { "segments-back-to-back".to_string() });
    if instead > 0 && server_close.is_none() {
        o.labels.push(if instead == 1 { "close-answered-by-hang-up".into() } else { "close-answered-by-malformed-close-ok".to_string() });
    }
    if !close_trailer.is_empty() && server_close.is_none() {
        o.labels.push(format!("bytes-behind-close-ok:{}", if close_glue == 0 { "next-read" } else if close_glue == close_trailer.len() { "same-read" } else { "cut-inside" }));
    }
    o
}

fn sstrat(_t: Tier) -> BoxedStrategy<SCase> {
    let f = prop_oneof![
        3 => gen::short_string().prop_map(TFrame::Blocked),
        1 => Just(TFrame::Unblocked),
        2 => Just(TFrame::Heartbeat),
    ];
    let tail = prop_oneof![3 => Just(None), 1 => (200u16..600, gen::short_string()).prop_map(|(c, t)| Some(TFrame::ServerClose(c, t)))];
    (vec(f, 0..4), tail, any::<u16>(), prop_oneof![3 => Just(0u8), 1 => 1u8..9], any::<u64>(), any::<bool>(), (0u8..6, any::<u16>()))
        .prop_map(|(mut frames, tail, glue, handshake_chunk, salt, block_between, close)| {
            if let Some(t) = tail {
                frames.push(t);
            }
            if frames.is_empty() {
                frames.push(TFrame::Heartbeat);
            }
            (frames, glue, handshake_chunk, salt, block_between, close)
        })
        .prop_map(|(frames, glue, handshake_chunk, salt, block_between, close)| SCase {
            frames,
            glue,
            handshake_chunk,
            salt,
            block_between,
            close_trailer: close.0,
            close_glue: close.1,
        })
        .boxed()
}

pub fn parts() -> Vec<Box<dyn PartDyn>> {
    vec![Box::new(Part::<Case> {
        name: "probe",
        rule: "streams of 0-13 real AMQP frames (all 64 methods with generated fields, content headers with generated properties, bodies up to 20 000 bytes, heartbeats) optionally ended by a malformed frame (bad frame-end, unknown type, unknown class), EOF or an I/O error, each fed to FrameBuffer::read_from under two generated cut scripts (1-8 byte chunks, 4096, random; would-block points); oracle: reference split + amq-protocol parse of each frame in isolation, promptness after every call, byte count, metamorphic equality of the two cuts, exact terminal error; non-trivial = a frame spans two read_from calls or exceeds 4096 bytes; distinct by case hash",
        cases: |t| t.pick(200_000, 3_000_000),
        threads: 16,
        strategy: strat,
        exec,
        enumerate: None,
        shrink_budget: 3000,
        confirm_runs: 1,
            fuzz: Some(fuzz_case),
            watchdog_s: 0,
    }),
    Box::new(Part::<BCase> {
        name: "burst",
        rule: "long streams: a unit of 1-3 real frames (mostly small or 3-20 KB body frames) repeated up to 6000 times, at most 400 KiB, ended like the probe streams, fed to FrameBuffer::read_from under two cut scripts of which most never answer would-block before the end (one read after the other, chunk sizes 1-8, 4096 or random); oracle: as for `probe`, in particular a read_from call may only return Ok once the transport has answered would-block - whatever it gives before that has arrived, and a caller woken by readiness edges does not come back for it; non-trivial = the stream is at least 64 KiB or at least 1024 frames long; distinct by case hash",
        cases: |t| t.pick(1500, 40_000),
        threads: 16,
        strategy: bstrat,
        exec: exec_burst,
        enumerate: None,
        shrink_budget: 300,
        confirm_runs: 1,
        fuzz: None,
        watchdog_s: 0,
    }),
    Box::new(Part::<SCase> {
        name: "session",
        rule: "whole sessions on the mock transport in which the server sends 1-3 frames of its own accord (Connection.Blocked with a generated reason, Unblocked, heartbeats, optionally ending with Connection.Close(code, text)) right behind OpenOk, a generated number of their bytes (0..=all) arriving in the same read segment as OpenOk and the rest in the next one (with or without a would-block in between), handshake replies whole or cut into 1-8 byte segments; oracle: wherever the cut falls the connection opens, open_channel / qos / Channel::close and Connection::close succeed and nothing panics or hangs - the same holds when the server sends heartbeats or non-frame bytes behind the CloseOk that answers Connection::close, cut anywhere, and when the server answers the close by hanging up or with a malformed CloseOk the close fails with UnexpectedSocketClose / MalformedFrame wherever the bytes are cut - or, with a server close among the frames, exactly one CloseOk is written, as the last frame, and Connection::close reports the code and text; non-trivial = the read that carries OpenOk ends strictly inside the following frame; distinct by case hash",
        cases: |t| t.pick(1500, 30_000),
        threads: 16,
        strategy: sstrat,
        exec: exec_session,
        enumerate: None,
        shrink_budget: 100,
        confirm_runs: 2,
        fuzz: None,
        watchdog_s: 60,
    })]
}
