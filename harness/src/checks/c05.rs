//! C05 — when a connection dies, every caller is released with an error; nobody hangs.

use crate::broker::{content_frames, reply_for, BrokerIo, Responder, ServerCfg};
use crate::codec::encode;
use crate::run::{take_panics, Outcome, Part, PartDyn, Tier};
use crate::session::{open_session, timed, ClientCfg, CALL_TIMEOUT};
use crate::wire::{InItem, IoKind, WStep};
use amiquip::{Channel, ConsumerMessage, ConsumerOptions, Error, Publish, QueueDeclareOptions};
use amq_protocol::frame::{AMQPContentHeader, AMQPFrame};
use amq_protocol::protocol::basic::AMQPMethod as Basic;
use amq_protocol::protocol::connection::AMQPMethod as Conn;
use amq_protocol::protocol::queue::AMQPMethod as Queue;
use amq_protocol::protocol::{basic, connection, AMQPClass};
use proptest::prelude::*;
use serde::{Deserialize, Serialize};
use std::collections::HashMap;
use std::sync::atomic::{AtomicBool, Ordering};
use std::sync::{mpsc, Arc};
use std::time::{Duration, Instant};

#[derive(Clone, Debug, Serialize, Deserialize, PartialEq)]
pub enum Fault {
    /// EOF at this many bytes of server->client traffic after the session is set up
    ReadEof { offset: u16 },
    ReadErr { offset: u16, kind: IoKind },
    /// error on the j-th client write call from now
    WriteErr { nth: u8, kind: IoKind },
    /// a malformed frame at a frame boundary (after `offset` bytes of filler traffic)
    Malformed { offset: u16, variant: u8 },
    ServerClose { code: u16, text: String },
    /// content on channel 0: forces the client-exception path
    ForceClientException,
    /// negotiated heartbeat 1 s, then the server falls silent
    MissedHeartbeats,
    /// negotiated heartbeat 1 s; the transport stops accepting writes, the server closes the
    /// connection (or provokes a client exception) and then falls silent without closing the
    /// socket: the client cannot flush its answer, only the heartbeat deadline ends the wait
    StalledClosingThenSilent { server_close: bool },
    /// an unexpected channel-0 method carrying a server-chosen string (Connection.Secure with a
    /// challenge of `pad` ASCII bytes followed by 100 three-byte characters): the client-exception
    /// path with a reply text that is long, not ASCII, and cut at a generated alignment
    ClientExceptionLongText { pad: u8 },
    /// heartbeats off; the transport stops accepting writes, the server closes the connection
    /// (or provokes a client exception) and then hangs up: the client can never flush its
    /// answer, the end of the stream is what must end the connection
    StalledClosingThenEof { server_close: bool },
}

#[derive(Clone, Debug, Serialize, Deserialize, PartialEq)]
pub struct Case {
    /// per channel: consumers, kind of activity
    pub channels: Vec<(u8, Activity)>,
    pub fault: Fault,
    /// leave a delivery half assembled on the first channel with a consumer when the fault strikes
    pub half_content: bool,
    pub salt: u64,
}

#[derive(Clone, Copy, Debug, Serialize, Deserialize, PartialEq)]
pub enum Activity {
    /// issues nothing until asked to probe
    Idle,
    /// one synchronous call whose reply the broker withholds (in flight when the fault strikes)
    BlockedCall,
    /// publishes and calls in a loop
    Busy,
}

pub struct Broker {
    salt: u64,
    seq: HashMap<u16, u32>,
    pub filler: bool,
    pub silent: bool,
    pub consumer_tags: Vec<(u16, String)>,
    dtag: u64,
}

impl Responder for Broker {
    fn on_frame(&mut self, io: &mut BrokerIo, frame: &AMQPFrame) {
        if self.silent {
            return;
        }
        if let AMQPFrame::Method(ch, m) = frame {
            // the reply to a declare of "withheld" never comes
            if let AMQPClass::Queue(Queue::Declare(d)) = m {
                if d.queue == "withheld" {
                    return;
                }
            }
            let seq = self.seq.entry(*ch).or_insert(0);
            if let Some(reply) = reply_for(self.salt, *ch, *seq, m) {
                *seq += 1;
                io.send_method(*ch, reply);
            }
        }
    }
    fn on_tick(&mut self, io: &mut BrokerIo) {
        if !self.filler || self.silent || io.closing {
            return;
        }
        // keep server->client traffic flowing so that positional faults are reached
        let mut bytes = Vec::new();
        for _ in 0..6 {
            bytes.extend_from_slice(&encode(&AMQPFrame::Heartbeat(0)));
        }
        if let Some((chid, tag)) = self.consumer_tags.first().cloned() {
            self.dtag += 1;
            for f in content_frames(
                chid,
                AMQPClass::Basic(Basic::Deliver(basic::Deliver {
                    consumer_tag: tag,
                    delivery_tag: self.dtag,
                    redelivered: false,
                    exchange: "x".into(),
                    routing_key: "k".into(),
                })),
                &amiquip::AmqpProperties::default(),
                &[3u8; 90],
                &[40, 50],
            ) {
                bytes.extend_from_slice(&encode(&f));
            }
        }
        io.wire.push(bytes);
    }
}

struct ChanReport {
    in_flight_result: Option<String>,
    first_error_after_ms: Option<u128>,
    later_sync: Vec<String>,
    nowait_after_close: Option<String>,
    consumers_terminated: Vec<bool>,
    busy_iterations: usize,
}

pub fn exec(c: &Case) -> Outcome {
    let nch = c.channels.len();
    let hb = matches!(c.fault, Fault::MissedHeartbeats | Fault::StalledClosingThenSilent { .. });
    let ccfg = ClientCfg {
        heartbeat: if hb { 1 } else { 0 },
        ..Default::default()
    };
    let scfg = ServerCfg {
        heartbeat: if hb { 1 } else { 0 },
        ..Default::default()
    };
    let broker = Broker {
        salt: c.salt,
        seq: HashMap::new(),
        filler: false,
        silent: false,
        consumer_tags: Vec::new(),
        dtag: 0,
    };
    let mut sess = open_session(&ccfg, scfg, vec![], broker);
    let mut conn = match sess.conn.take() {
        Some(c) => c,
        None => {
            let _ = sess.broker.stop();
            return Outcome {
                inconclusive: Some(format!("open failed {:?}", sess.open_error)),
                ..Default::default()
            };
        }
    };
    let wire = sess.wire.clone();
    let mut chans = Vec::new();
    for _ in 0..nch {
        match conn.open_channel(None) {
            Ok(ch) => chans.push(ch),
            Err(e) => {
                let _ = sess.broker.stop();
                return Outcome::fail("open-channel-failed", format!("{:?}", e));
            }
        }
    }
    let closed_flag = Arc::new(AtomicBool::new(false));
    let probe_flag = Arc::new(AtomicBool::new(false));
    let (tx, rx) = mpsc::channel::<(usize, ChanReport, Channel)>();
    let (ready_tx, ready_rx) = mpsc::channel::<(u16, Vec<String>)>();
    for (i, ch) in chans.into_iter().enumerate() {
        let (ncons, act) = c.channels[i];
        let tx = tx.clone();
        let ready_tx = ready_tx.clone();
        let closed_flag = closed_flag.clone();
        let probe_flag = probe_flag.clone();
        std::thread::Builder::new()
            .name(format!("avh-c05-{}", i))
            .spawn(move || {
                let chid = ch.channel_id();
                let mut rxs = Vec::new();
                let mut tags = Vec::new();
                for _ in 0..ncons {
                    if let Ok(cn) = ch.basic_consume("q", ConsumerOptions::default()) {
                        tags.push(cn.consumer_tag().to_string());
                        rxs.push(cn.receiver().clone());
                        std::mem::forget(cn);
                    }
                }
                let _ = ready_tx.send((chid, tags));
                let mut rep = ChanReport {
                    in_flight_result: None,
                    first_error_after_ms: None,
                    later_sync: Vec::new(),
                    nowait_after_close: None,
                    consumers_terminated: Vec::new(),
                    busy_iterations: 0,
                };
                let t0 = Instant::now();
                match act {
                    Activity::BlockedCall => {
                        let r = ch.queue_declare("withheld", QueueDeclareOptions::default()).map(|_| ());
                        rep.in_flight_result = Some(match r {
                            Ok(()) => "Ok".into(),
                            Err(e) => format!("{:?}", e),
                        });
                        rep.first_error_after_ms = Some(t0.elapsed().as_millis());
                    }
                    Activity::Busy => {
                        let mut k = 0usize;
                        loop {
                            k += 1;
                            let r = if k % 4 == 0 { ch.qos(0, 0, false) } else { ch.basic_publish("", Publish::new(&[9u8; 300], "busy")) };
                            if let Err(e) = r {
                                rep.in_flight_result = Some(format!("{:?}", e));
                                break;
                            }
                            if k % 8 == 0 {
                                std::thread::sleep(Duration::from_micros(40));
                            }
                            if k > 3_000_000 || t0.elapsed() > Duration::from_secs(10) {
                                rep.in_flight_result = Some("never-failed".into());
                                break;
                            }
                        }
                        rep.busy_iterations = k;
                    }
                    Activity::Idle => {
                        while !probe_flag.load(Ordering::SeqCst) {
                            std::thread::sleep(Duration::from_micros(300));
                            if t0.elapsed() > Duration::from_secs(12) {
                                break;
                            }
                        }
                    }
                }
                // later synchronous calls on this channel must fail
                for _ in 0..2 {
                    rep.later_sync.push(match ch.qos(0, 5, false) {
                        Ok(()) => "Ok".into(),
                        Err(e) => format!("{:?}", e),
                    });
                }
                // consumers terminate
                for r in &rxs {
                    let mut ended = false;
                    let dl = Instant::now() + Duration::from_secs(6);
                    loop {
                        match r.recv_timeout(Duration::from_millis(500)) {
                            Ok(_) => {}
                            Err(crossbeam_channel::RecvTimeoutError::Disconnected) => {
                                ended = true;
                                break;
                            }
                            Err(_) => {
                                if Instant::now() > dl {
                                    break;
                                }
                            }
                        }
                    }
                    rep.consumers_terminated.push(ended);
                }
                // once Connection::close has returned even nowait calls must fail
                let t1 = Instant::now();
                while !closed_flag.load(Ordering::SeqCst) && t1.elapsed() < Duration::from_secs(12) {
                    std::thread::sleep(Duration::from_micros(300));
                }
                rep.nowait_after_close = Some(match ch.basic_publish("", Publish::new(b"after", "k")) {
                    Ok(()) => "Ok".into(),
                    Err(e) => format!("{:?}", e),
                });
                let _ = tx.send((i, rep, ch));
            })
            .expect("spawn");
    }
    drop(tx);
    drop(ready_tx);
    let mut all_tags = Vec::new();
    for _ in 0..nch {
        match ready_rx.recv_timeout(Duration::from_secs(8)) {
            Ok((chid, tags)) => {
                for t in tags {
                    all_tags.push((chid, t));
                }
            }
            Err(_) => {
                wire.push_eof();
                probe_flag.store(true, Ordering::SeqCst);
                closed_flag.store(true, Ordering::SeqCst);
                let _ = sess.broker.stop();
                return Outcome::hang("setup-hang", "channel threads did not become ready");
            }
        }
    }
    // give blocked / busy threads a moment to get going
    std::thread::sleep(Duration::from_micros(300 + (c.salt % 1500)));
    let first_consumer = all_tags.first().cloned();
    // arm the fault
    let base = wire.total_pushed();
    let t_fault = Instant::now();
    let mut want: Vec<String> = Vec::new();
    let mut half_sent = false;
    if c.half_content {
        if let Some((chid, tag)) = &first_consumer {
            // method + header + part of the body: left half assembled when the fault strikes
            let mut f = content_frames(
                *chid,
                AMQPClass::Basic(Basic::Deliver(basic::Deliver {
                    consumer_tag: tag.clone(),
                    delivery_tag: 77,
                    redelivered: false,
                    exchange: "x".into(),
                    routing_key: "half".into(),
                })),
                &amiquip::AmqpProperties::default(),
                &[1u8; 200],
                &[60, 140],
            );
            f.truncate(3);
            let mut bytes = Vec::new();
            for fr in &f {
                bytes.extend_from_slice(&encode(fr));
            }
            // no filler deliveries on that channel in this variant (they would be a violation)
            sess.broker.call(|b, _| b.consumer_tags.clear());
            wire.push(bytes);
            half_sent = true;
        }
    } else {
        let tags2 = all_tags.clone();
        sess.broker.call(move |b, _| b.consumer_tags = tags2);
    }
    match &c.fault {
        Fault::ReadEof { offset } => {
            let at = wire.total_pushed() + (*offset as usize % 3000);
            wire.fault_at(at, InItem::Eof);
            sess.broker.call(|b, _| b.filler = true);
            want.push("UnexpectedSocketClose".into());
        }
        Fault::ReadErr { offset, kind } => {
            let at = wire.total_pushed() + (*offset as usize % 3000);
            wire.fault_at(at, InItem::Err(*kind));
            sess.broker.call(|b, _| b.filler = true);
            want.push(format!("IoErrorReadingSocket {{ source: Kind({:?}) }}", kind.kind()));
            want.push("IoErrorReadingSocket".into());
        }
        Fault::WriteErr { nth, kind } => {
            let mut steps = vec![WStep::Accept(1 << 20); *nth as usize % 6];
            steps.push(WStep::Err(*kind));
            wire.push_wsteps(&steps);
            // make sure the client writes: ask every idle party to probe, and send it something
            // to answer (a server cancel for an unknown tag is answered with CancelOk)
            sess.broker.call(|b, _| b.filler = true);
            want.push("IoErrorWritingSocket".into());
        }
        Fault::Malformed { offset, variant } => {
            let filler_frames = (*offset as usize % 1500) / 8;
            let mut bytes = Vec::new();
            for _ in 0..filler_frames {
                bytes.extend_from_slice(&encode(&AMQPFrame::Heartbeat(0)));
            }
            bytes.extend_from_slice(&match variant % 3 {
                0 => vec![1u8, 0, 1, 0, 0, 0, 2, 0xAA, 0xBB, 0xCD],           // wrong frame-end octet
                1 => vec![9u8, 0, 1, 0, 0, 0, 2, 0xAA, 0xBB, 0xCE],           // unknown frame type
                _ => vec![1u8, 0, 1, 0, 0, 0, 4, 0x27, 0x0F, 0x00, 0x0A, 0xCE], // unknown class 9999
            });
            wire.push(bytes);
            want.push("MalformedFrame".into());
        }
        Fault::ServerClose { code, text } => {
            let (code, text) = (*code, text.clone());
            let t2 = text.clone();
            sess.broker.cmd(move |_b, io| {
                io.send_method(
                    0,
                    AMQPClass::Connection(Conn::Close(connection::Close {
                        reply_code: code,
                        reply_text: t2,
                        class_id: 0,
                        method_id: 0,
                    })),
                );
            });
            want.push(format!("ServerClosedConnection {{ code: {}, message: {:?} }}", code, text));
        }
        Fault::ForceClientException => {
            let f = AMQPFrame::Header(
                0,
                60,
                Box::new(AMQPContentHeader {
                    class_id: 60,
                    weight: 0,
                    body_size: 1,
                    properties: Default::default(),
                }),
            );
            wire.push(encode(&f));
            want.push("ClientException".into());
        }
        Fault::ClientExceptionLongText { pad } => {
            let challenge = format!("{}{}", "x".repeat(*pad as usize), "\u{65e5}".repeat(100));
            wire.push(encode(&AMQPFrame::Method(0, AMQPClass::Connection(Conn::Secure(connection::Secure { challenge })))));
            want.push("ClientException".into());
        }
        Fault::MissedHeartbeats => {
            sess.broker.call(|b, _| b.silent = true);
            want.push("MissedServerHeartbeats".into());
        }
        Fault::StalledClosingThenSilent { server_close } => {
            // nothing can be written any more; then the close / the offending frame; then silence
            wire.set_budget(Some(0));
            sess.broker.call(|b, _| b.silent = true);
            if *server_close {
                wire.push(encode(&AMQPFrame::Method(
                    0,
                    AMQPClass::Connection(Conn::Close(connection::Close {
                        reply_code: 320,
                        reply_text: "going away".into(),
                        class_id: 0,
                        method_id: 0,
                    })),
                )));
                want.push("ServerClosedConnection { code: 320, message: \"going away\" }".into());
            } else {
                let f = AMQPFrame::Header(
                    0,
                    60,
                    Box::new(AMQPContentHeader {
                        class_id: 60,
                        weight: 0,
                        body_size: 1,
                        properties: Default::default(),
                    }),
                );
                wire.push(encode(&f));
                want.push("ClientException".into());
            }
            // two things went wrong; either is a root cause
            want.push("MissedServerHeartbeats".into());
        }
        Fault::StalledClosingThenEof { server_close } => {
            wire.set_budget(Some(0));
            // (the close travels as raw bytes: the broker must not answer anything after it)
            sess.broker.call(|b, _| b.silent = true);
            if *server_close {
                wire.push(encode(&AMQPFrame::Method(
                    0,
                    AMQPClass::Connection(Conn::Close(connection::Close {
                        reply_code: 320,
                        reply_text: "going away".into(),
                        class_id: 0,
                        method_id: 0,
                    })),
                )));
                want.push("ServerClosedConnection { code: 320, message: \"going away\" }".into());
            } else {
                let f = AMQPFrame::Header(
                    0,
                    60,
                    Box::new(AMQPContentHeader {
                        class_id: 60,
                        weight: 0,
                        body_size: 1,
                        properties: Default::default(),
                    }),
                );
                wire.push(encode(&f));
                want.push("ClientException".into());
            }
            std::thread::sleep(Duration::from_millis(5));
            wire.push_eof();
            want.push("UnexpectedSocketClose".into());
        }
    }
    let _ = base;
    // for a write fault the client must be writing: the connection thread opens channels until it fails
    if matches!(c.fault, Fault::WriteErr { .. }) {
        for _ in 0..40 {
            match conn.open_channel(None) {
                Ok(ch) => crate::run::bury(ch),
                Err(_) => break,
            }
        }
    }
    // wait for the connection to die (the transport is released when the I/O thread exits)
    let died = wire.wait_until(Duration::from_secs(if hb { 8 } else { 6 }), |st| st.dropped);
    let died_after = t_fault.elapsed();
    probe_flag.store(true, Ordering::SeqCst);
    if !died {
        // nobody noticed: only a violation if the fault was visible to the client
        let reached = match &c.fault {
            Fault::ReadEof { .. } | Fault::ReadErr { .. } => !wire.fault_pending() && (wire.lock().eof_returned || wire.lock().read_err_returned),
            Fault::WriteErr { .. } => wire.lock().write_err_returned,
            _ => true,
        };
        wire.push_eof();
        closed_flag.store(true, Ordering::SeqCst);
        let _ = sess.broker.stop();
        if reached {
            return Outcome::hang("connection-did-not-end-after-fault", format!("{:?}: the I/O thread was still running 6 s after the fault", c.fault));
        }
        // the fault never became visible: a trivial case
        return Outcome::pass(false).label("fault-not-reached");
    }
    let close = timed(CALL_TIMEOUT, "avh-c05-close", move || conn.close());
    closed_flag.store(true, Ordering::SeqCst);
    let mut reports: Vec<Option<ChanReport>> = (0..nch).map(|_| None).collect();
    let mut back = Vec::new();
    for _ in 0..nch {
        match rx.recv_timeout(Duration::from_secs(14)) {
            Ok((i, r, ch)) => {
                reports[i] = Some(r);
                back.push(ch);
            }
            Err(_) => {
                let _ = sess.broker.stop();
                return Outcome::hang(
                    "caller-not-released",
                    format!("{:?}: a channel thread is still blocked after the connection died; finished {:?}", c.fault, reports.iter().map(|r| r.is_some()).collect::<Vec<_>>()),
                );
            }
        }
    }
    drop(back);
    let io_thread = wire.io_thread();
    let _ = sess.broker.stop();
    if let Some(t) = io_thread {
        let p = take_panics(t);
        if !p.is_empty() {
            return Outcome::fail("io-thread-panic", format!("{} at {}", p[0].message, p[0].location));
        }
    }
    let ctx = format!("fault {:?}, channels {:?}, half_content {}", c.fault, c.channels, half_sent);
    let close = match close {
        Some(r) => r,
        None => return Outcome::hang("close-hang", format!("Connection::close did not return\n{}", ctx)),
    };
    let got = format!("{:?}", close);
    let root_ok = match &close {
        Err(e) => {
            let s = format!("{:?}", e);
            want.iter().any(|w| s.starts_with(w.as_str()) || s == *w)
                && match (&c.fault, e) {
                    (Fault::ReadErr { kind, .. }, Error::IoErrorReadingSocket { source }) => source.kind() == kind.kind(),
                    (Fault::WriteErr { kind, .. }, Error::IoErrorWritingSocket { source }) => source.kind() == kind.kind(),
                    _ => true,
                }
        }
        Ok(()) => false,
    };
    if !root_ok {
        return Outcome::fail(
            format!("close-does-not-report-root-cause:{}", format!("{:?}", c.fault).split(|ch| ch == ' ' || ch == '{').next().unwrap_or("")),
            format!("Connection::close returned {}, expected {:?}\n{}", got, want, ctx),
        );
    }
    if !wire.is_dropped() {
        return Outcome::fail("transport-not-released", ctx);
    }
    let mut in_flight = false;
    for (i, rep) in reports.iter().enumerate() {
        let rep = rep.as_ref().unwrap();
        let (_, act) = c.channels[i];
        match act {
            Activity::BlockedCall | Activity::Busy => {
                match rep.in_flight_result.as_deref() {
                    Some("Ok") | Some("never-failed") | None => {
                        return Outcome::fail("call-in-flight-not-failed", format!("channel idx {} ({:?}): {:?}\n{}", i, act, rep.in_flight_result, ctx));
                    }
                    _ => {}
                }
                in_flight = true;
            }
            Activity::Idle => {}
        }
        if rep.later_sync.iter().any(|r| r == "Ok") {
            return Outcome::fail("later-call-succeeded", format!("channel idx {}: {:?}\n{}", i, rep.later_sync, ctx));
        }
        if rep.nowait_after_close.as_deref() == Some("Ok") {
            return Outcome::fail("nowait-call-succeeded-after-close-returned", format!("channel idx {}\n{}", i, ctx));
        }
        if rep.consumers_terminated.iter().any(|t| !*t) {
            return Outcome::fail("consumer-queue-not-terminated", format!("channel idx {}: {:?}\n{}", i, rep.consumers_terminated, ctx));
        }
    }
    let _ = died_after;
    let mut o = Outcome::pass(in_flight || half_sent);
    o.labels.push(format!("{:?}", c.fault).split(|ch| ch == ' ' || ch == '{').next().unwrap_or("").to_string());
    if in_flight {
        o.labels.push("call-in-flight".into());
    }
    if half_sent {
        o.labels.push("content-half-assembled".into());
    }
    o
}

fn strat(_t: Tier) -> BoxedStrategy<Case> {
    let kind = || prop::sample::select(IoKind::ALL.to_vec());
    let fault = prop_oneof![
        20 => any::<u16>().prop_map(|offset| Fault::ReadEof { offset }),
        20 => (any::<u16>(), kind()).prop_map(|(offset, kind)| Fault::ReadErr { offset, kind }),
        20 => (any::<u8>(), kind()).prop_map(|(nth, kind)| Fault::WriteErr { nth, kind }),
        12 => (any::<u16>(), any::<u8>()).prop_map(|(offset, variant)| Fault::Malformed { offset, variant }),
        10 => (any::<u16>(), crate::gen::short_string()).prop_map(|(code, text)| Fault::ServerClose { code, text }),
        6 => Just(Fault::ForceClientException),
        4 => (0u8..=255).prop_map(|pad| Fault::ClientExceptionLongText { pad }),
        1 => Just(Fault::MissedHeartbeats),
        1 => any::<bool>().prop_map(|server_close| Fault::StalledClosingThenSilent { server_close }),
        4 => any::<bool>().prop_map(|server_close| Fault::StalledClosingThenEof { server_close }),
    ];
    let act = prop_oneof![2 => Just(Activity::Idle), 3 => Just(Activity::BlockedCall), 3 => Just(Activity::Busy)];
    (proptest::collection::vec((0u8..=2, act), 1..=4), fault, prop::bool::weighted(0.25), any::<u64>())
        .prop_map(|(channels, fault, half_content, salt)| Case {
            channels,
            fault,
            half_content,
            salt,
        })
        .boxed()
}

pub fn parts() -> Vec<Box<dyn PartDyn>> {
    vec![Box::new(Part::<Case> {
        name: "e2e",
        rule: "live sessions (1-4 channels on threads: idle, with a synchronous call left in flight by a withheld reply, or publishing and calling in a loop; 0-2 consumers each; optionally a delivery left half assembled) hit by one fault: EOF or an I/O error (5 kinds) at a generated byte offset of the server->client stream, an I/O error on the n-th client write, a malformed frame (3 constructions) at a frame boundary, a server Connection.Close(code, text), a frame forcing the client-exception path (content on channel 0, or an unexpected method whose description is long, not ASCII and cut at a generated alignment), a server close or client exception whose answer cannot be flushed (transport stalled) followed by the end of the stream, or (rarely, 1 s heartbeat) server silence; oracle: the connection ends and the transport is released, every call in flight fails, later synchronous calls fail, nowait calls fail once close has returned, every consumer queue terminates, Connection::close names the root cause (variant, io kind, code/text), no panic, everything within seconds; non-trivial = the fault struck with a call in flight on another thread or with content half assembled; distinct by case hash",
        cases: |t| t.pick(2000, 30_000),
        threads: 12,
        strategy: strat,
        exec,
        enumerate: None,
        shrink_budget: 100,
        confirm_runs: 2,
            fuzz: None,
            watchdog_s: 60,
    })]
}
