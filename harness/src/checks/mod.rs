pub mod c02;
pub mod c03;
pub mod c04;
pub mod c05;
pub mod c06;
pub mod c07;
pub mod c08;
pub mod c10;
pub mod c11;
pub mod c12;
pub mod c13;
pub mod c14;
pub mod c15;
pub mod c16;
pub mod c17;
pub mod c18;
pub mod c19;
pub mod c20;

use crate::run::PartDyn;

pub fn parts_for(property: &str) -> Option<Vec<Box<dyn PartDyn>>> {
    Some(match property {
        "C02" => c02::parts(),
        "C03" => c03::parts(),
        "C01" => c04::parts_c01(),
        "C04" => c04::parts(),
        "C08" => c08::parts(),
        "C09" => c04::parts_c09(),
        "C05" => c05::parts(),
        "C06" => c06::parts(),
        "C07" => c07::parts(),
        "C10" => c10::parts(),
        "C11" => c11::parts(),
        "C12" => c12::parts(),
        "C13" => c13::parts(),
        "C14" => c14::parts(),
        "C15" => c15::parts(),
        "C16" => c16::parts(),
        "C17" => c17::parts(),
        "C18" => c18::parts(),
        "C19" => c19::parts(),
        "C20" => c20::parts(),
        _ => return None,
    })
}

pub const ALL: &[&str] = &["C01", "C02", "C03", "C04", "C05", "C06", "C07", "C08", "C09", "C10", "C11", "C12", "C13", "C14", "C15", "C16", "C17", "C18", "C19", "C20"];
