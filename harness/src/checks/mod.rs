pub mod c02;
pub mod c14;

use crate::run::PartDyn;

pub fn parts_for(property: &str) -> Option<Vec<Box<dyn PartDyn>>> {
    Some(match property {
        "C02" => c02::parts(),
        "C14" => c14::parts(),
        _ => return None,
    })
}

pub const ALL: &[&str] = &["C02", "C14"];
