//! C19 — an AMQP URL means the same connection parameters for every URL.

use crate::codec::{encode, StreamDecoder};
use crate::gen;
use crate::run::{catch, Outcome, Part, PartDyn, Tier};
use crate::session::timed;
use amiquip::{Auth, Connection, Error};
use amq_protocol::frame::AMQPFrame;
use amq_protocol::protocol::connection::AMQPMethod as Conn;
use amq_protocol::protocol::{connection, AMQPClass};
use proptest::collection::vec;
use proptest::prelude::*;
use serde::{Deserialize, Serialize};
use std::io::{Read, Write};
use std::net::TcpListener;
use std::time::Duration;

#[derive(Clone, Debug, Serialize, Deserialize, PartialEq)]
pub enum Param {
    Heartbeat(String),
    ChannelMax(String),
    Timeout(String),
    AuthMechanism(String),
    Unknown(String, String),
}

#[derive(Clone, Debug, Serialize, Deserialize, PartialEq)]
pub struct Case {
    pub scheme: String,
    pub host: Option<String>,
    pub port: Option<u16>,
    pub user: Option<String>,
    pub pass: Option<String>,
    /// None = no path at all; Some("") = "/" only; Some(v) = "/" + encoded v
    pub vhost: Option<String>,
    pub extra_segments: Vec<String>,
    pub params: Vec<Param>,
    /// write RFC 3986 sub-delims (! $ & ' ( ) * + , ; =) of user, password and path segments
    /// literally instead of percent-encoding them: both spellings are the same URL component
    /// (in particular a literal '+' is a plus sign; only form-encoded query strings read it
    /// as a space)
    #[serde(default)]
    pub literal_sub_delims: bool,
}

fn enc_component(s: &str, literal_sub_delims: bool) -> String {
    let mut out = String::new();
    for ch in s.chars() {
        if literal_sub_delims && ch.is_ascii() && b"!$&'()*+,;=".contains(&(ch as u8)) {
            out.push(ch);
        } else {
            out.push_str(&enc(&ch.to_string()));
        }
    }
    out
}

fn enc(s: &str) -> String {
    // percent-encode everything except RFC 3986 unreserved characters
    let mut out = String::new();
    for b in s.bytes() {
        if b.is_ascii_alphanumeric() || b == b'-' || b == b'.' || b == b'_' || b == b'~' {
            out.push(b as char);
        } else {
            out.push_str(&format!("%{:02X}", b));
        }
    }
    out
}

pub fn assemble(c: &Case) -> String {
    let mut u = format!("{}://", c.scheme);
    let has_userinfo = c.user.is_some() || c.pass.is_some();
    if has_userinfo {
        if let Some(us) = &c.user {
            u.push_str(&enc_component(us, c.literal_sub_delims));
        }
        if let Some(p) = &c.pass {
            u.push(':');
            u.push_str(&enc_component(p, c.literal_sub_delims));
        }
        u.push('@');
    }
    if let Some(h) = &c.host {
        u.push_str(h);
    }
    if let Some(p) = c.port {
        u.push_str(&format!(":{}", p));
    }
    if let Some(v) = &c.vhost {
        u.push('/');
        u.push_str(&enc_component(v, c.literal_sub_delims));
        for s in &c.extra_segments {
            u.push('/');
            u.push_str(&enc_component(s, c.literal_sub_delims));
        }
    }
    if !c.params.is_empty() {
        u.push('?');
        let parts: Vec<String> = c
            .params
            .iter()
            .map(|p| match p {
                Param::Heartbeat(v) => format!("heartbeat={}", enc(v)),
                Param::ChannelMax(v) => format!("channel_max={}", enc(v)),
                Param::Timeout(v) => format!("connection_timeout={}", enc(v)),
                Param::AuthMechanism(v) => format!("auth_mechanism={}", enc(v)),
                Param::Unknown(k, v) => format!("{}={}", enc(k), enc(v)),
            })
            .collect();
        u.push_str(&parts.join("&"));
    }
    u
}

/// Make a generated case sound (only shapes whose meaning the property defines).
pub fn normalise(c: &Case) -> Case {
    let mut c = c.clone();
    // userinfo / port need a host
    if c.host.is_none() {
        c.user = None;
        c.pass = None;
        c.port = None;
    }
    // explicitly empty components are ambiguous: treat as absent
    if c.user.as_deref() == Some("") {
        c.user = None;
    }
    if c.pass.as_deref() == Some("") {
        c.pass = None;
    }
    // dot segments are rewritten by URL normalisation itself
    let fix = |s: &mut String| {
        if s == "." || s == ".." {
            s.push('x');
        }
    };
    if let Some(v) = c.vhost.as_mut() {
        fix(v);
    }
    if c.vhost.is_none() || c.vhost.as_deref() == Some("") {
        c.extra_segments.clear();
    }
    // an empty extra segment (a trailing slash behind the vhost, "//" further on) is a path
    // segment like any other: it stays
    for s in c.extra_segments.iter_mut() {
        fix(s);
    }
    for p in c.params.iter_mut() {
        if let Param::Unknown(k, _) = p {
            if k.is_empty() || ["heartbeat", "channel_max", "connection_timeout", "auth_mechanism"].contains(&k.as_str()) {
                k.push_str("_x");
            }
        }
    }
    c
}

#[derive(Debug, Clone, PartialEq)]
pub enum Want {
    BadScheme,
    ExtraPath,
    Unsupported(String),
    BadHeartbeat,
    BadChannelMax,
    BadTimeout,
    BadMechanism(String),
}

#[derive(Debug, Clone, PartialEq)]
pub struct Decoded {
    pub secure: bool,
    pub host: String,
    pub port: u16,
    pub auth: Auth,
    pub vhost: String,
    pub heartbeat: Vec<u16>,
    pub channel_max: Vec<u16>,
    pub timeout: Vec<Option<Duration>>,
}

/// Expected meaning of the case, by construction: either a set of acceptable errors or the values.
pub fn expect(c: &Case) -> Result<Decoded, Vec<Want>> {
    let mut errs = Vec::new();
    let scheme = c.scheme.to_ascii_lowercase();
    let secure = match scheme.as_str() {
        "amqp" => false,
        "amqps" => true,
        _ => {
            errs.push(Want::BadScheme);
            false
        }
    };
    if !c.extra_segments.is_empty() {
        errs.push(Want::ExtraPath);
    }
    let mut heartbeat = Vec::new();
    let mut channel_max = Vec::new();
    let mut timeout = Vec::new();
    let mut external = false;
    for p in &c.params {
        match p {
            Param::Heartbeat(v) => match v.parse::<u16>() {
                Ok(x) if plain_digits(v) => heartbeat.push(x),
                _ => errs.push(Want::BadHeartbeat),
            },
            Param::ChannelMax(v) => match v.parse::<u16>() {
                Ok(x) if plain_digits(v) => channel_max.push(x),
                _ => errs.push(Want::BadChannelMax),
            },
            Param::Timeout(v) => match v.parse::<u64>() {
                Ok(x) if plain_digits(v) => timeout.push(Some(Duration::from_millis(x))),
                _ => errs.push(Want::BadTimeout),
            },
            Param::AuthMechanism(v) => {
                if v == "external" {
                    external = true;
                } else {
                    errs.push(Want::BadMechanism(v.clone()));
                }
            }
            Param::Unknown(k, _) => errs.push(Want::Unsupported(k.clone())),
        }
    }
    if !errs.is_empty() {
        return Err(errs);
    }
    let auth = if external {
        Auth::External
    } else {
        Auth::Plain {
            username: c.user.clone().unwrap_or_else(|| "guest".into()),
            password: c.pass.clone().unwrap_or_else(|| "guest".into()),
        }
    };
    Ok(Decoded {
        secure,
        host: c.host.clone().unwrap_or_else(|| "localhost".into()),
        port: c.port.unwrap_or(if secure { 5671 } else { 5672 }),
        auth,
        vhost: match c.vhost.as_deref() {
            None | Some("") => "/".to_string(),
            Some(v) => v.to_string(),
        },
        heartbeat,
        channel_max,
        timeout,
    })
}

fn plain_digits(v: &str) -> bool {
    !v.is_empty() && v.bytes().all(|b| b.is_ascii_digit())
}

fn matches_want(e: &Error, w: &Want) -> bool {
    match (e, w) {
        (Error::InvalidUrlScheme { .. }, Want::BadScheme) => true,
        (Error::ExtraUrlPathSegments { .. }, Want::ExtraPath) => true,
        (Error::UrlUnsupportedParameter { parameter, .. }, Want::Unsupported(k)) => parameter == k,
        (Error::UrlParseHeartbeat { .. }, Want::BadHeartbeat) => true,
        (Error::UrlParseChannelMax { .. }, Want::BadChannelMax) => true,
        (Error::UrlParseConnectionTimeout { .. }, Want::BadTimeout) => true,
        (Error::UrlInvalidAuthMechanism { mechanism, .. }, Want::BadMechanism(m)) => mechanism == m,
        _ => false,
    }
}

pub fn exec(c0: &Case) -> Outcome {
    let c = normalise(c0);
    let url = assemble(&c);
    let want = expect(&c);
    let got = match catch(std::panic::AssertUnwindSafe(|| amiquip::verif::decode_url(&url))) {
        Ok(g) => g,
        Err(p) => return Outcome::fail("url-decode-panic", format!("{}: {} ({})", url, p.message, p.location)),
    };
    let mut labels: Vec<String> = Vec::new();
    match (&want, &got) {
        (Err(ws), Err(e)) => {
            if !ws.iter().any(|w| matches_want(e, w)) {
                return Outcome::fail(
                    "url-wrong-error",
                    format!("{}\n  got error {:?}\n  acceptable: {:?}", url, e, ws),
                );
            }
            labels.push("error-case".into());
        }
        (Err(ws), Ok(d)) => {
            let sig = match &ws[0] {
                Want::BadScheme => "url-bad-scheme-accepted",
                Want::ExtraPath => "url-extra-path-accepted",
                Want::Unsupported(_) => "url-unknown-parameter-accepted",
                Want::BadMechanism(_) => "url-other-auth-mechanism-accepted",
                _ => "url-bad-number-accepted",
            };
            return Outcome::fail(sig, format!("{}\n  decoded to {:?}\n  expected one of {:?}", url, d, ws));
        }
        (Ok(w), Err(e)) => {
            return Outcome::fail("url-valid-rejected", format!("{}\n  rejected with {:?}\n  expected {:?}", url, e, w));
        }
        (Ok(w), Ok(d)) => {
            let mut diffs = Vec::new();
            if d.secure != w.secure {
                diffs.push(("url-scheme", format!("secure={} expected {}", d.secure, w.secure)));
            }
            if d.host.to_ascii_lowercase() != w.host.to_ascii_lowercase() {
                diffs.push(("url-host", format!("host={:?} expected {:?}", d.host, w.host)));
            }
            if d.port != w.port {
                diffs.push(("url-port", format!("port={} expected {}", d.port, w.port)));
            }
            if d.auth != w.auth {
                let sig = match (&d.auth, &w.auth) {
                    (Auth::Plain { .. }, Auth::External) => "url-external-auth-lost",
                    (Auth::External, _) => "url-external-auth-invented",
                    _ => "url-credentials",
                };
                diffs.push((sig, format!("auth={:?} expected {:?}", d.auth, w.auth)));
            }
            if d.virtual_host != w.vhost {
                diffs.push(("url-vhost", format!("vhost={:?} expected {:?}", d.virtual_host, w.vhost)));
            }
            let hb_ok = if w.heartbeat.is_empty() { d.heartbeat == 60 } else { w.heartbeat.contains(&d.heartbeat) };
            if !hb_ok {
                diffs.push(("url-heartbeat", format!("heartbeat={} expected {:?} (default 60)", d.heartbeat, w.heartbeat)));
            }
            let cm_ok = if w.channel_max.is_empty() { d.channel_max == 0 } else { w.channel_max.contains(&d.channel_max) };
            if !cm_ok {
                diffs.push(("url-channel-max", format!("channel_max={} expected {:?} (default 0)", d.channel_max, w.channel_max)));
            }
            let to_ok = if w.timeout.is_empty() { d.connection_timeout.is_none() } else { w.timeout.contains(&d.connection_timeout) };
            if !to_ok {
                diffs.push(("url-connection-timeout", format!("timeout={:?} expected {:?}", d.connection_timeout, w.timeout)));
            }
            if d.frame_max != 0 || d.locale != "en_US" || d.information.is_some() {
                diffs.push(("url-other-options-not-default", format!("frame_max={} locale={} information={:?}", d.frame_max, d.locale, d.information)));
            }
            if let Some((sig, m)) = diffs.into_iter().next() {
                return Outcome::fail(sig, format!("{}\n  {}", url, m));
            }
            // the secure-only open functions reject every amqp:// URL
            if !w.secure {
                let u2 = url.clone();
                match catch(std::panic::AssertUnwindSafe(|| Connection::open(&u2))) {
                    Ok(Err(Error::InsecureUrl { .. })) => {}
                    Ok(Err(e)) => return Outcome::fail("insecure-url-not-rejected", format!("{}: Connection::open -> {:?}", url, e)),
                    Ok(Ok(_)) => return Outcome::fail("insecure-url-not-rejected", format!("{}: Connection::open succeeded", url)),
                    Err(p) => return Outcome::fail("url-decode-panic", format!("{}: {}", url, p.message)),
                }
            }
        }
    }
    let pct = url.contains('%');
    let defaulted = c.host.is_none() || c.port.is_none() || c.user.is_none() != c.pass.is_none() || c.vhost.as_deref().map_or(true, |v| v.is_empty());
    if pct {
        labels.push("percent-encoded".into());
    }
    if defaulted {
        labels.push("defaulted-component".into());
    }
    if c.params.len() >= 2 {
        labels.push("multi-param".into());
    }
    let mut o = Outcome::pass(pct || defaulted || want.is_err());
    o.labels = labels;
    o
}

fn numeric(max_ok: u64) -> BoxedStrategy<String> {
    prop_oneof![
        4 => (0u64..=max_ok).prop_map(|v| v.to_string()),
        1 => Just(max_ok.to_string()),
        1 => Just((max_ok as u128 + 1).to_string()),
        1 => Just("0".to_string()),
        1 => Just("007".to_string()),
        1 => Just(String::new()),
        1 => Just("-1".to_string()),
        1 => Just("abc".to_string()),
        1 => Just("1.5".to_string()),
        1 => Just("18446744073709551616".to_string()),
    ]
    .boxed()
}

fn strat(_t: Tier) -> BoxedStrategy<Case> {
    let scheme = prop_oneof![6 => Just("amqp"), 4 => Just("amqps"), 1 => Just("AMQP"), 1 => Just("http"), 1 => Just("amqpx")].prop_map(String::from);
    let host = prop_oneof![
        2 => Just(None),
        2 => Just(Some("localhost".to_string())),
        2 => Just(Some("127.0.0.1".to_string())),
        2 => Just(Some("example.com".to_string())),
        1 => Just(Some("[::1]".to_string())),
    ];
    // strings that look like percent escapes themselves must survive exactly one decoding
    let comp = || prop_oneof![2 => Just(None), 3 => gen::short_string_nonempty().prop_map(Some), 1 => "[@:/%? #]{1,6}".prop_map(Some), 1 => "[%0-9A-Fa-f]{1,8}".prop_map(Some), 2 => "[a-z!$&'()*+,;=]{1,10}".prop_map(Some)];
    let vhost = prop_oneof![
        1 => "[%0-9A-Fa-f/]{1,8}".prop_map(Some),
        2 => Just(None),
        2 => Just(Some(String::new())),
        4 => gen::short_string_nonempty().prop_map(Some),
        1 => "[a-z/%]{1,8}".prop_map(Some),
        2 => "[a-z!$&'()*+,;=]{1,10}".prop_map(Some),
    ];
    let param = prop_oneof![
        3 => numeric(65535).prop_map(Param::Heartbeat),
        3 => numeric(65535).prop_map(Param::ChannelMax),
        3 => numeric(u64::MAX).prop_map(Param::Timeout),
        2 => prop_oneof![3 => Just("external"), 1 => Just("plain"), 1 => Just("amqplain"), 1 => Just("gssapi"), 1 => Just("x")].prop_map(|s| Param::AuthMechanism(s.to_string())),
        1 => ("[a-z_]{1,10}", "[a-z0-9]{0,5}").prop_map(|(k, v)| Param::Unknown(k, v)),
    ];
    (
        scheme,
        host,
        prop_oneof![2 => Just(None), 3 => (1u16..=65535).prop_map(Some)],
        comp(),
        comp(),
        vhost,
        prop_oneof![6 => Just(Vec::new()), 1 => vec("[a-z]{1,5}", 1..3), 1 => vec(prop_oneof![1 => Just(String::new()), 1 => "[a-z]{1,3}".prop_map(|s| s)], 1..3)],
        prop_oneof![2 => Just(Vec::new()), 5 => vec(param, 1..5)],
        prop::bool::weighted(0.4),
    )
        .prop_map(|(scheme, host, port, user, pass, vhost, extra_segments, params, literal_sub_delims)| {
            let mut c = Case {
                scheme,
                host,
                port,
                user,
                pass,
                vhost,
                extra_segments,
                params,
                literal_sub_delims,
            };
            // special schemes require a host
            if c.scheme == "http" && c.host.is_none() {
                c.host = Some("example.com".into());
            }
            c
        })
        .boxed()
}

// ---------------------------------------------------------------------------------------------
// end to end over loopback TCP

#[derive(Clone, Debug, Serialize, Deserialize, PartialEq)]
pub struct NetCase {
    pub user: Option<String>,
    pub pass: Option<String>,
    pub vhost: Option<String>,
    pub heartbeat: Option<u16>,
    pub channel_max: Option<u16>,
    pub external: bool,
    /// the URL names the loopback broker as 127.0.0.1 (false) or as the IPv6 literal [::1] (true)
    #[serde(default)]
    pub ipv6: bool,
    /// the URL names the broker by a host name that resolves to three addresses of which only
    /// the last one tried has a listener (needs the harness's own DNS responder on
    /// 127.0.0.1:53, which the sandbox's resolv.conf points to; falls back to 127.0.0.1 if it
    /// cannot be bound): the parameters must reach whichever address finally answers
    #[serde(default)]
    pub multi_addr: bool,
    /// sub-delims of the credentials and the vhost are written literally in the URL
    #[serde(default)]
    pub sub_delims_literal: bool,
    /// (with multi_addr) the first address of the name does not refuse the connection but
    /// accepts it and stays silent, and the URL carries connection_timeout=300: the attempt on
    /// the next address must again have the whole timeout and all the other parameters
    #[serde(default)]
    pub silent_first: bool,
}

const MULTI_NAME: &str = "avh-multi.test";

/// A minimal DNS responder for MULTI_NAME: A -> 127.0.0.1, 127.0.0.2, 127.0.0.3; anything else
/// -> empty NOERROR answer. Started once per process; false if port 53 cannot be bound.
fn ensure_dns() -> bool {
    static DNS: std::sync::OnceLock<bool> = std::sync::OnceLock::new();
    *DNS.get_or_init(|| {
        let sock = match std::net::UdpSocket::bind("127.0.0.1:53") {
            Ok(s) => s,
            Err(_) => return false,
        };
        let _ = std::thread::Builder::new().name("avh-dns".into()).spawn(move || {
            let mut buf = [0u8; 512];
            loop {
                let (n, from) = match sock.recv_from(&mut buf) {
                    Ok(x) => x,
                    Err(_) => return,
                };
                if n < 17 {
                    continue;
                }
                let q = &buf[12..n];
                let mut i = 0usize;
                let mut name = String::new();
                while i < q.len() && q[i] != 0 {
                    let l = q[i] as usize;
                    if i + 1 + l > q.len() {
                        break;
                    }
                    if !name.is_empty() {
                        name.push('.');
                    }
                    name.push_str(&String::from_utf8_lossy(&q[i + 1..i + 1 + l]).to_ascii_lowercase());
                    i += l + 1;
                }
                if i + 5 > q.len() {
                    continue;
                }
                let qtype = u16::from_be_bytes([q[i + 1], q[i + 2]]);
                let mut ans = Vec::new();
                let mut count = 0u16;
                if qtype == 1 && name == MULTI_NAME {
                    for last in [1u8, 2, 3] {
                        ans.extend_from_slice(&[0xc0, 0x0c, 0, 1, 0, 1, 0, 0, 0, 0, 0, 4, 127, 0, 0, last]);
                        count += 1;
                    }
                }
                let mut resp = Vec::new();
                resp.extend_from_slice(&buf[..2]);
                resp.extend_from_slice(&[0x81, 0x80, 0, 1]);
                resp.extend_from_slice(&count.to_be_bytes());
                resp.extend_from_slice(&[0, 0, 0, 0]);
                resp.extend_from_slice(&q[..i + 5]);
                resp.extend_from_slice(&ans);
                let _ = sock.send_to(&resp, from);
            }
        });
        // does the resolver really come to us?
        use std::net::ToSocketAddrs;
        (MULTI_NAME, 5672u16).to_socket_addrs().map(|a| a.count() >= 3).unwrap_or(false)
    })
}

struct Seen {
    mechanism: String,
    response: String,
    vhost: String,
    tune_ok: (u16, u32, u16),
}

fn tcp_broker(listener: TcpListener, client_done: std::sync::Arc<std::sync::atomic::AtomicBool>) -> Option<Seen> {
    // wait for the client, but not beyond its own end (it may fail before it ever connects)
    listener.set_nonblocking(true).ok()?;
    let t0 = std::time::Instant::now();
    let mut s = loop {
        match listener.accept() {
            Ok((s, _)) => break s,
            Err(e) if e.kind() == std::io::ErrorKind::WouldBlock => {
                if client_done.load(std::sync::atomic::Ordering::SeqCst) || t0.elapsed() > Duration::from_secs(12) {
                    return None;
                }
                std::thread::sleep(Duration::from_millis(2));
            }
            Err(_) => return None,
        }
    };
    s.set_nonblocking(false).ok()?;
    s.set_read_timeout(Some(Duration::from_secs(5))).ok()?;
    let mut dec = StreamDecoder::new();
    let mut all = Vec::new();
    let mut buf = [0u8; 4096];
    let mut phase = 0;
    let mut seen = Seen {
        mechanism: String::new(),
        response: String::new(),
        vhost: String::new(),
        tune_ok: (0, 0, 0),
    };
    loop {
        let n = s.read(&mut buf).ok()?;
        if n == 0 {
            return if phase >= 4 { Some(seen) } else { None };
        }
        all.extend_from_slice(&buf[..n]);
        let frames = dec.feed(&all);
        if phase == 0 && dec.saw_header() {
            let f = AMQPFrame::Method(
                0,
                AMQPClass::Connection(Conn::Start(connection::Start {
                    version_major: 0,
                    version_minor: 9,
                    server_properties: Default::default(),
                    mechanisms: "PLAIN EXTERNAL".into(),
                    locales: "en_US".into(),
                })),
            );
            s.write_all(&encode(&f)).ok()?;
            phase = 1;
        }
        for (_, f) in frames {
            match f {
                AMQPFrame::Method(0, AMQPClass::Connection(Conn::StartOk(ok))) => {
                    seen.mechanism = ok.mechanism;
                    seen.response = ok.response;
                    let f = AMQPFrame::Method(
                        0,
                        AMQPClass::Connection(Conn::Tune(connection::Tune {
                            channel_max: 0,
                            frame_max: 131072,
                            heartbeat: 65535,
                        })),
                    );
                    s.write_all(&encode(&f)).ok()?;
                    phase = 2;
                }
                AMQPFrame::Method(0, AMQPClass::Connection(Conn::TuneOk(t))) => {
                    seen.tune_ok = (t.channel_max, t.frame_max, t.heartbeat);
                    phase = 3;
                }
                AMQPFrame::Method(0, AMQPClass::Connection(Conn::Open(o))) => {
                    seen.vhost = o.virtual_host;
                    let f = AMQPFrame::Method(0, AMQPClass::Connection(Conn::OpenOk(connection::OpenOk { known_hosts: String::new() })));
                    s.write_all(&encode(&f)).ok()?;
                    phase = 4;
                }
                AMQPFrame::Method(0, AMQPClass::Connection(Conn::Close(_))) => {
                    let f = AMQPFrame::Method(0, AMQPClass::Connection(Conn::CloseOk(connection::CloseOk {})));
                    s.write_all(&encode(&f)).ok()?;
                    // give the client a moment to read CloseOk before the socket closes
                    std::thread::sleep(Duration::from_millis(30));
                    return Some(seen);
                }
                _ => {}
            }
        }
    }
}

pub fn exec_net(c: &NetCase) -> Outcome {
    // an IPv6 loopback may not exist on the machine: such cases fall back to IPv4 (and say so)
    let v6 = if c.ipv6 && !c.multi_addr { TcpListener::bind("[::1]:0").ok() } else { None };
    // the resolver sorts 127.0.0.1 first; the listener is on 127.0.0.3 only, so at least one
    // attempt is refused before the connection comes about
    let multi = if c.multi_addr && ensure_dns() { TcpListener::bind("127.0.0.3:0").ok() } else { None };
    let host = if v6.is_some() {
        "[::1]"
    } else if multi.is_some() {
        MULTI_NAME
    } else {
        "127.0.0.1"
    };
    let listener = match v6.or(multi).map(Ok).unwrap_or_else(|| TcpListener::bind("127.0.0.1:0")) {
        Ok(l) => l,
        Err(e) => {
            return Outcome {
                inconclusive: Some(format!("cannot bind loopback: {}", e)),
                ..Default::default()
            }
        }
    };
    let port = listener.local_addr().unwrap().port();
    let mut params = Vec::new();
    // a listener on the address the resolver puts first that accepts and never answers
    let silent = if host == MULTI_NAME && c.silent_first { TcpListener::bind(("127.0.0.1", port)).ok() } else { None };
    let silent_stop = std::sync::Arc::new(std::sync::atomic::AtomicBool::new(false));
    if let Some(l) = silent.as_ref().and_then(|l| l.try_clone().ok()) {
        let stop = silent_stop.clone();
        let _ = l.set_nonblocking(true);
        std::thread::spawn(move || {
            let mut held = Vec::new();
            while !stop.load(std::sync::atomic::Ordering::SeqCst) {
                if let Ok((s, _)) = l.accept() {
                    held.push(s);
                }
                std::thread::sleep(Duration::from_millis(2));
            }
        });
        params.push(Param::Timeout("300".into()));
    }
    if let Some(h) = c.heartbeat {
        params.push(Param::Heartbeat(h.to_string()));
    }
    if let Some(m) = c.channel_max {
        params.push(Param::ChannelMax(m.to_string()));
    }
    if c.external {
        params.push(Param::AuthMechanism("external".into()));
    }
    let uc = normalise(&Case {
        scheme: "amqp".into(),
        host: Some(host.into()),
        port: Some(port),
        user: c.user.clone(),
        pass: c.pass.clone(),
        vhost: c.vhost.clone(),
        extra_segments: vec![],
        params,
        literal_sub_delims: c.sub_delims_literal,
    });
    let url = assemble(&uc);
    let want = match expect(&uc) {
        Ok(w) => w,
        Err(_) => return Outcome::pass(false),
    };
    let client_done = std::sync::Arc::new(std::sync::atomic::AtomicBool::new(false));
    let cd = client_done.clone();
    let broker = std::thread::spawn(move || tcp_broker(listener, cd));
    let u2 = url.clone();
    let res = timed(Duration::from_secs(10), "avh-c19-net", move || {
        let conn = Connection::insecure_open(&u2)?;
        conn.close()
    });
    client_done.store(true, std::sync::atomic::Ordering::SeqCst);
    silent_stop.store(true, std::sync::atomic::Ordering::SeqCst);
    let seen = broker.join().ok().flatten();
    match res {
        None => return Outcome::hang("net-open-hang", format!("{}: insecure_open/close did not return", url)),
        Some(Err(e)) => {
            // close() over a real socket can race with the peer's shutdown (see C08); only the
            // handshake parameters are this property's business
            if seen.is_none() {
                return Outcome::fail("net-open-failed", format!("{}: {:?}", url, e));
            }
        }
        Some(Ok(())) => {}
    }
    let seen = match seen {
        Some(s) => s,
        None => return Outcome::fail("net-handshake-incomplete", format!("{}: broker did not see a full handshake", url)),
    };
    let (mech, resp) = match &want.auth {
        Auth::External => ("EXTERNAL".to_string(), String::new()),
        Auth::Plain { username, password } => ("PLAIN".to_string(), format!("\0{}\0{}", username, password)),
    };
    if seen.mechanism != mech || seen.response != resp {
        return Outcome::fail("net-start-ok-differs-from-url", format!("{}: StartOk mechanism={:?} response={:?}, expected {:?} {:?}", url, seen.mechanism, seen.response, mech, resp));
    }
    if seen.vhost != want.vhost {
        return Outcome::fail("net-open-vhost-differs-from-url", format!("{}: Open.virtual_host={:?}, expected {:?}", url, seen.vhost, want.vhost));
    }
    let hb = c.heartbeat.unwrap_or(60);
    let cm = match c.channel_max {
        None | Some(0) => 65535,
        Some(m) => m,
    };
    if seen.tune_ok != (cm, 131072, hb) {
        return Outcome::fail("net-tune-ok-differs-from-url", format!("{}: TuneOk={:?}, expected ({}, 131072, {})", url, seen.tune_ok, cm, hb));
    }
    Outcome::pass(true).label(if host == "[::1]" {
        "loopback-ipv6-literal"
    } else if host == MULTI_NAME && silent.is_some() {
        "host-name-with-three-addresses-first-one-accepts-and-stays-silent"
    } else if host == MULTI_NAME {
        "host-name-with-three-addresses-last-one-listening"
    } else if c.multi_addr {
        "no-local-dns-fell-back-to-ipv4"
    } else if c.ipv6 {
        "no-ipv6-loopback-fell-back-to-ipv4"
    } else {
        "loopback-ipv4"
    })
}

fn strat_net(_t: Tier) -> BoxedStrategy<NetCase> {
    let comp = || prop_oneof![2 => Just(None), 3 => gen::short_string_nonempty().prop_map(Some), 1 => "[@:/%? #]{1,6}".prop_map(Some), 1 => "[%0-9A-Fa-f]{1,8}".prop_map(Some), 2 => "[a-z!$&'()*+,;=]{1,10}".prop_map(Some)];
    (
        comp(),
        comp(),
        prop_oneof![1 => Just(None), 1 => Just(Some(String::new())), 3 => gen::short_string_nonempty().prop_map(Some), 1 => "[%0-9A-Fa-f/]{1,8}".prop_map(Some), 1 => "[a-z!$&'()*+,;=]{1,10}".prop_map(Some)],
        // announced heartbeat must not fire inside the case: 0 or >= 30 s
        prop_oneof![1 => Just(None), 1 => Just(Some(0u16)), 2 => (30u16..65535).prop_map(Some)],
        prop_oneof![1 => Just(None), 2 => any::<u16>().prop_map(Some)],
        prop::bool::weighted(0.2),
        prop::bool::weighted(0.3),
        prop::bool::weighted(0.25),
        prop::bool::weighted(0.4),
        prop::bool::weighted(0.3),
    )
        .prop_map(|(user, pass, vhost, heartbeat, channel_max, external, ipv6, multi_addr, sub_delims_literal, silent_first)| NetCase {
            user,
            pass,
            vhost,
            heartbeat,
            channel_max,
            external,
            ipv6,
            multi_addr,
            sub_delims_literal,
            silent_first,
        })
        .boxed()
}

fn fuzz_case(mut c: Case) -> Case {
    let h = |s: &str| crate::run::hash_str(s) as usize;
    let schemes = ["amqp", "amqps", "amqp", "amqps", "AMQP", "http", "amqpx"];
    c.scheme = schemes[h(&c.scheme) % schemes.len()].to_string();
    let hosts = ["localhost", "127.0.0.1", "example.com", "[::1]"];
    c.host = c.host.as_ref().map(|x| hosts[h(x) % hosts.len()].to_string());
    if c.port == Some(0) {
        c.port = Some(1);
    }
    if c.scheme == "http" && c.host.is_none() {
        c.host = Some("example.com".into());
    }
    c.extra_segments.truncate(3);
    c.params.truncate(5);
    // '+'-signed numbers are outside the generated domain (Rust's integer parser accepts them,
    // the property does not say whether they are numbers): the sign is dropped
    for p in c.params.iter_mut() {
        match p {
            Param::Heartbeat(v) | Param::ChannelMax(v) | Param::Timeout(v) => {
                while v.starts_with('+') {
                    v.remove(0);
                }
            }
            _ => {}
        }
    }
    c
}

// ---------------------------------------------------------------------------------------------
// raw strings: nothing is known about their meaning, so only "no panic" and "a URL that is
// accepted has an amqp / amqps scheme" are checked

#[derive(Clone, Debug, Serialize, Deserialize, PartialEq)]
pub struct RawCase {
    pub url: String,
}

pub fn exec_raw(c: &RawCase) -> Outcome {
    let got = match catch(std::panic::AssertUnwindSafe(|| amiquip::verif::decode_url(&c.url))) {
        Ok(g) => g,
        Err(p) => return Outcome::fail("url-decode-panic", format!("{:?}: {} ({})", c.url, p.message, p.location)),
    };
    // what the URL standard does before it looks for the scheme: leading C0 controls and spaces
    // are stripped, tabs and newlines are removed wherever they stand
    let lower: String = c
        .url
        .chars()
        .filter(|ch| !matches!(ch, '\t' | '\n' | '\r'))
        .collect::<String>()
        .trim_start_matches(|ch: char| ch <= ' ')
        .to_ascii_lowercase();
    match got {
        Ok(d) => {
            let ok = (lower.starts_with("amqp:") && !d.secure) || (lower.starts_with("amqps:") && d.secure);
            if !ok {
                return Outcome::fail("url-bad-scheme-accepted", format!("{:?} decoded to {:?}", c.url, d));
            }
            // the secure-only entry point must refuse the insecure scheme
            if !d.secure {
                let u = c.url.clone();
                match catch(std::panic::AssertUnwindSafe(|| Connection::open(&u))) {
                    Ok(Err(Error::InsecureUrl { .. })) => {}
                    Ok(other) => return Outcome::fail("insecure-url-not-rejected", format!("{:?}: Connection::open -> {:?}", c.url, other.map(|_| "a connection"))),
                    Err(p) => return Outcome::fail("url-decode-panic", format!("{:?}: {}", c.url, p.message)),
                }
            }
            Outcome::pass(true).label("accepted")
        }
        Err(_) => Outcome::pass(c.url.contains("://")).label("rejected"),
    }
}

fn strat_raw(_t: Tier) -> BoxedStrategy<RawCase> {
    prop_oneof![
        4 => "(amqp|amqps|AMQP|amqpx|http)://[a-z0-9:@%/?&=.\\[\\]_+ -]{0,40}",
        2 => "(amqp|amqps):[/a-z0-9:@%?&=.#-]{0,30}",
        1 => "[ -~]{0,60}",
        1 => proptest::collection::vec(any::<char>(), 0..40).prop_map(|v| v.into_iter().collect::<String>()),
    ]
    .prop_map(|url| RawCase { url })
    .boxed()
}

fn fuzz_raw(c: RawCase) -> RawCase {
    c
}

pub fn parts() -> Vec<Box<dyn PartDyn>> {
    vec![
        Box::new(Part::<Case> {
            name: "decode",
            rule: "URLs assembled from components (scheme amqp/amqps/AMQP/http/amqpx; host absent/localhost/127.0.0.1/example.com/[::1]; port absent or 1-65535; user/password absent or arbitrary Unicode percent-encoded by the harness, RFC 3986 sub-delims (! $ & ' ( ) * + , ; =) written literally in 40 % of the URLs; vhost none, '/', arbitrary encoded; extra path segments, empty ones (a trailing slash, '//') included; 0-4 query parameters in any order incl. repeated, boundary, empty, negative and non-numeric values, auth_mechanism external/other, unknown keys), decoded through the decode_url hook; oracle: the components the URL was assembled from (defaults per the property), or the set of specific errors the URL's defects allow; plus Connection::open => InsecureUrl for every decodable amqp:// URL; non-trivial = percent-encoded or defaulted component or error case; distinct by case hash",
            cases: |t| t.pick(300_000, 5_000_000),
            threads: 16,
            strategy: strat,
            exec,
            enumerate: None,
            shrink_budget: 3000,
            confirm_runs: 1,
            fuzz: Some(fuzz_case),
            watchdog_s: 0,
        }),
        Box::new(Part::<RawCase> {
            name: "raw",
            rule: "arbitrary strings (URL-shaped with the characters that matter, printable ASCII, arbitrary Unicode): no panic; an accepted URL has scheme amqp or amqps (case-insensitively) and Connection::open refuses the amqp one with InsecureUrl; non-trivial = the string contains '://'; distinct by case hash",
            cases: |t| t.pick(100_000, 2_000_000),
            threads: 16,
            strategy: strat_raw,
            exec: exec_raw,
            enumerate: None,
            shrink_budget: 2000,
            confirm_runs: 1,
            fuzz: Some(fuzz_raw),
            watchdog_s: 0,
        }),
        Box::new(Part::<NetCase> {
            name: "loopback",
            rule: "Connection::insecure_open(url) against a loopback TCP broker inside the harness, named in the URL as 127.0.0.1 or (30 %, where the machine has an IPv6 loopback) as the literal [::1], or (25 %, where the harness can bind its own DNS responder on 127.0.0.1:53) by a host name that resolves to three loopback addresses of which only the last one tried listens (the first one either refuses or accepts and stays silent while the URL sets connection_timeout=300): StartOk mechanism/response, Open.virtual_host and TuneOk must be what the URL spells out; every case non-trivial",
            cases: |t| t.pick(100, 3000),
            threads: 8,
            strategy: strat_net,
            exec: exec_net,
            enumerate: None,
            shrink_budget: 60,
            confirm_runs: 2,
            fuzz: None,
            watchdog_s: 60,
        }),
    ]
}
