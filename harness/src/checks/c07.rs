//! C07 — server protocol violations are contained: never mis-delivered, never a panic.

use crate::broker::{content_frames, reply_for, BrokerIo, Responder, ServerCfg};
use crate::codec::encode;
use crate::collector::{exec_probe, strat_arbitrary, ProbeCase};
use crate::gen::{self, body_bytes, chunk_sizes, pick, Props};
use crate::methods::{make, MArgs, N_METHODS};
use crate::run::{take_panics, Outcome, Part, PartDyn, Tier};
use crate::session::{open_session, timed, ClientCfg, CALL_TIMEOUT};
use amiquip::{Channel, ConsumerMessage, ConsumerOptions, Error};
use amq_protocol::frame::{AMQPContentHeader, AMQPFrame};
use amq_protocol::protocol::basic::AMQPMethod as Basic;
use amq_protocol::protocol::channel::AMQPMethod as Chan;
use amq_protocol::protocol::connection::AMQPMethod as Conn;
use amq_protocol::protocol::{basic, channel, connection, AMQPClass};
use proptest::collection::vec;
use proptest::prelude::*;
use serde::{Deserialize, Serialize};
use std::collections::HashMap;
use std::time::Duration;

#[derive(Clone, Debug, Serialize, Deserialize, PartialEq)]
pub enum ChSel {
    Zero,
    Open(u16),
    NeverOpened(u16),
    Max,
}

#[derive(Clone, Debug, Serialize, Deserialize, PartialEq)]
pub enum TagSel {
    Known(u16),
    Unknown(String),
}

#[derive(Clone, Debug, Serialize, Deserialize, PartialEq)]
pub enum SizeSel {
    Exact(u32),
    Huge(u8),
}

impl SizeSel {
    fn value(&self) -> u64 {
        match self {
            SizeSel::Exact(n) => *n as u64,
            SizeSel::Huge(k) => [1u64 << 31, 1 << 32, 1 << 40, 1 << 62, 1 << 63, u64::MAX, u64::MAX - 1, (1 << 40) + 7][*k as usize % 8],
        }
    }
}

#[derive(Clone, Debug, Serialize, Deserialize, PartialEq)]
pub enum SFrame {
    /// a complete, valid delivery to a known consumer
    ValidDeliver { ch: u16, consumer: u16, len: u16, chunks: Vec<u16>, props: Props },
    ValidReturn { ch: u16, len: u16 },
    Heartbeat { ch: ChSel },
    Method { ch: ChSel, idx: u8, args: MArgs },
    Header { ch: ChSel, size: SizeSel, props: Props },
    Body { ch: ChSel, len: u16 },
    DeliverStart { ch: u16, tag: TagSel },
    ConsumeOkDup { ch: u16, consumer: u16 },
    ServerCancel { ch: u16, consumer: u16, nowait: bool },
    ChannelClose { ch: u16, code: u16 },
    ConnectionClose { code: u16, text: String },
    Blocked(bool),
    /// answer the get in flight (if any) with a message or with get-empty
    AnswerGet { empty: bool, len: u16 },
    /// the beginning of a delivery to a known consumer: method, header announcing `size` bytes and
    /// `sent` (< size) body bytes in 1-2 frames - leaves the channel's content mid-body
    PartialContent { ch: u16, consumer: u16, size: u16, sent: u16 },
}

#[derive(Clone, Debug, Serialize, Deserialize, PartialEq)]
pub struct Case {
    /// per channel: number of consumers, return listener
    pub channels: Vec<(u8, bool)>,
    pub get_in_flight: bool,
    pub frames: Vec<SFrame>,
    pub salt: u64,
    /// send all frames in one read segment (true) or one segment per frame
    pub glued: bool,
}

#[derive(Clone, Debug, PartialEq)]
pub enum Expect {
    FrameUnexpected,
    Bogus(u16),
    UnknownTag(u16, String),
    DuplicateTag(u16, String),
    Exception(Vec<u16>),
    ServerClosed(u16, String),
}

#[derive(Clone, Debug, PartialEq)]
enum Verdict {
    Continue,
    End(Vec<Expect>),
    Unknown,
}

#[derive(Clone, Debug)]
enum Start {
    Deliver(String),
    Return,
    GetOk,
}

enum Coll {
    Idle,
    GotMethod(Start),
    Body(Start, u64, Vec<u8>),
}

impl Coll {
    fn name(&self) -> &'static str {
        match self {
            Coll::Idle => "idle",
            Coll::GotMethod(_) => "awaiting-header",
            Coll::Body(..) => "mid-body",
        }
    }
}

struct ChanModel {
    id: u16,
    open: bool,
    tags: Vec<String>,
    listener: bool,
    coll: Coll,
    get_pending: bool,
}

pub struct Model {
    chans: Vec<ChanModel>,
    /// deliveries per (channel id, consumer tag) a compliant reading yields
    pub deliveries: HashMap<(u16, String), Vec<Vec<u8>>>,
    pub get_answer: Option<Option<Vec<u8>>>,
    pub returns: HashMap<u16, Vec<Vec<u8>>>,
    pub violation_state: Option<&'static str>,
}

const NOT_ALLOWED: u16 = 530;
const NOT_IMPLEMENTED: u16 = 540;

/// Direction of every method, from the AMQP 0-9-1 specification (chassis "client" / "server").
fn method_class(m: &AMQPClass) -> &'static str {
    use amq_protocol::protocol::confirm::AMQPMethod as Cf;
    use amq_protocol::protocol::exchange::AMQPMethod as E;
    use amq_protocol::protocol::queue::AMQPMethod as Q;
    match m {
        AMQPClass::Access(_) | AMQPClass::Tx(_) => "unimplemented",
        AMQPClass::Channel(Chan::Flow(_)) | AMQPClass::Channel(Chan::FlowOk(_)) => "unimplemented",
        AMQPClass::Connection(_) => "client-only", // any connection-class method on a non-zero channel
        AMQPClass::Channel(Chan::Open(_)) => "client-only",
        AMQPClass::Basic(Basic::Qos(_))
        | AMQPClass::Basic(Basic::Consume(_))
        | AMQPClass::Basic(Basic::Get(_))
        | AMQPClass::Basic(Basic::Publish(_))
        | AMQPClass::Basic(Basic::Recover(_))
        | AMQPClass::Basic(Basic::RecoverAsync(_))
        | AMQPClass::Basic(Basic::Reject(_)) => "client-only",
        AMQPClass::Confirm(Cf::Select(_)) => "client-only",
        AMQPClass::Exchange(E::Declare(_)) | AMQPClass::Exchange(E::Delete(_)) | AMQPClass::Exchange(E::Bind(_)) | AMQPClass::Exchange(E::Unbind(_)) => "client-only",
        AMQPClass::Queue(Q::Declare(_)) | AMQPClass::Queue(Q::Delete(_)) | AMQPClass::Queue(Q::Bind(_)) | AMQPClass::Queue(Q::Purge(_)) | AMQPClass::Queue(Q::Unbind(_)) => "client-only",
        _ => "server-may-send",
    }
}

impl Model {
    fn chan(&mut self, id: u16) -> Option<&mut ChanModel> {
        self.chans.iter_mut().find(|c| c.id == id && c.open)
    }

    fn start(&mut self, n: u16, s: Start) -> Verdict {
        let c = self.chan(n).unwrap();
        match c.coll {
            Coll::Idle => {
                c.coll = Coll::GotMethod(s);
                Verdict::Continue
            }
            _ => {
                let st = c.coll.name();
                self.violation_state.get_or_insert(st);
                Verdict::End(vec![Expect::FrameUnexpected])
            }
        }
    }

    fn complete(&mut self, n: u16, s: Start, bytes: Vec<u8>) -> Verdict {
        let c = self.chans.iter_mut().find(|c| c.id == n && c.open).unwrap();
        match s {
            Start::Deliver(tag) => {
                if c.tags.contains(&tag) {
                    self.deliveries.entry((n, tag)).or_default().push(bytes);
                    Verdict::Continue
                } else {
                    Verdict::End(vec![Expect::UnknownTag(n, tag)])
                }
            }
            Start::Return => {
                if c.listener {
                    self.returns.entry(n).or_default().push(bytes);
                }
                Verdict::Continue
            }
            Start::GetOk => {
                if c.get_pending {
                    c.get_pending = false;
                    self.get_answer = Some(Some(bytes));
                    Verdict::Continue
                } else {
                    Verdict::Unknown
                }
            }
        }
    }

    /// Compliant reading of one frame.
    fn step(&mut self, f: &AMQPFrame) -> Verdict {
        match f {
            AMQPFrame::ProtocolHeader => Verdict::Unknown,
            AMQPFrame::Heartbeat(0) => Verdict::Continue,
            AMQPFrame::Heartbeat(_) => Verdict::Unknown,
            AMQPFrame::Method(0, m) => match m {
                AMQPClass::Connection(Conn::Close(c)) => Verdict::End(vec![Expect::ServerClosed(c.reply_code, c.reply_text.clone())]),
                AMQPClass::Connection(Conn::Blocked(_)) | AMQPClass::Connection(Conn::Unblocked(_)) => Verdict::Continue,
                AMQPClass::Connection(Conn::CloseOk(_)) => Verdict::Unknown,
                _ => Verdict::End(vec![Expect::Exception(vec![NOT_IMPLEMENTED, NOT_ALLOWED])]),
            },
            AMQPFrame::Header(0, _, _) | AMQPFrame::Body(0, _) => Verdict::End(vec![Expect::Exception(vec![NOT_ALLOWED])]),
            AMQPFrame::Method(n, m) => {
                let n = *n;
                let class = method_class(m);
                if self.chan(n).is_none() {
                    return match (class, m) {
                        (_, AMQPClass::Channel(Chan::CloseOk(_))) => Verdict::Unknown,
                        ("unimplemented", _) => Verdict::End(vec![Expect::Exception(vec![NOT_IMPLEMENTED]), Expect::Bogus(n)]),
                        ("client-only", _) => Verdict::End(vec![Expect::Exception(vec![NOT_ALLOWED]), Expect::Bogus(n)]),
                        _ => Verdict::End(vec![Expect::Bogus(n)]),
                    };
                }
                match class {
                    "unimplemented" => return Verdict::End(vec![Expect::Exception(vec![NOT_IMPLEMENTED])]),
                    "client-only" => return Verdict::End(vec![Expect::Exception(vec![NOT_ALLOWED])]),
                    _ => {}
                }
                match m {
                    AMQPClass::Channel(Chan::Close(_)) => {
                        self.chan(n).unwrap().open = false;
                        Verdict::Continue
                    }
                    AMQPClass::Basic(Basic::ConsumeOk(ok)) => {
                        if self.chan(n).unwrap().tags.contains(&ok.consumer_tag) {
                            Verdict::End(vec![Expect::DuplicateTag(n, ok.consumer_tag.clone())])
                        } else {
                            Verdict::Unknown
                        }
                    }
                    AMQPClass::Basic(Basic::Cancel(cn)) => {
                        let c = self.chan(n).unwrap();
                        if let Some(p) = c.tags.iter().position(|t| t == &cn.consumer_tag) {
                            c.tags.remove(p);
                            Verdict::Continue
                        } else {
                            Verdict::Unknown
                        }
                    }
                    AMQPClass::Basic(Basic::Deliver(d)) => self.start(n, Start::Deliver(d.consumer_tag.clone())),
                    AMQPClass::Basic(Basic::Return(_)) => self.start(n, Start::Return),
                    AMQPClass::Basic(Basic::GetOk(_)) => self.start(n, Start::GetOk),
                    AMQPClass::Basic(Basic::GetEmpty(_)) => {
                        let c = self.chan(n).unwrap();
                        if c.get_pending {
                            c.get_pending = false;
                            self.get_answer = Some(None);
                            Verdict::Continue
                        } else {
                            Verdict::Unknown
                        }
                    }
                    AMQPClass::Basic(Basic::Ack(_)) | AMQPClass::Basic(Basic::Nack(_)) => Verdict::Continue,
                    // unsolicited replies and everything else: not named by the property
                    _ => Verdict::Unknown,
                }
            }
            AMQPFrame::Header(n, _, h) => {
                let n = *n;
                let c = match self.chan(n) {
                    Some(c) => c,
                    None => return Verdict::End(vec![Expect::Bogus(n)]),
                };
                match std::mem::replace(&mut c.coll, Coll::Idle) {
                    Coll::GotMethod(s) => {
                        if h.body_size == 0 {
                            self.complete(n, s, Vec::new())
                        } else {
                            c.coll = Coll::Body(s, h.body_size, Vec::new());
                            Verdict::Continue
                        }
                    }
                    other => {
                        let st = other.name();
                        self.violation_state.get_or_insert(st);
                        Verdict::End(vec![Expect::FrameUnexpected])
                    }
                }
            }
            AMQPFrame::Body(n, b) => {
                let n = *n;
                let c = match self.chan(n) {
                    Some(c) => c,
                    None => return Verdict::End(vec![Expect::Bogus(n)]),
                };
                match std::mem::replace(&mut c.coll, Coll::Idle) {
                    Coll::Body(s, size, mut buf) => {
                        let total = buf.len() as u64 + b.len() as u64;
                        if total > size {
                            self.violation_state.get_or_insert("mid-body");
                            Verdict::End(vec![Expect::FrameUnexpected])
                        } else {
                            buf.extend_from_slice(b);
                            if total == size {
                                self.complete(n, s, buf)
                            } else {
                                c.coll = Coll::Body(s, size, buf);
                                Verdict::Continue
                            }
                        }
                    }
                    other => {
                        let st = other.name();
                        self.violation_state.get_or_insert(st);
                        Verdict::End(vec![Expect::FrameUnexpected])
                    }
                }
            }
        }
    }
}

pub struct Broker {
    salt: u64,
    seq: HashMap<u16, u32>,
    pub saw_get: bool,
}

impl Responder for Broker {
    fn on_frame(&mut self, io: &mut BrokerIo, frame: &AMQPFrame) {
        if let AMQPFrame::Method(ch, m) = frame {
            if let AMQPClass::Basic(Basic::Get(_)) = m {
                self.saw_get = true;
                return;
            }
            let seq = self.seq.entry(*ch).or_insert(0);
            if let Some(reply) = reply_for(self.salt, *ch, *seq, m) {
                *seq += 1;
                io.send_method(*ch, reply);
            }
        }
    }
}

struct Driven {
    chan_ids: Vec<u16>,
    tags: Vec<Vec<String>>,
    /// per (channel idx, consumer idx): bodies received
    got: Vec<Vec<Vec<Vec<u8>>>>,
    returns: Vec<Vec<Vec<u8>>>,
    close: Result<(), Error>,
    get_result: Option<Result<Option<Vec<u8>>, String>>,
    alive_at_end: bool,
}

fn build_frames(c: &Case, chan_ids: &[u16], tags: &[Vec<String>]) -> Vec<AMQPFrame> {
    let nch = chan_ids.len();
    let sel = |s: &ChSel| -> u16 {
        match s {
            ChSel::Zero => 0,
            ChSel::Open(i) => chan_ids[pick(*i, nch)],
            ChSel::NeverOpened(k) => 1000 + (*k % 1000),
            ChSel::Max => 65535,
        }
    };
    let mut out = Vec::new();
    let mut dtag = 1u64;
    for (i, f) in c.frames.iter().enumerate() {
        match f {
            SFrame::ValidDeliver { ch, consumer, len, chunks, props } => {
                let ci = pick(*ch, nch);
                if tags[ci].is_empty() {
                    continue;
                }
                let tag = tags[ci][pick(*consumer, tags[ci].len())].clone();
                let body = body_bytes(*len as usize % 3000, c.salt.wrapping_add(i as u64));
                dtag += 1;
                out.extend(content_frames(
                    chan_ids[ci],
                    AMQPClass::Basic(Basic::Deliver(basic::Deliver {
                        consumer_tag: tag,
                        delivery_tag: dtag,
                        redelivered: false,
                        exchange: "x".into(),
                        routing_key: "k".into(),
                    })),
                    &props.to_amqp(),
                    &body,
                    &chunk_sizes(body.len(), chunks, 4000),
                ));
            }
            SFrame::ValidReturn { ch, len } => {
                let ci = pick(*ch, nch);
                let body = body_bytes(*len as usize % 2000, c.salt.wrapping_add(i as u64));
                out.extend(content_frames(
                    chan_ids[ci],
                    AMQPClass::Basic(Basic::Return(basic::Return {
                        reply_code: 312,
                        reply_text: "NO_ROUTE".into(),
                        exchange: "x".into(),
                        routing_key: "k".into(),
                    })),
                    &amiquip::AmqpProperties::default(),
                    &body,
                    &[1000],
                ));
            }
            SFrame::Heartbeat { ch } => out.push(AMQPFrame::Heartbeat(sel(ch))),
            SFrame::Method { ch, idx, args } => out.push(AMQPFrame::Method(sel(ch), make(*idx as usize, args))),
            SFrame::Header { ch, size, props } => out.push(AMQPFrame::Header(
                sel(ch),
                60,
                Box::new(AMQPContentHeader {
                    class_id: 60,
                    weight: 0,
                    body_size: size.value(),
                    properties: props.to_amqp(),
                }),
            )),
            SFrame::Body { ch, len } => out.push(AMQPFrame::Body(sel(ch), body_bytes(*len as usize % 5000, c.salt ^ i as u64))),
            SFrame::DeliverStart { ch, tag } => {
                let ci = pick(*ch, nch);
                let t = match tag {
                    TagSel::Known(k) if !tags[ci].is_empty() => tags[ci][pick(*k, tags[ci].len())].clone(),
                    TagSel::Known(_) => "nobody".to_string(),
                    TagSel::Unknown(s) => format!("unknown-{}", s),
                };
                dtag += 1;
                out.push(AMQPFrame::Method(
                    chan_ids[ci],
                    AMQPClass::Basic(Basic::Deliver(basic::Deliver {
                        consumer_tag: t,
                        delivery_tag: dtag,
                        redelivered: true,
                        exchange: "x".into(),
                        routing_key: "k".into(),
                    })),
                ));
            }
            SFrame::ConsumeOkDup { ch, consumer } => {
                let ci = pick(*ch, nch);
                if tags[ci].is_empty() {
                    continue;
                }
                let tag = tags[ci][pick(*consumer, tags[ci].len())].clone();
                out.push(AMQPFrame::Method(chan_ids[ci], AMQPClass::Basic(Basic::ConsumeOk(basic::ConsumeOk { consumer_tag: tag }))));
            }
            SFrame::ServerCancel { ch, consumer, nowait } => {
                let ci = pick(*ch, nch);
                if tags[ci].is_empty() {
                    continue;
                }
                let tag = tags[ci][pick(*consumer, tags[ci].len())].clone();
                out.push(AMQPFrame::Method(chan_ids[ci], AMQPClass::Basic(Basic::Cancel(basic::Cancel { consumer_tag: tag, nowait: *nowait }))));
            }
            SFrame::ChannelClose { ch, code } => {
                let ci = pick(*ch, nch);
                out.push(AMQPFrame::Method(
                    chan_ids[ci],
                    AMQPClass::Channel(Chan::Close(channel::Close {
                        reply_code: *code,
                        reply_text: "closing".into(),
                        class_id: 0,
                        method_id: 0,
                    })),
                ));
            }
            SFrame::ConnectionClose { code, text } => out.push(AMQPFrame::Method(
                0,
                AMQPClass::Connection(Conn::Close(connection::Close {
                    reply_code: *code,
                    reply_text: text.clone(),
                    class_id: 0,
                    method_id: 0,
                })),
            )),
            SFrame::Blocked(b) => out.push(AMQPFrame::Method(
                0,
                if *b {
                    AMQPClass::Connection(Conn::Blocked(connection::Blocked { reason: "low memory".into() }))
                } else {
                    AMQPClass::Connection(Conn::Unblocked(connection::Unblocked {}))
                },
            )),
            SFrame::PartialContent { ch, consumer, size, sent } => {
                let ci = pick(*ch, nch);
                if tags[ci].is_empty() {
                    continue;
                }
                let tag = tags[ci][pick(*consumer, tags[ci].len())].clone();
                let size = 2 + (*size as usize % 3000);
                let sent = (*sent as usize) % size;
                dtag += 1;
                let mut f = content_frames(
                    chan_ids[ci],
                    AMQPClass::Basic(Basic::Deliver(basic::Deliver {
                        consumer_tag: tag,
                        delivery_tag: dtag,
                        redelivered: false,
                        exchange: "x".into(),
                        routing_key: "partial".into(),
                    })),
                    &amiquip::AmqpProperties::default(),
                    &body_bytes(size, c.salt ^ (i as u64) << 8),
                    &[sent.max(1) / 2 + 1, sent],
                );
                // keep method, header and the body frames that stay below `sent` bytes
                let mut kept = Vec::new();
                let mut have = 0usize;
                for fr in f.drain(..) {
                    match &fr {
                        AMQPFrame::Body(_, b) => {
                            if have + b.len() <= sent && sent > 0 {
                                have += b.len();
                                kept.push(fr);
                            } else {
                                break;
                            }
                        }
                        _ => kept.push(fr),
                    }
                }
                out.extend(kept);
            }
            SFrame::AnswerGet { empty, len } => {
                if !c.get_in_flight {
                    continue;
                }
                if *empty {
                    out.push(AMQPFrame::Method(chan_ids[0], AMQPClass::Basic(Basic::GetEmpty(basic::GetEmpty { cluster_id: String::new() }))));
                } else {
                    let body = body_bytes(*len as usize % 2000, c.salt.wrapping_add(77 + i as u64));
                    dtag += 1;
                    out.extend(content_frames(
                        chan_ids[0],
                        AMQPClass::Basic(Basic::GetOk(basic::GetOk {
                            delivery_tag: dtag,
                            redelivered: false,
                            exchange: "x".into(),
                            routing_key: "k".into(),
                            message_count: 3,
                        })),
                        &amiquip::AmqpProperties::default(),
                        &body,
                        &[700],
                    ));
                }
            }
        }
    }
    out
}

pub fn exec(c: &Case) -> Outcome {
    let mut c = c.clone();
    if c.channels.is_empty() {
        c.channels.push((1, false));
    }
    let nch = c.channels.len();
    let broker = Broker {
        salt: c.salt,
        seq: HashMap::new(),
        saw_get: false,
    };
    let mut sess = open_session(&ClientCfg::default(), ServerCfg::default(), vec![], broker);
    let mut conn = match sess.conn.take() {
        Some(c) => c,
        None => {
            let _ = sess.broker.stop();
            return Outcome {
                inconclusive: Some(format!("open failed {:?}", sess.open_error)),
                ..Default::default()
            };
        }
    };
    let wire = sess.wire.clone();
    let bh = std::sync::Arc::new(sess.broker);
    let bh2 = bh.clone();
    let case = c.clone();
    let wire2 = wire.clone();
    // frames and model are built inside the driver once the consumer tags are known; the model's
    // verdict is returned alongside what the client observed
    let res = timed(CALL_TIMEOUT * 4, "avh-c07", move || -> Result<(Driven, Vec<AMQPFrame>), String> {
        let mut chans: Vec<Channel> = Vec::new();
        for _ in 0..nch {
            chans.push(conn.open_channel(None).map_err(|e| format!("open_channel: {:?}", e))?);
        }
        let chan_ids: Vec<u16> = chans.iter().map(|c| c.channel_id()).collect();
        let chan_refs: Vec<&'static Channel> = chans.iter().map(|c| unsafe { &*(c as *const Channel) }).collect();
        let mut consumers = Vec::new();
        let mut tags: Vec<Vec<String>> = vec![Vec::new(); nch];
        let mut ret_rx = Vec::new();
        for i in 0..nch {
            let mut v = Vec::new();
            for _ in 0..case.channels[i].0 {
                let cn = chan_refs[i].basic_consume("q", ConsumerOptions::default()).map_err(|e| format!("consume: {:?}", e))?;
                tags[i].push(cn.consumer_tag().to_string());
                v.push(cn);
            }
            consumers.push(v);
            ret_rx.push(if case.channels[i].1 { Some(chan_refs[i].listen_for_returns().map_err(|e| format!("listen: {:?}", e))?) } else { None });
            chan_refs[i].qos(0, 0, false).map_err(|e| format!("qos: {:?}", e))?;
        }
        // optional get in flight on channel index 0 (a helper thread blocks in basic_get)
        let mut get_thread = None;
        if case.get_in_flight {
            let ch0: &'static Channel = chan_refs[0];
            // Channel is Send but not Sync; the main driver does not touch channel 0 while the
            // helper thread uses it (only receivers, which are independent, are read)
            struct SendPtr(&'static Channel);
            unsafe impl Send for SendPtr {}
            let p = SendPtr(ch0);
            get_thread = Some(std::thread::spawn(move || {
                let p = p;
                p.0.basic_get("q", false).map(|g| g.map(|g| g.delivery.body)).map_err(|e| format!("{:?}", e))
            }));
            let t0 = std::time::Instant::now();
            loop {
                if bh2.call(|b, _| b.saw_get) == Some(true) {
                    break;
                }
                if t0.elapsed() > Duration::from_secs(5) {
                    return Err("broker never saw the Basic.Get".into());
                }
                std::thread::sleep(Duration::from_millis(1));
            }
        }
        let frames = build_frames(&case, &chan_ids, &tags);
        let fs = frames.clone();
        let glued = case.glued;
        bh2.cmd(move |_b, io| {
            if glued {
                io.send_glued(fs);
            } else {
                for f in fs {
                    io.send(f);
                }
            }
        });
        // wait until the client has read everything or the transport was released
        wire2.wait_until(Duration::from_secs(8), |st| st.dropped || (st.in_consumed >= st.total_pushed && st.total_pushed > 0));
        // is the connection still alive? a barrier call on a fresh channel tells (and orders us
        // behind the processing of every frame)
        let alive_at_end = match conn.open_channel(None) {
            Ok(ch) => {
                let ok = ch.qos(0, 0, false).is_ok();
                crate::run::bury(ch);
                ok
            }
            Err(_) => false,
        };
        let close = conn.close();
        let get_result = get_thread.map(|t| t.join().unwrap_or_else(|_| Err("get thread panicked".into())));
        let mut got = Vec::new();
        for v in &consumers {
            let mut per = Vec::new();
            for cn in v {
                let mut bodies = Vec::new();
                loop {
                    match cn.receiver().recv_timeout(Duration::from_secs(3)) {
                        Ok(ConsumerMessage::Delivery(d)) => bodies.push(d.body),
                        Ok(_) => {}
                        Err(_) => break,
                    }
                }
                per.push(bodies);
            }
            got.push(per);
        }
        let mut returns = Vec::new();
        for r in &ret_rx {
            let mut v = Vec::new();
            if let Some(r) = r {
                while let Ok(x) = r.recv_timeout(Duration::from_millis(200)) {
                    v.push(x.content);
                }
            }
            returns.push(v);
        }
        for v in consumers {
            for cn in v {
                std::mem::forget(cn);
            }
        }
        drop(chans);
        Ok((
            Driven {
                chan_ids,
                tags,
                got,
                returns,
                close,
                get_result,
                alive_at_end,
            },
            frames,
        ))
    });
    let io_thread = wire.io_thread();
    let bh = match std::sync::Arc::try_unwrap(bh) {
        Ok(b) => b,
        Err(_) => {
            wire.push_eof();
            return Outcome::hang("driver-hang", "driver did not finish (a call hung)");
        }
    };
    let (_b, _io) = bh.stop();
    let (d, frames) = match res {
        Some(Ok(x)) => x,
        Some(Err(e)) => return Outcome::fail("setup-failed", e),
        None => {
            wire.push_eof();
            return Outcome::hang("driver-hang", "driver did not finish (a call hung)");
        }
    };
    if let Some(t) = io_thread {
        let p = take_panics(t);
        if !p.is_empty() {
            let sig = if p[0].message.contains("capacity overflow") { "io-thread-panic-on-announced-body-size" } else { "io-thread-panic" };
            return Outcome::fail(sig, format!("{} at {}", p[0].message, p[0].location));
        }
    }
    if let Err(Error::IoThreadPanic) = d.close {
        return Outcome::fail("io-thread-panic", "Connection::close reported IoThreadPanic");
    }
    // reference reading
    let mut model = Model {
        chans: (0..nch)
            .map(|i| ChanModel {
                id: d.chan_ids[i],
                open: true,
                tags: d.tags[i].clone(),
                listener: c.channels[i].1,
                coll: Coll::Idle,
                get_pending: c.get_in_flight && i == 0,
            })
            .collect(),
        deliveries: HashMap::new(),
        get_answer: None,
        returns: HashMap::new(),
        violation_state: None,
    };
    let mut unknown = false;
    let mut ended: Option<Vec<Expect>> = None;
    let mut valid_before = 0;
    for (fi, f) in frames.iter().enumerate() {
        match model.step(f) {
            Verdict::Continue => {
                if !unknown {
                    valid_before += 1;
                }
            }
            Verdict::Unknown => {
                // from here on the property does not say what the client does: remember how much
                // of the compliant reading precedes this frame
                unknown = true;
                break;
            }
            Verdict::End(mut e) => {
                // frames that follow the server's own Connection.Close are themselves a protocol
                // violation, for which FrameUnexpected is the documented outcome
                if matches!(e.first(), Some(Expect::ServerClosed(..))) && fi + 1 < frames.len() {
                    e.push(Expect::FrameUnexpected);
                }
                ended = Some(e);
                break;
            }
        }
    }
    // whatever happened, what the client wrote must be whole, decodable frames
    {
        let out = wire.out_snapshot();
        let dec = crate::codec::decode_stream(&out);
        if let Some(err) = &dec.error {
            let sig = if ended.as_ref().map_or(false, |e| matches!(e.first(), Some(Expect::Exception(_)))) {
                "client-exception-close-frame-malformed"
            } else {
                "outbound-stream-malformed"
            };
            return Outcome::fail(sig, format!("{}\nframes: {}", err, render_frames(&frames)));
        }
    }
    // safety: observed deliveries are a prefix of the compliant reading, per consumer
    for i in 0..nch {
        for (k, tag) in d.tags[i].iter().enumerate() {
            let want = model.deliveries.get(&(d.chan_ids[i], tag.clone())).cloned().unwrap_or_default();
            let got = &d.got[i][k];
            // after an irregularity the property does not name, only the messages that precede it
            // in the compliant reading are compared
            let too_many = !unknown && got.len() > want.len();
            if too_many || got.iter().zip(want.iter()).any(|(g, w)| g != w) {
                return Outcome::fail(
                    "message-differs-from-compliant-reading",
                    format!("channel {} consumer {}: received {} messages {:?}, compliant reading yields {} {:?}\nframes: {}", d.chan_ids[i], tag, got.len(), got.iter().map(|b| b.len()).collect::<Vec<_>>(), want.len(), want.iter().map(|b| b.len()).collect::<Vec<_>>(), render_frames(&frames)),
                );
            }
            if !unknown && ended.is_none() && got.len() != want.len() {
                return Outcome::fail("valid-message-lost", format!("channel {} consumer {}: {} of {} messages arrived", d.chan_ids[i], tag, got.len(), want.len()));
            }
        }
        let want = model.returns.get(&d.chan_ids[i]).cloned().unwrap_or_default();
        let got = &d.returns[i];
        if (!unknown && got.len() > want.len()) || got.iter().zip(want.iter()).any(|(g, w)| g != w) {
            return Outcome::fail("return-differs-from-compliant-reading", format!("channel {}: {} returns, compliant reading yields {}", d.chan_ids[i], got.len(), want.len()));
        }
    }
    if let Some(Ok(g)) = &d.get_result {
        if model.get_answer.as_ref() != Some(g) && !(unknown && model.get_answer.is_none()) {
            return Outcome::fail("get-differs-from-compliant-reading", format!("basic_get returned {:?} bytes, compliant reading {:?}", g.as_ref().map(|b| b.len()), model.get_answer.as_ref().map(|o| o.as_ref().map(|b| b.len()))));
        }
    }
    // classification, only when the first irregularity is one the property names
    let mut labels = Vec::new();
    if !unknown {
        match &ended {
            None => {
                if !d.alive_at_end {
                    return Outcome::fail("valid-frames-ended-connection", format!("all frames valid but the connection died: {:?}\nframes: {}", d.close, render_frames(&frames)));
                }
                if let Err(e) = &d.close {
                    return Outcome::fail("valid-frames-ended-connection", format!("close: {:?}\nframes: {}", e, render_frames(&frames)));
                }
                labels.push("all-valid".to_string());
            }
            Some(exps) => {
                let out = wire.out_snapshot();
                let dec = crate::codec::decode_stream(&out);
                let last = dec.frames.last().map(|(_, f)| f.clone());
                let mut ok = false;
                for e in exps {
                    ok |= match (e, &d.close) {
                        (Expect::FrameUnexpected, Err(Error::FrameUnexpected)) => true,
                        (Expect::Bogus(n), Err(Error::ReceivedFrameWithBogusChannelId { channel_id })) => channel_id == n,
                        (Expect::UnknownTag(n, t), Err(Error::UnknownConsumerTag { channel_id, consumer_tag })) => channel_id == n && consumer_tag == t,
                        (Expect::DuplicateTag(n, t), Err(Error::DuplicateConsumerTag { channel_id, consumer_tag })) => channel_id == n && consumer_tag == t,
                        (Expect::ServerClosed(code, text), Err(Error::ServerClosedConnection { code: c2, message })) => code == c2 && text == message,
                        (Expect::Exception(codes), Err(Error::ClientException)) => match &last {
                            Some(AMQPFrame::Method(0, AMQPClass::Connection(Conn::Close(cl)))) => codes.contains(&cl.reply_code),
                            _ => false,
                        },
                        _ => false,
                    };
                }
                if !ok {
                    let kind = match &exps[0] {
                        Expect::FrameUnexpected => "content-sequence-violation",
                        Expect::Bogus(_) => "frame-for-channel-not-open",
                        Expect::UnknownTag(..) => "unknown-consumer-tag",
                        Expect::DuplicateTag(..) => "duplicate-consumer-tag",
                        Expect::Exception(_) => "unimplemented-or-not-allowed-method",
                        Expect::ServerClosed(..) => "server-close",
                    };
                    return Outcome::fail(
                        format!("violation-not-reported-as-documented:{}", kind),
                        format!("expected one of {:?}\nConnection::close returned {:?}, last frame written {:?}\nframes: {}", exps, d.close, last.as_ref().map(crate::oracle::brief), render_frames(&frames)),
                    );
                }
                labels.push(format!("first-violation:{:?}", exps[0]).split('(').next().unwrap_or("").to_string());
            }
        }
    } else {
        labels.push("unnamed-irregularity-first".to_string());
    }
    let deep = model.violation_state.map_or(false, |s| s != "idle") || (ended.is_some() && valid_before >= 3);
    if let Some(s) = model.violation_state {
        labels.push(format!("collector-{}", s));
    }
    let mut o = Outcome::pass(deep);
    o.labels = labels;
    o
}

fn render_frames(fs: &[AMQPFrame]) -> String {
    fs.iter().map(crate::oracle::brief).collect::<Vec<_>>().join(" | ")
}

fn chsel() -> BoxedStrategy<ChSel> {
    prop_oneof![
        2 => Just(ChSel::Zero),
        8 => any::<u16>().prop_map(ChSel::Open),
        1 => any::<u16>().prop_map(ChSel::NeverOpened),
        1 => Just(ChSel::Max),
    ]
    .boxed()
}

fn strat(_t: Tier) -> BoxedStrategy<Case> {
    let size = prop_oneof![4 => (0u32..3000).prop_map(SizeSel::Exact), 2 => (0u8..8).prop_map(SizeSel::Huge)];
    let tag = prop_oneof![2 => any::<u16>().prop_map(TagSel::Known), 1 => "[a-z]{0,6}".prop_map(TagSel::Unknown)];
    let frame = prop_oneof![
        6 => (any::<u16>(), any::<u16>(), any::<u16>(), vec(any::<u16>(), 0..4), gen::props()).prop_map(|(ch, consumer, len, chunks, props)| SFrame::ValidDeliver { ch, consumer, len, chunks, props }),
        2 => (any::<u16>(), any::<u16>()).prop_map(|(ch, len)| SFrame::ValidReturn { ch, len }),
        1 => chsel().prop_map(|ch| SFrame::Heartbeat { ch }),
        4 => (chsel(), 0u8..(N_METHODS as u8), crate::checks::c06::margs()).prop_map(|(ch, idx, args)| SFrame::Method { ch, idx, args }),
        3 => (chsel(), size, gen::props()).prop_map(|(ch, size, props)| SFrame::Header { ch, size, props }),
        3 => (chsel(), any::<u16>()).prop_map(|(ch, len)| SFrame::Body { ch, len }),
        3 => (any::<u16>(), tag).prop_map(|(ch, tag)| SFrame::DeliverStart { ch, tag }),
        1 => (any::<u16>(), any::<u16>()).prop_map(|(ch, consumer)| SFrame::ConsumeOkDup { ch, consumer }),
        1 => (any::<u16>(), any::<u16>(), any::<bool>()).prop_map(|(ch, consumer, nowait)| SFrame::ServerCancel { ch, consumer, nowait }),
        1 => (any::<u16>(), any::<u16>()).prop_map(|(ch, code)| SFrame::ChannelClose { ch, code }),
        1 => (any::<u16>(), "[a-z ]{0,10}").prop_map(|(code, text)| SFrame::ConnectionClose { code, text }),
        1 => any::<bool>().prop_map(SFrame::Blocked),
        2 => (any::<bool>(), any::<u16>()).prop_map(|(empty, len)| SFrame::AnswerGet { empty, len }),
        4 => (any::<u16>(), any::<u16>(), any::<u16>(), any::<u16>()).prop_map(|(ch, consumer, size, sent)| SFrame::PartialContent { ch, consumer, size, sent }),
    ];
    // a valid prefix (so that violations strike in deep states), then arbitrary frames
    let valid = prop_oneof![
        6 => (any::<u16>(), any::<u16>(), any::<u16>(), vec(any::<u16>(), 0..4), gen::props()).prop_map(|(ch, consumer, len, chunks, props)| SFrame::ValidDeliver { ch, consumer, len, chunks, props }),
        2 => (any::<u16>(), any::<u16>()).prop_map(|(ch, len)| SFrame::ValidReturn { ch, len }),
        1 => Just(SFrame::Heartbeat { ch: ChSel::Zero }),
        1 => any::<bool>().prop_map(SFrame::Blocked),
        1 => (any::<bool>(), any::<u16>()).prop_map(|(empty, len)| SFrame::AnswerGet { empty, len }),
        1 => (any::<u16>(), any::<u16>(), any::<bool>()).prop_map(|(ch, consumer, nowait)| SFrame::ServerCancel { ch, consumer, nowait }),
    ];
    (vec((0u8..=2, any::<bool>()), 1..=3), prop::bool::weighted(0.3), vec(valid, 0..12), vec(frame, 1..10), any::<u64>(), any::<bool>())
        .prop_map(|(channels, get_in_flight, mut prefix, tail, salt, glued)| {
            prefix.extend(tail);
            Case {
                channels,
                get_in_flight,
                frames: prefix,
                salt,
                glued,
            }
        })
        .boxed()
}

pub fn parts() -> Vec<Box<dyn PartDyn>> {
    vec![
        Box::new(Part::<Case> {
            name: "e2e",
            rule: "steady sessions (1-3 channels, 0-2 consumers each, optional return listener, optional get in flight) followed by 1-24 server frames from an alphabet with a production per dispatch arm: valid deliveries/returns/get answers, heartbeats on any channel, all 64 methods on channel 0 / open / never-opened / 65535, stray headers (sizes incl. 2^31..2^64-1) and bodies, deliver-starts for known/unknown tags, duplicate ConsumeOk, server cancel, channel close, connection close, blocked/unblocked; oracle: a reference reader gives the compliant deliveries and the first violation; safety always (no panic, no abort, observed messages = prefix of the compliant reading, calls return), and when the first irregularity is one the property names the exact error / hard-error code on the wire; non-trivial = first violation with the collector mid-content or after >= 3 valid frames; distinct by case hash",
            cases: |t| t.pick(4000, 60_000),
            threads: 16,
            strategy: strat,
            exec,
            enumerate: None,
            shrink_budget: 300,
            confirm_runs: 2,
            fuzz: None,
            watchdog_s: 60,
        }),
        Box::new(Part::<ProbeCase> {
            name: "collector",
            rule: "arbitrary call sequences on the content collector (valid messages mixed with stray method/header/body calls, announced sizes 0..2^64-1) through the CollectorProbe hook vs. the reference collector: same accept / complete / FrameUnexpected at every step, no panic, no abort; non-trivial = a violation while content is outstanding or a multi-frame body; distinct by case hash",
            cases: |t| t.pick(200_000, 5_000_000),
            threads: 16,
            strategy: |_t| strat_arbitrary(),
            exec: exec_probe,
            enumerate: None,
            shrink_budget: 2000,
            confirm_runs: 1,
            fuzz: Some(crate::collector::fuzz_probe),
            watchdog_s: 0,
        }),
        // the violation and the application's own requests in one wake-up of the I/O thread
        Box::new(Part::<crate::checks::c20::Case> {
            name: "batch",
            rule: "C20's batch harness with a protocol violation instead of a server close: the I/O thread is parked inside the transport's write while a server frame that must raise a connection exception (Basic.Qos sent by the server on an open channel) and 1-3 client requests (open_channel auto/explicit, listen_for_connection_blocked, Connection::close; nowait publish, synchronous call, listener registration, Channel::close on two channels) are made pending in a generated order, so that they arrive in one poll batch; oracle: no I/O-thread panic, Connection::close returns ClientException, the client's Connection.Close is the last frame it writes, every racing request returns what it returns in a serial execution (before the violation / after it) or ClientException; non-trivial = the batch trace shows the intended tokens in the intended order in one batch; distinct by case hash",
            cases: |t| t.pick(160, 3000),
            threads: 8,
            strategy: |_t| {
                use crate::checks::c20::{Case as BCase, Kind, R0Kind, RChan};
                let req = prop::sample::subsequence(vec![Kind::R0, Kind::RA, Kind::RB], 1..=3);
                (
                    req,
                    any::<u16>(),
                    any::<u64>(),
                    prop_oneof![Just(R0Kind::OpenAuto), Just(R0Kind::OpenExplicit), Just(R0Kind::ListenBlocked), Just(R0Kind::Close)],
                    prop_oneof![Just(RChan::PublishNowait), Just(RChan::SyncCall), Just(RChan::ListenReturns), Just(RChan::CloseChannel)],
                    prop_oneof![Just(RChan::PublishNowait), Just(RChan::SyncCall), Just(RChan::ListenReturns), Just(RChan::CloseChannel)],
                )
                    .prop_map(|(mut order, pos, perm, r0, ra, rb)| {
                        // a generated permutation of the requests, the violation at a generated position
                        let mut p = perm;
                        for i in (1..order.len()).rev() {
                            let j = (p % (i as u64 + 1)) as usize;
                            p /= i as u64 + 1;
                            order.swap(i, j);
                        }
                        let at = crate::gen::pick(pos, order.len() + 1);
                        order.insert(at, Kind::SV);
                        BCase {
                            order,
                            r0,
                            ra,
                            rb,
                            code: 0,
                            text: String::new(),
                        }
                    })
                    .boxed()
            },
            exec: crate::checks::c20::exec,
            enumerate: None,
            shrink_budget: 30,
            confirm_runs: 3,
            fuzz: None,
            watchdog_s: 60,
        }),
    ]
}
