//! C17 — heartbeats: sent when idle, enforced on the server, off when 0.
//!
//! The only property decided against the wall clock. Tolerances: the client's timer wheel ticks
//! every 100 ms and `Heartbeat::fire` has a 5 ms fudge; lateness bounds are generous and a
//! lateness breach must recur on every re-execution before it is reported (CPU contention can
//! delay, never hasten). Lower-bound breaches ("declared dead too early", "declared dead
//! although fed") are reported at once.

use crate::broker::{AutoBroker, ServerCfg};
use crate::codec::encode;
use crate::run::{take_panics, Outcome, Part, PartDyn, Tier};
use crate::session::{open_session, timed, ClientCfg, CALL_TIMEOUT};
use amiquip::{Error, Publish};
use amq_protocol::frame::AMQPFrame;
use proptest::prelude::*;
use serde::{Deserialize, Serialize};
use std::sync::atomic::{AtomicBool, Ordering};
use std::sync::Arc;
use std::time::{Duration, Instant};

#[derive(Clone, Debug, Serialize, Deserialize, PartialEq)]
pub struct Case {
    /// client-side and server-side heartbeat options; the negotiated interval is their minimum
    pub client_hb: u8,
    pub server_hb: u8,
    /// server sends a heartbeat every `feed_pct` percent of the negotiated interval ...
    pub feed_pct: u8,
    /// ... until this many milliseconds after the start (None: for the whole window)
    pub silent_after_ms: Option<u16>,
    /// client publishes every `publish_pct` percent of the interval (None: idle client)
    pub publish_pct: Option<u8>,
    /// what the server feeds: heartbeats or other frames (any traffic counts)
    pub feed_other: bool,
    /// a slow server: Connection.OpenOk arrives 1.1-1.6 heartbeat intervals after Connection.Open
    /// (the timers run from Tune on, so at least one timer deadline passes during the handshake)
    #[serde(default)]
    pub slow_open_pct: Option<u8>,
    /// the server does not feed whole frames but one long frame in pieces, one piece per feed
    /// tick, so that more than two intervals pass without any frame being completed (received
    /// bytes count as traffic whether or not they complete a frame)
    #[serde(default)]
    pub trickle: bool,
    /// the transport accepts nothing for 1.2-1.6 intervals (beginning 0.3 intervals after the
    /// start) while a publisher keeps the output buffer non-empty; afterwards the client is idle
    /// and must resume its heartbeats
    #[serde(default)]
    pub stall_pct: Option<u8>,
    /// in a case with silence: the client calls Connection::close at the moment the server goes
    /// silent, so the silence has to be noticed by a connection that is closing
    #[serde(default)]
    pub close_into_silence: bool,
}

const LATE: Duration = Duration::from_millis(900);
const EARLY: Duration = Duration::from_millis(50);

pub fn exec(c: &Case) -> Outcome {
    let h = c.client_hb.min(c.server_hb) as u64;
    let ccfg = ClientCfg {
        heartbeat: c.client_hb as u16,
        ..Default::default()
    };
    let scfg = ServerCfg {
        heartbeat: c.server_hb as u16,
        open_ok_delay_ms: match c.slow_open_pct {
            Some(p) if h > 0 => h * 1000 * (110 + p as u64 % 51) / 100,
            _ => 0,
        },
        ..Default::default()
    };
    let mut broker = AutoBroker::new(1);
    broker.auto_grant = false; // a deliberate stall must not make the broker spin
    let mut sess = open_session(&ccfg, scfg, vec![], broker);
    let mut conn_slot = None;
    let mut conn = match sess.conn.take() {
        Some(c) => c,
        None => {
            let _ = sess.broker.stop();
            return Outcome {
                inconclusive: Some(format!("open failed {:?}", sess.open_error)),
                ..Default::default()
            };
        }
    };
    let wire = sess.wire.clone();
    let start = Instant::now();
    let hdur = Duration::from_secs(h);
    // window: long enough for two heartbeat periods plus the 2h death timer
    let window = if h == 0 { Duration::from_millis(2500) } else { hdur * 3 + Duration::from_millis(1000) };
    // optional stall of the transport (needs a publisher that keeps data queued)
    let stall: Option<(Duration, Duration)> = match c.stall_pct {
        Some(p) if h > 0 => {
            let from = Duration::from_millis(h * 300);
            Some((from, from + Duration::from_millis(h * 10 * (120 + p as u64 % 41))))
        }
        _ => None,
    };
    let window = match stall {
        Some((_, to)) => to + hdur * 2 + Duration::from_millis(1500),
        None => window,
    };
    let publish_pct = if stall.is_some() { Some(c.publish_pct.unwrap_or(0) % 30) } else { c.publish_pct };
    // optional publisher
    let stop = Arc::new(AtomicBool::new(false));
    let mut publisher = None;
    if let Some(pct) = publish_pct {
        if h > 0 {
            let every = Duration::from_millis((h * 1000) * (20 + pct as u64 % 130) / 100);
            match conn.open_channel(None) {
                Ok(ch) => {
                    let stop = stop.clone();
                    publisher = Some(std::thread::spawn(move || {
                        let mut n = 0;
                        while !stop.load(Ordering::SeqCst) {
                            if ch.basic_publish("", Publish::new(b"tick", "k")).is_err() {
                                break;
                            }
                            n += 1;
                            let t = Instant::now();
                            while t.elapsed() < every && !stop.load(Ordering::SeqCst) {
                                std::thread::sleep(Duration::from_millis(5));
                            }
                        }
                        std::mem::forget(ch); // (a few hundred cases per run: the two leaked descriptors per case do not matter)
                        n
                    }));
                }
                Err(e) => {
                    let _ = sess.broker.stop();
                    return Outcome::fail("open-channel-failed", format!("{:?}", e));
                }
            }
        }
    }
    let handshake_end = wire.out_len();
    // feed
    let feed_every = if h == 0 { Duration::from_millis(400) } else { Duration::from_millis((h * 1000) * (35 + c.feed_pct as u64 % 61) / 100) };
    let silent_after = c.silent_after_ms.filter(|_| c.stall_pct.is_none() || h == 0).map(|ms| Duration::from_millis(ms as u64 % (if h == 0 { 1000 } else { h * 1500 }).max(1)));
    let feeding_at_all = h > 0 || silent_after.is_some();
    let mut last_server_byte = Instant::now(); // OpenOk was just delivered
    let mut died_at: Option<Instant> = None;
    let mut next_feed = start + feed_every;
    let mut trickle_buf: Vec<u8> = Vec::new();
    let mut trickle_n = 0u32;
    let (mut stall_on, mut stall_over, mut stall_ended_at) = (false, false, None::<Instant>);
    loop {
        let now = Instant::now();
        if let Some((from, to)) = stall {
            let el = now.duration_since(start);
            if !stall_on && !stall_over && el >= from {
                wire.set_budget(Some(0));
                stall_on = true;
            }
            if stall_on && el >= to {
                // the publisher stops, the transport accepts everything again: an idle client
                stop.store(true, Ordering::SeqCst);
                // (taken before the budget is lifted: the flush that follows counts as a write
                // after the stall)
                stall_ended_at = Some(Instant::now());
                wire.set_budget(None);
                wire.grant(0);
                stall_on = false;
                stall_over = true;
            }
        }
        if wire.is_dropped() {
            died_at = Some(now);
            break;
        }
        let silent = silent_after.map_or(false, |s| now.duration_since(start) >= s);
        if silent && h > 0 && c.close_into_silence && !c.trickle {
            conn_slot = Some(());
            break;
        }
        if silent {
            // wait for the death: at most 2h + generous slack after the last byte
            if h == 0 {
                if now.duration_since(start) >= window {
                    break;
                }
            } else if now.duration_since(last_server_byte) > hdur * 2 + Duration::from_secs(4) {
                break;
            }
        } else if now.duration_since(start) >= window {
            break;
        }
        if !silent && feeding_at_all && h > 0 && now >= next_feed {
            let f = if c.feed_other {
                // a Basic.Ack on a channel that is open only if the publisher exists; use a
                // connection-level notice instead: Unblocked is always acceptable
                AMQPFrame::Method(
                    0,
                    amq_protocol::protocol::AMQPClass::Connection(amq_protocol::protocol::connection::AMQPMethod::Unblocked(amq_protocol::protocol::connection::Unblocked {})),
                )
            } else {
                AMQPFrame::Heartbeat(0)
            };
            if c.trickle {
                if trickle_buf.is_empty() {
                    // a frame of about 250 bytes, cut so that it takes more than 2.6 intervals
                    trickle_n += 1;
                    trickle_buf = encode(&AMQPFrame::Method(
                        0,
                        amq_protocol::protocol::AMQPClass::Connection(amq_protocol::protocol::connection::AMQPMethod::Blocked(amq_protocol::protocol::connection::Blocked {
                            reason: format!("{:0>240}", trickle_n),
                        })),
                    ));
                }
                let pieces = (hdur.as_millis() as u64 * 26 / 10 / (feed_every.as_millis() as u64).max(1) + 2) as usize;
                let piece = (253 + pieces - 1) / pieces;
                let n = piece.min(trickle_buf.len());
                let chunk: Vec<u8> = trickle_buf.drain(..n).collect();
                wire.push(chunk);
            } else {
                wire.push(encode(&f));
            }
            last_server_byte = Instant::now();
            next_feed += feed_every;
        }
        std::thread::sleep(Duration::from_millis(2));
    }
    if conn_slot.is_some() {
        // the server says nothing from here on, not even CloseOk; the client closes right now
        sess.broker.call(|b, _| b.mute = true);
        stop.store(true, Ordering::SeqCst);
        if let Some(p) = publisher {
            let _ = p.join();
        }
        let t0 = Instant::now();
        let close = timed(hdur * 2 + Duration::from_secs(4), "avh-c17-close-into-silence", move || conn.close());
        let returned = Instant::now();
        let io = wire.io_thread();
        let _ = sess.broker.stop();
        let ctx = format!("{:?} (negotiated {} s, Connection::close called {:?} after the last server byte)", c, h, t0.saturating_duration_since(last_server_byte));
        if let (Some(t), true) = (io, close.is_some()) {
            let p = take_panics(t);
            if !p.is_empty() {
                return Outcome::fail("io-thread-panic", format!("{} at {}", p[0].message, p[0].location));
            }
        }
        let since = returned.saturating_duration_since(last_server_byte);
        return match close {
            None => Outcome::hang("silence-not-detected", format!("Connection::close into a silent server had not returned {:?} after the last server byte\n{}", since, ctx)),
            Some(Err(Error::MissedServerHeartbeats)) => {
                if since + EARLY < hdur * 2 {
                    Outcome::fail("declared-dead-too-early", format!("MissedServerHeartbeats {:?} after the last server byte, must not be before {:?}\n{}", since, hdur * 2, ctx))
                } else if since > hdur * 2 + LATE {
                    Outcome::hang("death-detected-late", format!("MissedServerHeartbeats {:?} after the last server byte (limit {:?})\n{}", since, hdur * 2 + LATE, ctx))
                } else {
                    Outcome::pass(true).label(&format!("h={}", h)).label("silence").label("close-into-silence")
                }
            }
            Some(other) => Outcome::fail("silence-wrong-error", format!("close into silence: {:?}\n{}", other, ctx)),
        };
    }
    let alive = died_at.is_none();
    stop.store(true, Ordering::SeqCst);
    if alive && !trickle_buf.is_empty() {
        // a server finishes the frame it is sending before it sends anything else (CloseOk)
        wire.push(std::mem::take(&mut trickle_buf));
    }
    let close = timed(CALL_TIMEOUT, "avh-c17-close", move || conn.close());
    if let Some(p) = publisher {
        let _ = p.join();
    }
    let io = wire.io_thread();
    let _ = sess.broker.stop();
    if let Some(t) = io {
        let p = take_panics(t);
        if !p.is_empty() {
            return Outcome::fail("io-thread-panic", format!("{} at {}", p[0].message, p[0].location));
        }
    }
    let close = match close {
        Some(c) => c,
        None => return Outcome::hang("close-hang", "Connection::close did not return"),
    };
    let ctx = format!("{:?} (negotiated {} s, feed every {:?}, silent after {:?})", c, h, feed_every, silent_after);
    // outbound timing
    let (writes, out): (Vec<(usize, usize, Instant)>, Vec<u8>) = {
        let st = wire.lock();
        (st.write_calls.clone(), st.out.clone())
    };
    let after_handshake: Vec<Instant> = writes.iter().filter(|(off, _, _)| *off >= handshake_end).map(|(_, _, t)| *t).collect();
    if std::env::var("AVH_DEBUG").is_ok() {
        eprintln!("writes after handshake (s after start): {:?}", after_handshake.iter().map(|t| t.saturating_duration_since(start).as_secs_f64()).collect::<Vec<_>>());
        eprintln!("died_at {:?}", died_at.map(|t| t.duration_since(start).as_secs_f64()));
    }
    let d = crate::codec::decode_stream(&out);
    let heartbeats_sent = d.frames.iter().filter(|(r, f)| r.offset >= handshake_end && matches!(f, AMQPFrame::Heartbeat(_))).count();
    let end_of_life = died_at.unwrap_or_else(Instant::now);
    if h == 0 {
        if heartbeats_sent > 0 {
            return Outcome::fail("heartbeat-sent-although-disabled", format!("{} heartbeat frames\n{}", heartbeats_sent, ctx));
        }
        if !alive || close.is_err() {
            return Outcome::fail("silence-fatal-although-heartbeats-disabled", format!("alive={} close={:?}\n{}", alive, close, ctx));
        }
        return Outcome::pass(true).label("disabled");
    }
    // (1) idle => something is written at least every h seconds (checked while the client lived)
    let mut prev = start;
    let mut worst = Duration::from_secs(0);
    for t in after_handshake.iter().chain(std::iter::once(&end_of_life)) {
        if *t > end_of_life {
            break;
        }
        // while the transport accepted nothing the client could not write: the clock for the
        // next write starts when the stall ends
        if let Some(se) = stall_ended_at {
            if prev < se && *t >= se {
                prev = se;
            }
        }
        let gap = t.saturating_duration_since(prev);
        if gap > worst {
            worst = gap;
        }
        prev = *t;
    }
    if worst > hdur + LATE {
        // lateness: needs to recur on re-execution before it is believed
        return Outcome::hang("client-heartbeat-late-or-missing", format!("longest gap between client writes {:?} with a {} s interval\n{}", worst, h, ctx));
    }
    // (2) liveness / death
    match (silent_after, alive) {
        (None, true) => {
            if let Err(e) = &close {
                return Outcome::fail("fed-connection-failed", format!("close: {:?}\n{}", e, ctx));
            }
        }
        (None, false) => {
            return Outcome::fail("declared-dead-although-fed", format!("died {:?} after start, close {:?}\n{}", end_of_life.duration_since(start), close, ctx));
        }
        (Some(_), false) => {
            match &close {
                Err(Error::MissedServerHeartbeats) => {}
                other => return Outcome::fail("silence-wrong-error", format!("close: {:?}\n{}", other, ctx)),
            }
            let since = end_of_life.saturating_duration_since(last_server_byte);
            if since + EARLY < hdur * 2 {
                return Outcome::fail("declared-dead-too-early", format!("MissedServerHeartbeats {:?} after the last server byte, must not be before {:?}\n{}", since, hdur * 2, ctx));
            }
            if since > hdur * 2 + LATE {
                return Outcome::hang("death-detected-late", format!("MissedServerHeartbeats {:?} after the last server byte (limit {:?})\n{}", since, hdur * 2 + LATE, ctx));
            }
        }
        (Some(_), true) => {
            return Outcome::hang("silence-not-detected", format!("still alive {:?} after the last server byte\n{}", Instant::now().duration_since(last_server_byte), ctx));
        }
    }
    let mut o = Outcome::pass(true);
    o.labels.push(format!("h={}", h));
    o.labels.push(if silent_after.is_some() { "silence".into() } else { "fed".into() });
    if c.publish_pct.is_some() {
        o.labels.push("publishing-client".into());
    }
    if c.slow_open_pct.is_some() {
        o.labels.push("slow-open-ok".into());
    }
    if c.trickle {
        o.labels.push("trickled-frame".into());
    }
    if stall_ended_at.is_some() {
        o.labels.push("transport-stalled-with-data-queued".into());
    }
    if heartbeats_sent > 0 {
        o.labels.push("client-heartbeats-seen".into());
    }
    o
}

fn strat(t: Tier) -> BoxedStrategy<Case> {
    let hmax = t.pick(2u8, 3u8);
    (
        prop_oneof![1 => Just(0u8), 6 => 1u8..=hmax],
        prop_oneof![1 => Just(0u8), 6 => 1u8..=hmax, 1 => Just(60u8)],
        any::<u8>(),
        prop_oneof![1 => Just(None), 1 => any::<u16>().prop_map(Some)],
        prop_oneof![1 => Just(None), 1 => any::<u8>().prop_map(Some)],
        any::<bool>(),
        prop_oneof![3 => Just(None), 1 => any::<u8>().prop_map(Some)],
        prop::bool::weighted(0.25),
        prop_oneof![4 => Just(None), 1 => any::<u8>().prop_map(Some)],
        prop::bool::weighted(0.5),
    )
        .prop_map(|(client_hb, server_hb, feed_pct, silent_after_ms, publish_pct, feed_other, slow_open_pct, trickle, stall_pct, close_into_silence)| Case {
            client_hb,
            server_hb,
            feed_pct,
            silent_after_ms,
            publish_pct,
            feed_other,
            slow_open_pct,
            trickle,
            stall_pct,
            close_into_silence,
        })
        .boxed()
}

pub fn parts() -> Vec<Box<dyn PartDyn>> {
    vec![Box::new(Part::<Case> {
        name: "timing",
        rule: "client and server heartbeat options from {0, 1, 2 (3 in thorough), 60} (negotiated = minimum, 0 if either is 0), the server sending a heartbeat or another frame every 35-95 % of the interval either for the whole window (3h+1 s) or only until a generated moment after which it is silent, the client idle or publishing every 20-150 % of the interval, one case in four with the server's traffic being a single long frame trickled in pieces (no frame completes for more than two intervals), one in five with the transport accepting nothing for 1.2-1.6 intervals while a publisher keeps data queued (afterwards the client idles and must heartbeat again), half of the silence cases with the client calling Connection::close at the moment the server falls silent (no CloseOk comes: the close must fail with MissedServerHeartbeats under the same bounds), one case in four against a slow server whose OpenOk arrives 1.1-1.6 intervals after Open (a timer deadline passes during the handshake); all cases of a run execute concurrently; oracle on the real clock: longest gap between client writes <= h + 0.9 s, a fed connection lives the whole window and closes Ok, silence ends the connection with MissedServerHeartbeats not before 2h - 0.05 s and (confirmed by re-execution) not after 2h + 0.9 s after the last server byte, h = 0 => no heartbeat frame and no failure in 2.5 s; every executed case is non-trivial; distinct by case hash",
        cases: |t| t.pick(40, 384),
        threads: 64,
        strategy: strat,
        exec,
        enumerate: None,
        shrink_budget: 0,
        confirm_runs: 2,
            fuzz: None,
            watchdog_s: 60,
    })]
}
