//! C03 — inbound messages are reassembled and delivered exactly once, intact, in order.

use crate::broker::{content_frames, reply_for, BrokerIo, Responder, ServerCfg};
use crate::codec::encode;
use crate::collector::{exec_probe, strat_valid, ProbeCase};
use crate::gen::{self, body_bytes, chunk_sizes, pick, Props};
use crate::oracle::{check_stream_wellformed, per_channel};
use crate::run::{catch, take_panics, Outcome, Part, PartDyn, Tier};
use crate::session::{open_session, ClientCfg};
use crate::wire::InItem;
use amiquip::{Channel, Connection, ConsumerMessage, ConsumerOptions};
use amq_protocol::frame::AMQPFrame;
use amq_protocol::protocol::basic::AMQPMethod as Basic;
use amq_protocol::protocol::{basic, AMQPClass};
use proptest::collection::vec;
use proptest::prelude::*;
use serde::{Deserialize, Serialize};
use std::collections::HashMap;
use std::sync::mpsc;
use std::time::Duration;

#[derive(Clone, Debug, Serialize, Deserialize, PartialEq)]
pub enum Kind {
    Deliver { consumer: u16 },
    GetOk,
    GetEmpty,
    Return,
}

#[derive(Clone, Debug, Serialize, Deserialize, PartialEq)]
pub struct MsgSpec {
    pub kind: Kind,
    pub ch: u8,
    pub redelivered: bool,
    pub exchange: String,
    pub rk: String,
    pub count: u32,
    pub code: u16,
    pub text: String,
    pub dtag: u64,
    pub props: Props,
    pub body_len: u32,
    pub chunks: Vec<u16>,
}

#[derive(Clone, Debug, Serialize, Deserialize, PartialEq)]
pub struct Case {
    /// per channel: number of consumers (0-3) and whether a return listener is registered
    pub channels: Vec<(u8, bool)>,
    pub msgs: Vec<MsgSpec>,
    pub interleave: Vec<u16>,
    pub cuts: Vec<(u16, bool)>,
    /// one consumer (global index) that is not drained until everything else is done
    pub undrained: Option<u16>,
    pub salt: u64,
    /// per channel (cyclic): the return listener is dropped right after it was registered; the
    /// returned messages of that channel then have no recipient and are discarded, without any
    /// effect on the other messages
    #[serde(default)]
    pub dropped_listeners: Vec<bool>,
}

/// Resolved message: what exactly goes on the wire and who must receive it.
#[derive(Clone, Debug)]
struct Resolved {
    ch_idx: usize,
    kind: RKind,
    spec: MsgSpec,
    body: Vec<u8>,
}

#[derive(Clone, Debug, PartialEq)]
enum RKind {
    Deliver(usize), // consumer index within the channel
    GetOk,
    GetEmpty,
    Return,
}

fn resolve(c: &Case) -> Vec<Resolved> {
    let nch = c.channels.len().max(1);
    let mut out = Vec::new();
    for (i, m) in c.msgs.iter().enumerate() {
        let ch_idx = m.ch as usize % nch;
        let (ncons, listener) = c.channels.get(ch_idx).copied().unwrap_or((0, false));
        let kind = match &m.kind {
            Kind::Deliver { consumer } if ncons > 0 => RKind::Deliver(pick(*consumer, ncons as usize)),
            Kind::Deliver { .. } => RKind::GetOk,
            Kind::Return if listener => RKind::Return,
            Kind::Return => RKind::GetOk,
            Kind::GetOk => RKind::GetOk,
            Kind::GetEmpty => RKind::GetEmpty,
        };
        out.push(Resolved {
            ch_idx,
            kind,
            spec: m.clone(),
            body: body_bytes(m.body_len as usize, c.salt.wrapping_add(i as u64)),
        });
    }
    out
}

struct Item {
    bytes: Vec<u8>,
    needs_get: bool,
    msg: usize,
    is_body: bool,
}

pub struct Broker {
    salt: u64,
    seq: HashMap<u16, u32>,
    /// per channel index: frames to send, in order
    seqs: Vec<Vec<Item>>,
    pos: Vec<usize>,
    chan_ids: Vec<u16>,
    gets_seen: HashMap<u16, usize>,
    gets_started: Vec<usize>,
    started: bool,
    interleave: Vec<u16>,
    ipos: usize,
    cuts: Vec<(u16, bool)>,
    cpos: usize,
    /// global emission order: (channel index, message index, is_body)
    pub emitted: Vec<(usize, usize, bool)>,
    /// true if some segment boundary fell strictly inside a frame
    pub cut_inside_frame: bool,
    pub acks: HashMap<u16, Vec<(u64, bool)>>,
}

impl Broker {
    fn pump(&mut self, io: &mut BrokerIo) {
        if !self.started {
            return;
        }
        let mut pending: Vec<u8> = Vec::new();
        let mut bounds: Vec<usize> = Vec::new();
        loop {
            let cands: Vec<usize> = (0..self.seqs.len())
                .filter(|&c| {
                    self.pos[c] < self.seqs[c].len() && !(self.seqs[c][self.pos[c]].needs_get && self.gets_seen.get(&self.chan_ids[c]).copied().unwrap_or(0) <= self.gets_started[c])
                })
                .collect();
            if cands.is_empty() {
                break;
            }
            let h = if self.interleave.is_empty() { 0 } else { self.interleave[self.ipos % self.interleave.len()] };
            self.ipos += 1;
            let c = cands[pick(h, cands.len())];
            let item = &self.seqs[c][self.pos[c]];
            if item.needs_get {
                self.gets_started[c] += 1;
            }
            pending.extend_from_slice(&item.bytes);
            bounds.push(pending.len());
            self.emitted.push((c, item.msg, item.is_body));
            self.pos[c] += 1;
        }
        if pending.is_empty() {
            return;
        }
        // cut into read segments
        let mut items = Vec::new();
        let mut off = 0;
        while off < pending.len() {
            let left = pending.len() - off;
            let (h, block) = if self.cuts.is_empty() { (u16::MAX, false) } else { self.cuts[self.cpos % self.cuts.len()] };
            self.cpos += 1;
            let n = match h % 9 {
                0 => 1,
                1 => 2,
                2 => 3,
                3 => 5,
                4 => 7,
                5 => 8,
                _ => 1 + pick(h, left),
            }
            .min(left);
            items.push(InItem::Data(pending[off..off + n].to_vec()));
            off += n;
            if off < pending.len() && !bounds.contains(&off) {
                self.cut_inside_frame = true;
            }
            if block && off < pending.len() {
                items.push(InItem::Block);
            }
        }
        io.wire.push_items(items);
    }
}

impl Responder for Broker {
    fn on_frame(&mut self, io: &mut BrokerIo, frame: &AMQPFrame) {
        if let AMQPFrame::Method(ch, m) = frame {
            match m {
                AMQPClass::Basic(Basic::Get(_)) => {
                    *self.gets_seen.entry(*ch).or_insert(0) += 1;
                    self.pump(io);
                    return;
                }
                AMQPClass::Basic(Basic::Ack(a)) => {
                    self.acks.entry(*ch).or_default().push((a.delivery_tag, a.multiple));
                    return;
                }
                _ => {}
            }
            let seq = self.seq.entry(*ch).or_insert(0);
            if let Some(reply) = reply_for(self.salt, *ch, *seq, m) {
                *seq += 1;
                io.send_method(*ch, reply);
            }
        }
    }
    fn on_tick(&mut self, io: &mut BrokerIo) {
        self.pump(io);
    }
}

#[derive(Debug)]
struct ChanReport {
    gets: Vec<Result<Option<(u64, bool, String, String, u32, Vec<u8>, amiquip::AmqpProperties)>, String>>,
    consumers: Vec<Vec<(u64, bool, String, String, Vec<u8>, amiquip::AmqpProperties, u16)>>,
    returns: Vec<(u16, String, String, String, Vec<u8>, amiquip::AmqpProperties)>,
    extras: Vec<String>,
    errors: Vec<String>,
    acked: Vec<u64>,
    others_done_before_undrained: bool,
}

pub fn exec(c: &Case) -> Outcome {
    let mut c = c.clone();
    if c.channels.is_empty() {
        c.channels.push((1, false));
    }
    let nch = c.channels.len();
    let msgs = resolve(&c);
    let broker = Broker {
        salt: c.salt,
        seq: HashMap::new(),
        seqs: Vec::new(),
        pos: vec![0; nch],
        chan_ids: Vec::new(),
        gets_seen: HashMap::new(),
        gets_started: vec![0; nch],
        started: false,
        interleave: c.interleave.clone(),
        ipos: 0,
        cuts: c.cuts.clone(),
        cpos: 0,
        emitted: Vec::new(),
        cut_inside_frame: false,
        acks: HashMap::new(),
    };
    let mut sess = open_session(&ClientCfg::default(), ServerCfg::default(), vec![], broker);
    let mut conn: Connection = match sess.conn.take() {
        Some(c) => c,
        None => {
            let _ = sess.broker.stop();
            return Outcome {
                inconclusive: Some(format!("open failed {:?}", sess.open_error)),
                ..Default::default()
            };
        }
    };
    let wire = sess.wire.clone();
    // open channels on this thread
    let mut chans: Vec<Channel> = Vec::new();
    for _ in 0..nch {
        match conn.open_channel(None) {
            Ok(ch) => chans.push(ch),
            Err(e) => {
                let _ = sess.broker.stop();
                return Outcome::fail("open-channel-failed", format!("{:?}", e));
            }
        }
    }
    let chan_ids: Vec<u16> = chans.iter().map(|c| c.channel_id()).collect();
    // expected per channel
    let n_gets: Vec<usize> = (0..nch)
        .map(|i| msgs.iter().filter(|m| m.ch_idx == i && matches!(m.kind, RKind::GetOk | RKind::GetEmpty)).count())
        .collect();
    let undrained_global = c.undrained;
    // global consumer numbering: channel 0's consumers first
    let mut cons_base = vec![0usize; nch];
    let mut total_cons = 0;
    for i in 0..nch {
        cons_base[i] = total_cons;
        total_cons += c.channels[i].0 as usize;
    }
    let undrained = undrained_global.map(|u| pick(u, total_cons.max(1))).filter(|_| total_cons > 0);
    let (ready_tx, ready_rx) = mpsc::channel::<(usize, Vec<String>)>();
    let (rep_tx, rep_rx) = mpsc::channel::<(usize, ChanReport)>();
    // "everything except the undrained consumer is complete" rendezvous
    let others_done = std::sync::Arc::new(std::sync::atomic::AtomicUsize::new(0));
    let closed = std::sync::Arc::new(std::sync::atomic::AtomicBool::new(false));
    let mut handles = Vec::new();
    for (i, ch) in chans.into_iter().enumerate() {
        let (ncons, listener) = c.channels[i];
        let ready_tx = ready_tx.clone();
        let rep_tx = rep_tx.clone();
        let exp_counts: Vec<usize> = (0..ncons as usize)
            .map(|k| msgs.iter().filter(|m| m.ch_idx == i && m.kind == RKind::Deliver(k)).count())
            .collect();
        let listener_dropped = listener && !c.dropped_listeners.is_empty() && c.dropped_listeners[i % c.dropped_listeners.len()];
        let exp_returns = if listener_dropped { 0 } else { msgs.iter().filter(|m| m.ch_idx == i && m.kind == RKind::Return).count() };
        let ngets = n_gets[i];
        let base = cons_base[i];
        let others_done = others_done.clone();
        let closed = closed.clone();
        let nthreads = nch;
        handles.push(
            std::thread::Builder::new()
                .name(format!("avh-c03-ch{}", i))
                .spawn(move || {
                    let mut rep = ChanReport {
                        gets: Vec::new(),
                        consumers: vec![Vec::new(); ncons as usize],
                        returns: Vec::new(),
                        extras: Vec::new(),
                        errors: Vec::new(),
                        acked: Vec::new(),
                        others_done_before_undrained: true,
                    };
                    let mut consumers = Vec::new();
                    let mut tags = Vec::new();
                    for _ in 0..ncons {
                        match ch.basic_consume("q", ConsumerOptions::default()) {
                            Ok(cn) => {
                                tags.push(cn.consumer_tag().to_string());
                                consumers.push(cn);
                            }
                            Err(e) => rep.errors.push(format!("basic_consume: {:?}", e)),
                        }
                    }
                    let ret_rx = if listener {
                        match ch.listen_for_returns() {
                            Ok(r) if listener_dropped => {
                                drop(r);
                                None
                            }
                            Ok(r) => Some(r),
                            Err(e) => {
                                rep.errors.push(format!("listen_for_returns: {:?}", e));
                                None
                            }
                        }
                    } else {
                        None
                    };
                    // a synchronous call orders the listener registration before "ready"
                    if let Err(e) = ch.qos(0, 0, false) {
                        rep.errors.push(format!("qos: {:?}", e));
                    }
                    let _ = ready_tx.send((i, tags));
                    for _ in 0..ngets {
                        match ch.basic_get("q", false) {
                            Ok(Some(g)) => rep.gets.push(Ok(Some((
                                g.delivery.delivery_tag(),
                                g.delivery.redelivered,
                                g.delivery.exchange.clone(),
                                g.delivery.routing_key.clone(),
                                g.message_count,
                                g.delivery.body.clone(),
                                g.delivery.properties.clone(),
                            )))),
                            Ok(None) => rep.gets.push(Ok(None)),
                            Err(e) => rep.gets.push(Err(format!("{:?}", e))),
                        }
                    }
                    let to = Duration::from_secs(6);
                    let mut deliveries_to_ack = Vec::new();
                    let mut drain = |k: usize, rep: &mut ChanReport, deliveries_to_ack: &mut Vec<amiquip::Delivery>| {
                        for _ in 0..exp_counts[k] {
                            match consumers[k].receiver().recv_timeout(to) {
                                Ok(ConsumerMessage::Delivery(d)) => {
                                    rep.consumers[k].push((d.delivery_tag(), d.redelivered, d.exchange.clone(), d.routing_key.clone(), d.body.clone(), d.properties.clone(), d.verif_channel_id()));
                                    deliveries_to_ack.push(d);
                                }
                                Ok(other) => rep.errors.push(format!("consumer {} got {:?}", k, other)),
                                Err(_) => {
                                    rep.errors.push(format!("consumer {}: timeout/disconnect after {} of {} deliveries", k, rep.consumers[k].len(), exp_counts[k]));
                                    break;
                                }
                            }
                        }
                    };
                    for k in 0..consumers.len() {
                        if Some(base + k) != undrained {
                            drain(k, &mut rep, &mut deliveries_to_ack);
                        }
                    }
                    if let Some(r) = &ret_rx {
                        for _ in 0..exp_returns {
                            match r.recv_timeout(to) {
                                Ok(x) => rep.returns.push((x.reply_code, x.reply_text, x.exchange, x.routing_key, x.content, x.properties)),
                                Err(_) => {
                                    rep.errors.push(format!("return listener: timeout after {} of {}", rep.returns.len(), exp_returns));
                                    break;
                                }
                            }
                        }
                    }
                    // all threads have everything except the undrained consumer
                    others_done.fetch_add(1, std::sync::atomic::Ordering::SeqCst);
                    let t0 = std::time::Instant::now();
                    while others_done.load(std::sync::atomic::Ordering::SeqCst) < nthreads {
                        if t0.elapsed() > Duration::from_secs(8) {
                            rep.others_done_before_undrained = false;
                            break;
                        }
                        std::thread::sleep(Duration::from_millis(1));
                    }
                    for k in 0..consumers.len() {
                        if Some(base + k) == undrained {
                            drain(k, &mut rep, &mut deliveries_to_ack);
                        }
                    }
                    // barrier, then nothing more may be queued anywhere (exactly once)
                    if let Err(e) = ch.qos(0, 0, false) {
                        rep.errors.push(format!("final qos: {:?}", e));
                    }
                    for (k, cn) in consumers.iter().enumerate() {
                        if let Ok(m) = cn.receiver().try_recv() {
                            rep.extras.push(format!("consumer {} has an extra message {:?}", k, m));
                        }
                    }
                    if let Some(r) = &ret_rx {
                        if let Ok(m) = r.try_recv() {
                            rep.extras.push(format!("return listener has an extra message (code {})", m.reply_code));
                        }
                    }
                    // ack everything through the channel it arrived on: must not panic
                    for d in deliveries_to_ack {
                        let tag = d.delivery_tag();
                        match catch(std::panic::AssertUnwindSafe(|| d.ack(&ch))) {
                            Ok(Ok(())) => rep.acked.push(tag),
                            Ok(Err(e)) => rep.errors.push(format!("ack failed: {:?}", e)),
                            Err(p) => rep.errors.push(format!("PANIC acking a delivery through its own channel: {}", p.message)),
                        }
                    }
                    if let Err(e) = ch.qos(0, 0, false) {
                        rep.errors.push(format!("post-ack qos: {:?}", e));
                    }
                    let _ = rep_tx.send((i, rep));
                    // keep the consumers until the connection is closed (their cancel traffic is
                    // C11's business); dropping them then fails fast and frees their queues
                    let t0 = std::time::Instant::now();
                    while !closed.load(std::sync::atomic::Ordering::SeqCst) && t0.elapsed() < Duration::from_secs(60) {
                        std::thread::sleep(Duration::from_millis(1));
                    }
                    drop(consumers);
                    ch
                })
                .expect("spawn"),
        );
    }
    drop(ready_tx);
    drop(rep_tx);
    // collect tags
    let mut tags: Vec<Vec<String>> = vec![Vec::new(); nch];
    for _ in 0..nch {
        match ready_rx.recv_timeout(Duration::from_secs(10)) {
            Ok((i, t)) => tags[i] = t,
            Err(_) => {
                wire.push_eof();
                closed.store(true, std::sync::atomic::Ordering::SeqCst);
                let _ = sess.broker.stop();
                return Outcome::hang("setup-hang", "channel threads did not become ready");
            }
        }
    }
    // build per-channel frame sequences and start the broker's history
    let mut seqs: Vec<Vec<Item>> = (0..nch).map(|_| Vec::new()).collect();
    for (mi, m) in msgs.iter().enumerate() {
        let chid = chan_ids[m.ch_idx];
        let s = &m.spec;
        let sizes = chunk_sizes(m.body.len(), &s.chunks, 5000);
        let frames: Vec<AMQPFrame> = match &m.kind {
            RKind::Deliver(k) => content_frames(
                chid,
                AMQPClass::Basic(Basic::Deliver(basic::Deliver {
                    consumer_tag: tags[m.ch_idx].get(*k).cloned().unwrap_or_default(),
                    delivery_tag: s.dtag,
                    redelivered: s.redelivered,
                    exchange: s.exchange.clone(),
                    routing_key: s.rk.clone(),
                })),
                &s.props.to_amqp(),
                &m.body,
                &sizes,
            ),
            RKind::GetOk => content_frames(
                chid,
                AMQPClass::Basic(Basic::GetOk(basic::GetOk {
                    delivery_tag: s.dtag,
                    redelivered: s.redelivered,
                    exchange: s.exchange.clone(),
                    routing_key: s.rk.clone(),
                    message_count: s.count,
                })),
                &s.props.to_amqp(),
                &m.body,
                &sizes,
            ),
            RKind::GetEmpty => vec![AMQPFrame::Method(chid, AMQPClass::Basic(Basic::GetEmpty(basic::GetEmpty { cluster_id: String::new() })))],
            RKind::Return => content_frames(
                chid,
                AMQPClass::Basic(Basic::Return(basic::Return {
                    reply_code: s.code,
                    reply_text: s.text.clone(),
                    exchange: s.exchange.clone(),
                    routing_key: s.rk.clone(),
                })),
                &s.props.to_amqp(),
                &m.body,
                &sizes,
            ),
        };
        for (fi, f) in frames.iter().enumerate() {
            seqs[m.ch_idx].push(Item {
                bytes: encode(f),
                needs_get: fi == 0 && matches!(m.kind, RKind::GetOk | RKind::GetEmpty),
                msg: mi,
                is_body: matches!(f, AMQPFrame::Body(..)),
            });
        }
    }
    let ids2 = chan_ids.clone();
    sess.broker.cmd(move |b, _io| {
        b.seqs = seqs;
        b.chan_ids = ids2;
        b.started = true;
    });
    // wait for the channel threads
    let mut reports: Vec<Option<ChanReport>> = (0..nch).map(|_| None).collect();
    for _ in 0..nch {
        match rep_rx.recv_timeout(Duration::from_secs(40)) {
            Ok((i, r)) => reports[i] = Some(r),
            Err(_) => {
                wire.push_eof();
                closed.store(true, std::sync::atomic::Ordering::SeqCst);
                let _ = sess.broker.stop();
                return Outcome::hang("delivery-hang", format!("a channel thread did not finish; reports so far: {:?}", reports.iter().map(|r| r.is_some()).collect::<Vec<_>>()));
            }
        }
    }
    let close = crate::session::timed_close(conn);
    closed.store(true, std::sync::atomic::Ordering::SeqCst);
    let mut back = Vec::new();
    for h in handles {
        if let Ok(ch) = h.join() {
            back.push(ch);
        }
    }
    drop(back);
    let io_thread = wire.io_thread();
    let (b, _io) = sess.broker.stop();
    if let Some(t) = io_thread {
        let p = take_panics(t);
        if !p.is_empty() {
            return Outcome::fail("io-thread-panic", format!("{:?}", p));
        }
    }
    match close {
        Some(Ok(())) => {}
        Some(Err(e)) => return Outcome::fail("connection-failed", format!("Connection::close: {:?}; thread errors: {:?}", e, reports.iter().flatten().flat_map(|r| r.errors.clone()).collect::<Vec<_>>())),
        None => return Outcome::hang("close-hang", "Connection::close did not return"),
    }
    // oracle
    for (i, rep) in reports.iter().enumerate() {
        let rep = rep.as_ref().unwrap();
        if let Some(e) = rep.errors.first() {
            let sig = if e.contains("PANIC") { "ack-through-own-channel-panicked" } else if e.contains("timeout") { "message-not-delivered" } else { "client-call-failed" };
            return Outcome::fail(sig, format!("channel idx {}: {:?}", i, rep.errors));
        }
        if let Some(e) = rep.extras.first() {
            return Outcome::fail("message-delivered-more-than-once", format!("channel idx {}: {}", i, e));
        }
        if !rep.others_done_before_undrained {
            return Outcome::fail("undrained-consumer-delays-others", format!("channel idx {}", i));
        }
        // consumers
        for k in 0..c.channels[i].0 as usize {
            let want: Vec<&Resolved> = msgs.iter().filter(|m| m.ch_idx == i && m.kind == RKind::Deliver(k)).collect();
            let got = &rep.consumers[k];
            if got.len() != want.len() {
                return Outcome::fail("delivery-count", format!("channel idx {} consumer {}: {} deliveries, expected {}", i, k, got.len(), want.len()));
            }
            for (j, (g, w)) in got.iter().zip(want.iter()).enumerate() {
                let s = &w.spec;
                if g.0 != s.dtag || g.1 != s.redelivered || g.2 != s.exchange || g.3 != s.rk {
                    return Outcome::fail("delivery-metadata-differs", format!("channel idx {} consumer {} delivery {}: got ({}, {}, {:?}, {:?}) expected ({}, {}, {:?}, {:?})", i, k, j, g.0, g.1, g.2, g.3, s.dtag, s.redelivered, s.exchange, s.rk));
                }
                if g.4 != w.body {
                    return Outcome::fail("delivery-body-differs", format!("channel idx {} consumer {} delivery {}: {} bytes, expected {} (order or content)", i, k, j, g.4.len(), w.body.len()));
                }
                if g.5 != s.props.to_amqp() {
                    return Outcome::fail("delivery-properties-differ", format!("channel idx {} consumer {} delivery {}", i, k, j));
                }
                if g.6 != chan_ids[i] {
                    return Outcome::fail("delivery-channel-id-wrong", format!("delivery carries channel id {} but arrived on {}", g.6, chan_ids[i]));
                }
            }
        }
        // gets
        let want: Vec<&Resolved> = msgs.iter().filter(|m| m.ch_idx == i && matches!(m.kind, RKind::GetOk | RKind::GetEmpty)).collect();
        for (j, (g, w)) in rep.gets.iter().zip(want.iter()).enumerate() {
            match (g, &w.kind) {
                (Ok(None), RKind::GetEmpty) => {}
                (Ok(Some(g)), RKind::GetOk) => {
                    let s = &w.spec;
                    if g.0 != s.dtag || g.1 != s.redelivered || g.2 != s.exchange || g.3 != s.rk || g.4 != s.count {
                        return Outcome::fail("get-metadata-differs", format!("channel idx {} get {}: got ({},{},{:?},{:?},{}) expected ({},{},{:?},{:?},{})", i, j, g.0, g.1, g.2, g.3, g.4, s.dtag, s.redelivered, s.exchange, s.rk, s.count));
                    }
                    if g.5 != w.body {
                        return Outcome::fail("get-body-differs", format!("channel idx {} get {}: {} bytes expected {}", i, j, g.5.len(), w.body.len()));
                    }
                    if g.6 != s.props.to_amqp() {
                        return Outcome::fail("get-properties-differ", format!("channel idx {} get {}", i, j));
                    }
                }
                (g, k) => return Outcome::fail("get-answered-with-wrong-message", format!("channel idx {} get {}: got {:?}, the server answered with {:?}", i, j, g.as_ref().map(|o| o.as_ref().map(|t| t.0)), k)),
            }
        }
        // returns
        let listener_dropped = c.channels[i].1 && !c.dropped_listeners.is_empty() && c.dropped_listeners[i % c.dropped_listeners.len()];
        let want: Vec<&Resolved> = msgs.iter().filter(|m| m.ch_idx == i && m.kind == RKind::Return && !listener_dropped).collect();
        if rep.returns.len() != want.len() {
            return Outcome::fail("return-count", format!("channel idx {}: {} returns, expected {}", i, rep.returns.len(), want.len()));
        }
        for (j, (g, w)) in rep.returns.iter().zip(want.iter()).enumerate() {
            let s = &w.spec;
            if g.0 != s.code || g.1 != s.text || g.2 != s.exchange || g.3 != s.rk || g.4 != w.body || g.5 != s.props.to_amqp() {
                return Outcome::fail("return-differs", format!("channel idx {} return {}", i, j));
            }
        }
        // acks on the wire: right channel, right tags, in order
        let wire_acks: Vec<u64> = b.acks.get(&chan_ids[i]).map(|v| v.iter().map(|(t, _)| *t).collect()).unwrap_or_default();
        if wire_acks != rep.acked {
            return Outcome::fail("ack-on-wrong-channel-or-tag", format!("channel {}: wire acks {:?}, acked {:?}", chan_ids[i], wire_acks, rep.acked));
        }
    }
    let out = wire.out_snapshot();
    if let Err((s, m)) = check_stream_wellformed(&out).map(|d| per_channel(&d)) {
        return Outcome::fail(s, m);
    }
    // non-triviality, measured from what the broker actually emitted
    let mut interleaved = false;
    for mi in 0..msgs.len() {
        let idx: Vec<usize> = b.emitted.iter().enumerate().filter(|(_, e)| e.1 == mi).map(|(i, _)| i).collect();
        let bodies = b.emitted.iter().filter(|e| e.1 == mi && e.2).count();
        if bodies >= 2 {
            if let (Some(a), Some(z)) = (idx.first(), idx.last()) {
                if b.emitted[*a..=*z].iter().any(|e| e.0 != msgs[mi].ch_idx) {
                    interleaved = true;
                }
            }
        }
    }
    let mut o = Outcome::pass(interleaved || b.cut_inside_frame);
    if interleaved {
        o.labels.push("multi-frame-body-interleaved-with-other-channel".into());
    }
    if b.cut_inside_frame {
        o.labels.push("read-boundary-inside-frame".into());
    }
    if undrained.is_some() {
        o.labels.push("undrained-consumer".into());
    }
    o
}

fn strat(_t: Tier) -> BoxedStrategy<Case> {
    let kind = prop_oneof![
        5 => any::<u16>().prop_map(|consumer| Kind::Deliver { consumer }),
        2 => Just(Kind::GetOk),
        1 => Just(Kind::GetEmpty),
        2 => Just(Kind::Return),
    ];
    let msg = (
        (kind, 0u8..4, any::<bool>(), gen::short_string(), gen::short_string(), any::<u32>()),
        (any::<u16>(), gen::short_string(), any::<u64>(), gen::props(), prop_oneof![2 => Just(0u32), 2 => 1u32..30, 3 => 30u32..2000, 1 => 2000u32..12000], vec(any::<u16>(), 0..5)),
    )
        .prop_map(|((kind, ch, redelivered, exchange, rk, count), (code, text, dtag, props, body_len, chunks))| MsgSpec {
            kind,
            ch,
            redelivered,
            exchange,
            rk,
            count,
            code,
            text,
            dtag,
            props,
            body_len,
            chunks,
        });
    (
        vec((0u8..=3, any::<bool>()), 1..=4),
        vec(msg, 1..30),
        vec(any::<u16>(), 0..16),
        vec((any::<u16>(), prop::bool::weighted(0.3)), 0..12),
        prop_oneof![2 => Just(None), 1 => any::<u16>().prop_map(Some)],
        any::<u64>(),
        vec(prop::bool::weighted(0.3), 0..4),
    )
        .prop_map(|(channels, msgs, interleave, cuts, undrained, salt, dropped_listeners)| Case {
            channels,
            msgs,
            interleave,
            cuts,
            undrained,
            salt,
            dropped_listeners,
        })
        .boxed()
}

// ---------------------------------------------------------------------------------------------
// flood: a consumer that never drains its queue, however many messages pile up

#[derive(Clone, Debug, Serialize, Deserialize, PartialEq)]
pub struct FloodCase {
    /// deliveries sent to the undrained consumer before anything else happens
    pub backlog: u32,
    pub body_len: u8,
}

pub struct FloodBroker {
    salt: u64,
    seq: HashMap<u16, u32>,
}

impl Responder for FloodBroker {
    fn on_frame(&mut self, io: &mut BrokerIo, frame: &AMQPFrame) {
        if let AMQPFrame::Method(ch, m) = frame {
            let seq = self.seq.entry(*ch).or_insert(0);
            if let Some(reply) = reply_for(self.salt, *ch, *seq, m) {
                *seq += 1;
                io.send_method(*ch, reply);
            }
        }
    }
}

pub fn exec_flood(c: &FloodCase) -> Outcome {
    let mut sess = open_session(&ClientCfg::default(), ServerCfg::default(), vec![], FloodBroker { salt: 9, seq: HashMap::new() });
    let mut conn = match sess.conn.take() {
        Some(c) => c,
        None => {
            let _ = sess.broker.stop();
            return Outcome {
                inconclusive: Some(format!("open failed {:?}", sess.open_error)),
                ..Default::default()
            };
        }
    };
    let wire = sess.wire.clone();
    let n = c.backlog as usize;
    let body = body_bytes(c.body_len as usize, 5);
    let bh = std::sync::Arc::new(sess.broker);
    let bh2 = bh.clone();
    let body2 = body.clone();
    let res = crate::session::timed(Duration::from_secs(60), "avh-c03-flood", move || -> Result<(), (String, String)> {
        let slow_ch = conn.open_channel(None).map_err(|e| ("setup-failed".to_string(), format!("{:?}", e)))?;
        let fast_ch = conn.open_channel(None).map_err(|e| ("setup-failed".to_string(), format!("{:?}", e)))?;
        let slow = slow_ch.basic_consume("slow", ConsumerOptions::default()).map_err(|e| ("setup-failed".to_string(), format!("{:?}", e)))?;
        let fast = fast_ch.basic_consume("fast", ConsumerOptions::default()).map_err(|e| ("setup-failed".to_string(), format!("{:?}", e)))?;
        let (slow_id, fast_id) = (slow_ch.channel_id(), fast_ch.channel_id());
        let (slow_tag, fast_tag) = (slow.consumer_tag().to_string(), fast.consumer_tag().to_string());
        // the whole backlog, then one delivery for the other consumer
        let b3 = body2.clone();
        bh2.cmd(move |_b, io| {
            let mut bytes = Vec::with_capacity(n * 64);
            for i in 0..n {
                for f in content_frames(
                    slow_id,
                    AMQPClass::Basic(Basic::Deliver(basic::Deliver {
                        consumer_tag: slow_tag.clone(),
                        delivery_tag: i as u64 + 1,
                        redelivered: false,
                        exchange: String::new(),
                        routing_key: "s".into(),
                    })),
                    &amiquip::AmqpProperties::default(),
                    &b3,
                    &[1000],
                ) {
                    bytes.extend_from_slice(&encode(&f));
                }
                if bytes.len() > 1 << 20 {
                    io.wire.push(std::mem::take(&mut bytes));
                }
            }
            for f in content_frames(
                fast_id,
                AMQPClass::Basic(Basic::Deliver(basic::Deliver {
                    consumer_tag: fast_tag.clone(),
                    delivery_tag: 1,
                    redelivered: false,
                    exchange: String::new(),
                    routing_key: "f".into(),
                })),
                &amiquip::AmqpProperties::default(),
                b"for the other consumer",
                &[1000],
            ) {
                bytes.extend_from_slice(&encode(&f));
            }
            io.wire.push(bytes);
        });
        // nobody reads `slow`; the other consumer and a synchronous reply must not be delayed
        match fast.receiver().recv_timeout(Duration::from_secs(20)) {
            Ok(ConsumerMessage::Delivery(d)) if d.body == b"for the other consumer" => {}
            other => return Err(("undrained-consumer-delays-others".to_string(), format!("the other consumer got {:?} while {} deliveries were queued for the undrained one", other.map(|_| "something else"), n))),
        }
        fast_ch.qos(0, 0, false).map_err(|e| ("undrained-consumer-delays-others".to_string(), format!("a synchronous call on another channel failed with a backlog of {}: {:?}", n, e)))?;
        // now drain: everything is there, once, in order, intact
        for i in 0..n {
            match slow.receiver().recv_timeout(Duration::from_secs(10)) {
                Ok(ConsumerMessage::Delivery(d)) => {
                    if d.delivery_tag() != i as u64 + 1 || d.body != body2 {
                        return Err(("backlog-message-differs".to_string(), format!("message {} of the backlog has tag {} / {} bytes", i + 1, d.delivery_tag(), d.body.len())));
                    }
                }
                other => return Err(("backlog-message-lost".to_string(), format!("after {} of {} backlog messages: {:?}", i, n, other.map(|_| "a non-delivery")))),
            }
        }
        if slow.receiver().try_recv().is_ok() {
            return Err(("message-delivered-more-than-once".to_string(), "extra message after the backlog".to_string()));
        }
        std::mem::forget(slow);
        std::mem::forget(fast);
        conn.close().map_err(|e| ("connection-failed".to_string(), format!("{:?}", e)))?;
        drop(slow_ch);
        drop(fast_ch);
        Ok(())
    });
    let io = wire.io_thread();
    if let Ok(b) = std::sync::Arc::try_unwrap(bh) {
        let _ = b.stop();
    } else {
        wire.push_eof();
    }
    if let Some(t) = io {
        let p = take_panics(t);
        if !p.is_empty() {
            return Outcome::fail("io-thread-panic", format!("{} at {}", p[0].message, p[0].location));
        }
    }
    match res {
        None => {
            wire.push_eof();
            Outcome::hang("flood-hang", format!("session with a backlog of {} did not finish", n))
        }
        Some(Err((s, m))) => Outcome::fail(s, m),
        Some(Ok(())) => Outcome::pass(n >= 2).label(if n >= 60_000 { "backlog>=60000" } else if n >= 1000 { "backlog>=1000" } else { "backlog<1000" }),
    }
}

fn flood_strat(_t: Tier) -> BoxedStrategy<FloodCase> {
    // powers of two and their neighbours up to 2^17, plus small uniform sizes
    let backlog = prop_oneof![
        4 => 0u32..600,
        2 => (4u32..=13, -1i32..=1).prop_map(|(k, d)| ((1i64 << k) + d as i64) as u32),
        1 => (14u32..=17, -1i32..=1).prop_map(|(k, d)| ((1i64 << k) + d as i64) as u32),
    ];
    (backlog, prop_oneof![Just(0u8), 1u8..40]).prop_map(|(backlog, body_len)| FloodCase { backlog, body_len }).boxed()
}

fn flood_enum(_t: Tier) -> Vec<FloodCase> {
    [255u32, 256, 65_535, 65_536, 65_537]
        .iter()
        .map(|b| FloodCase { backlog: *b, body_len: 0 })
        .collect()
}

pub fn parts() -> Vec<Box<dyn PartDyn>> {
    vec![
        Box::new(Part::<FloodCase> {
            name: "flood",
            rule: "one consumer never drains its queue while the broker sends it a backlog of N deliveries (N from small values and powers of two +-1 up to 2^17, the values 255/256/65535/65536/65537 always included), then one delivery to a consumer on another channel and a synchronous call there; oracle: the other consumer and the call are served, afterwards the backlog is there completely, once, in order, intact, and the connection closes Ok; non-trivial = N >= 2; distinct by case hash",
            cases: |t| t.pick(60, 1500),
            threads: 8,
            strategy: flood_strat,
            exec: exec_flood,
            enumerate: Some(flood_enum),
            shrink_budget: 40,
            confirm_runs: 2,
            fuzz: None,
            watchdog_s: 120,
        }),
        Box::new(Part::<Case> {
            name: "e2e",
            rule: "valid server histories: 1-4 channels (a thread each) with 0-3 consumers and an optional return listener (kept, or dropped right after registration so that its channel's returned messages have no recipient), 1-29 messages (deliver / get-ok / get-empty / return, generated metadata and properties, bodies 0-12 000 bytes cut into generated body frames incl. 1-byte frames), a generated interleaving of the channels' frame sequences and a generated segmentation of the byte stream into reads (1-8 byte segments, would-block markers); optionally one consumer is not drained until all others are done; oracle: every receiver / get / return listener yields exactly the scripted messages, field by field, in order, exactly once (nothing queued after a final barrier), acks through the arrival channel do not panic and reach the wire on that channel; non-trivial = a multi-frame body has another channel's frame in between, or a read boundary falls inside a frame; distinct by case hash",
            cases: |t| t.pick(2000, 30_000),
            threads: 12,
            strategy: strat,
            exec,
            enumerate: None,
            shrink_budget: 200,
            confirm_runs: 2,
            fuzz: None,
            watchdog_s: 60,
        }),
        Box::new(Part::<ProbeCase> {
            name: "collector",
            rule: "valid call sequences (1-5 messages: deliver/return/get-ok, header, body frames adding up exactly, bodies 0-20 000 bytes in 1..n frames) on the content collector through the CollectorProbe hook vs. a reference collector: identical None/Some(message) at every step, message equal field by field; non-trivial = a body of >= 2 frames; distinct by case hash",
            cases: |t| t.pick(150_000, 3_000_000),
            threads: 16,
            strategy: |_t| strat_valid(),
            exec: exec_probe,
            enumerate: None,
            shrink_budget: 2000,
            confirm_runs: 1,
            fuzz: None,
            watchdog_s: 0,
        }),
    ]
}
