//! C11 — a consumer ends with exactly one terminal message and nothing after it.

use crate::broker::{content_frames, reply_for, BrokerIo, Responder, ServerCfg};
use crate::gen::{body_bytes, pick};
use crate::oracle::{check_stream_wellformed, per_channel};
use crate::run::{take_panics, Outcome, Part, PartDyn, Tier};
use crate::session::{open_session, timed, ClientCfg, CALL_TIMEOUT};
use amiquip::{Channel, Consumer, ConsumerMessage, ConsumerOptions, Error};
use amq_protocol::frame::AMQPFrame;
use amq_protocol::protocol::basic::AMQPMethod as Basic;
use amq_protocol::protocol::channel::AMQPMethod as Chan;
use amq_protocol::protocol::connection::AMQPMethod as Conn;
use amq_protocol::protocol::{basic, channel, connection, AMQPClass};
use crossbeam_channel::Receiver;
use proptest::collection::vec;
use proptest::prelude::*;
use serde::{Deserialize, Serialize};
use std::collections::HashMap;
use std::time::Duration;

#[derive(Clone, Debug, Serialize, Deserialize, PartialEq)]
pub enum Ev {
    /// start a consumer on channel index
    Consume { ch: u8 },
    /// server delivers one message to consumer (index into consumers started so far)
    Deliver { c: u16, len: u16 },
    /// client cancels; the broker delivers `extra` more messages before CancelOk
    ClientCancel {
        c: u16,
        extra: u8,
        /// the server's own cancel notification for the same consumer (nowait = false) crosses the
        /// client's cancel: it arrives right behind the CancelOk and must be answered too
        #[serde(default)]
        crossed: bool,
    },
    /// drop the Consumer (implicit cancel); the receiver handle is kept by the harness
    DropConsumer {
        c: u16,
        extra: u8,
        /// the Consumer is dropped by a panic unwinding through its owner (a worker that panics
        /// while it holds a consumer) instead of an ordinary drop
        #[serde(default)]
        unwinding: bool,
    },
    /// forget the Consumer without cancelling (mem::forget): it stays registered
    Forget { c: u16 },
    ServerCancel { c: u16, nowait: bool },
    ClientCloseChannel { ch: u8 },
    ServerCloseChannel { ch: u8, code: u16, text: String },
    /// the client closes the channel and the server closes it at the same moment: the server's
    /// Close reaches the client first, followed by the CloseOk for the client's own Close
    CrossedCloseChannel { ch: u8, code: u16 },
    ClientCloseConnection,
    ServerCloseConnection { code: u16, text: String },
}

#[derive(Clone, Debug, Serialize, Deserialize, PartialEq)]
pub struct Case {
    pub channels: u8,
    pub events: Vec<Ev>,
    pub salt: u64,
    /// keep a clone of the receiver when dropping a consumer (false = let the receiver go with it)
    pub keep_rx_on_drop: bool,
    /// the server names a new consumer with the tag of an earlier consumer of that channel which
    /// has ended (AMQP only wants tags unique among *active* consumers; a server that derives
    /// tags from queue names does this whenever a queue is consumed again)
    #[serde(default)]
    pub reuse_tags: bool,
}

#[derive(Clone, Debug, PartialEq)]
enum Term {
    ClientCancelled,
    ServerCancelled,
    ClientClosedChannel,
    ServerClosedChannel(u16, u16, String),
    ClientClosedConnection,
    ServerClosedConnection(u16, String),
}

/// Broker: auto-replies, but a Basic.Cancel from the client is answered only after `extra`
/// deliveries for that tag (configured by the driver before it calls cancel).
pub struct Broker {
    salt: u64,
    seq: HashMap<u16, u32>,
    pub extra_before_cancel_ok: HashMap<String, Vec<Vec<u8>>>,
    pub next_tag: u64,
    /// channel id -> reply code: answer the client's Channel.Close with our own Close + CloseOk
    pub cross_close: HashMap<u16, u16>,
    pub reuse_tags: bool,
    /// per channel: tags of consumers that have ended as far as the server is concerned
    pub free_tags: HashMap<u16, Vec<String>>,
    /// tags whose client cancel is answered with CancelOk followed by the server's own
    /// Basic.Cancel (nowait = false) for the same tag
    pub crossed_cancel: std::collections::HashSet<String>,
}

impl Responder for Broker {
    fn on_frame(&mut self, io: &mut BrokerIo, frame: &AMQPFrame) {
        if let AMQPFrame::Method(ch, m) = frame {
            let seq = self.seq.entry(*ch).or_insert(0);
            if let AMQPClass::Basic(Basic::Cancel(c)) = m {
                if let Some(bodies) = self.extra_before_cancel_ok.remove(&c.consumer_tag) {
                    for b in bodies {
                        self.next_tag += 1;
                        for f in deliver_frames(*ch, &c.consumer_tag, self.next_tag, &b) {
                            io.send(f);
                        }
                    }
                }
            }
            if let AMQPClass::Channel(Chan::Close(_)) = m {
                if let Some(code) = self.cross_close.remove(ch) {
                    *seq += 1;
                    io.send_glued(vec![
                        AMQPFrame::Method(
                            *ch,
                            AMQPClass::Channel(Chan::Close(channel::Close {
                                reply_code: code,
                                reply_text: "crossed".into(),
                                class_id: 0,
                                method_id: 0,
                            })),
                        ),
                        AMQPFrame::Method(*ch, AMQPClass::Channel(Chan::CloseOk(channel::CloseOk {}))),
                    ]);
                    return;
                }
            }
            if self.reuse_tags {
                match m {
                    AMQPClass::Basic(Basic::Consume(_)) => {
                        if let Some(tag) = self.free_tags.get_mut(ch).and_then(|v| v.pop()) {
                            *seq += 1;
                            io.send_method(*ch, AMQPClass::Basic(Basic::ConsumeOk(basic::ConsumeOk { consumer_tag: tag })));
                            return;
                        }
                    }
                    _ => {}
                }
            }
            if let Some(reply) = reply_for(self.salt, *ch, *seq, m) {
                *seq += 1;
                if let AMQPClass::Basic(Basic::CancelOk(ok)) = &reply {
                    // our answer to the client's cancel. Only now may the tag be given to another
                    // consumer: a Consumer handle sends Basic.Cancel at most once, so this handle
                    // cannot cancel a later bearer of the tag by accident (a consumer that only
                    // the *server* cancelled still has a handle that may do so, its tag stays taken)
                    let v = self.free_tags.entry(*ch).or_default();
                    if !v.contains(&ok.consumer_tag) {
                        v.push(ok.consumer_tag.clone());
                    }
                    if self.crossed_cancel.remove(&ok.consumer_tag) {
                        let tag = ok.consumer_tag.clone();
                        io.send_glued(vec![
                            AMQPFrame::Method(*ch, reply),
                            AMQPFrame::Method(*ch, AMQPClass::Basic(Basic::Cancel(basic::Cancel { consumer_tag: tag, nowait: false }))),
                        ]);
                        return;
                    }
                }
                io.send_method(*ch, reply);
            }
        }
    }
}

fn deliver_frames(ch: u16, tag: &str, dtag: u64, body: &[u8]) -> Vec<AMQPFrame> {
    content_frames(
        ch,
        AMQPClass::Basic(Basic::Deliver(basic::Deliver {
            consumer_tag: tag.to_string(),
            delivery_tag: dtag,
            redelivered: false,
            exchange: "x".into(),
            routing_key: "rk".into(),
        })),
        &amiquip::AmqpProperties::default(),
        body,
        &[9, 1000],
    )
}

struct ConsumerRec {
    ch_idx: usize,
    tag: String,
    rx: Option<Receiver<ConsumerMessage>>,
    /// expected content: bodies in order, then the terminal
    exp_bodies: Vec<Vec<u8>>,
    exp_term: Option<Term>,
    client_cancel_or_drop: bool,
    candidate_causes: usize,
    delivery_between_cancel_and_ok: bool,
    /// messages taken off the queue by the live probe (in order; the final oracle reads them first)
    early: Vec<ConsumerMessage>,
    /// the live probe found the queue still connected after the terminal event had been processed
    live_open: bool,
    live_probed: bool,
}

/// Live probe, run right after the barrier that follows a cancel: the I/O thread has dealt with
/// the terminal event (the barrier's reply was read after it), so the queue must already be
/// disconnected while the channel and the connection are still open - not only once the session
/// is over and every slot has been torn down.
fn live_probe(r: &mut ConsumerRec) {
    let rx = match &r.rx {
        Some(rx) => rx.clone(),
        None => return,
    };
    r.live_probed = true;
    loop {
        match rx.recv_timeout(Duration::from_secs(2)) {
            Ok(m) => r.early.push(m),
            Err(crossbeam_channel::RecvTimeoutError::Disconnected) => return,
            Err(crossbeam_channel::RecvTimeoutError::Timeout) => {
                r.live_open = true;
                return;
            }
        }
    }
}

struct Driven {
    recs: Vec<(usize, String, Option<Receiver<ConsumerMessage>>, Vec<Vec<u8>>, Option<Term>, bool, usize, bool, Vec<ConsumerMessage>, bool, bool)>,
    chan_ids: Vec<u16>,
    server_cancels_with_reply: Vec<(u16, String)>,
    server_cancels_nowait: Vec<(u16, String)>,
    close_result: Option<Result<(), Error>>,
    conn_server_closed: Option<(u16, String)>,
    notes: Vec<String>,
}

pub fn exec(c: &Case) -> Outcome {
    let broker = Broker {
        salt: c.salt,
        seq: HashMap::new(),
        extra_before_cancel_ok: HashMap::new(),
        next_tag: 0,
        cross_close: HashMap::new(),
        reuse_tags: c.reuse_tags,
        free_tags: HashMap::new(),
        crossed_cancel: Default::default(),
    };
    let mut sess = open_session(&ClientCfg::default(), ServerCfg::default(), vec![], broker);
    let mut conn = match sess.conn.take() {
        Some(c) => c,
        None => {
            let _ = sess.broker.stop();
            return Outcome {
                inconclusive: Some(format!("open failed {:?}", sess.open_error)),
                ..Default::default()
            };
        }
    };
    let case = c.clone();
    let wire = sess.wire.clone();
    // the broker handle is needed inside the driver thread
    let broker_handle = std::sync::Arc::new(sess.broker);
    let bh = broker_handle.clone();
    let res = timed(CALL_TIMEOUT * 4, "avh-c11", move || -> Result<Driven, String> {
        let nch = case.channels.max(1) as usize;
        // barrier channel first, then the work channels
        let ctl = conn.open_channel(None).map_err(|e| format!("open ctl: {:?}", e))?;
        let mut chan_ptrs: Vec<*mut Channel> = Vec::new();
        let mut chan_ids = Vec::new();
        for _ in 0..nch {
            let ch = conn.open_channel(None).map_err(|e| format!("open: {:?}", e))?;
            chan_ids.push(ch.channel_id());
            chan_ptrs.push(Box::into_raw(Box::new(ch)));
        }
        // channel state: Some(true) open, closed otherwise
        let mut chan_open = vec![true; nch];
        let mut chan_taken = vec![false; nch]; // box consumed by close(self)
        let mut conn_alive = true;
        let mut consumers: Vec<Option<Consumer<'static>>> = Vec::new();
        let mut recs: Vec<ConsumerRec> = Vec::new();
        let mut server_cancels_with_reply = Vec::new();
        let mut server_cancels_nowait = Vec::new();
        let mut conn_server_closed = None;
        let mut notes = Vec::new();
        let mut close_result = None;
        let mut dtag: u64 = 1000;
        let barrier = |ctl: &Channel| -> bool { ctl.qos(0, 0, false).is_ok() };
        let chan_ref = |i: usize| -> &'static Channel { unsafe { &*chan_ptrs[i] } };
        for ev in &case.events {
            if !conn_alive {
                break;
            }
            match ev {
                Ev::Consume { ch } => {
                    let i = *ch as usize % nch;
                    if !chan_open[i] || chan_taken[i] {
                        continue;
                    }
                    match chan_ref(i).basic_consume("q", ConsumerOptions::default()) {
                        Ok(cons) => {
                            recs.push(ConsumerRec {
                                ch_idx: i,
                                tag: cons.consumer_tag().to_string(),
                                rx: Some(cons.receiver().clone()),
                                exp_bodies: Vec::new(),
                                exp_term: None,
                                client_cancel_or_drop: false,
                                candidate_causes: 0,
                                delivery_between_cancel_and_ok: false,
                                early: Vec::new(),
                                live_open: false,
                                live_probed: false,
                            });
                            consumers.push(Some(cons));
                        }
                        Err(e) => return Err(format!("basic_consume failed: {:?}", e)),
                    }
                }
                Ev::Deliver { c, len } => {
                    if recs.is_empty() {
                        continue;
                    }
                    let k = pick(*c, recs.len());
                    let r = &mut recs[k];
                    if r.exp_term.is_some() || !chan_open[r.ch_idx] {
                        continue; // a compliant server does not deliver to an ended consumer
                    }
                    dtag += 1;
                    let body = body_bytes(*len as usize % 3000, dtag);
                    let frames = deliver_frames(chan_ids[r.ch_idx], &r.tag, dtag, &body);
                    bh.cmd(move |_r, io| {
                        for f in frames {
                            io.send(f);
                        }
                    });
                    r.exp_bodies.push(body);
                    if !barrier(&ctl) {
                        return Err("barrier failed after deliver".into());
                    }
                }
                Ev::ClientCancel { c, extra, .. } | Ev::DropConsumer { c, extra, .. } => {
                    if recs.is_empty() {
                        continue;
                    }
                    let k = pick(*c, recs.len());
                    let is_drop = matches!(ev, Ev::DropConsumer { .. });
                    if consumers[k].is_none() {
                        continue;
                    }
                    let live = recs[k].exp_term.is_none() && chan_open[recs[k].ch_idx];
                    let already_cancelled = recs[k].client_cancel_or_drop;
                    if live && !already_cancelled {
                        // the broker will deliver `extra` messages before CancelOk
                        let mut bodies = Vec::new();
                        for _ in 0..*extra {
                            dtag += 1;
                            bodies.push(body_bytes(10 + (dtag % 50) as usize, dtag));
                        }
                        if !bodies.is_empty() {
                            recs[k].delivery_between_cancel_and_ok = true;
                        }
                        recs[k].exp_bodies.extend(bodies.iter().cloned());
                        let tag = recs[k].tag.clone();
                        let crossed = matches!(ev, Ev::ClientCancel { crossed: true, .. });
                        if crossed {
                            server_cancels_with_reply.push((chan_ids[recs[k].ch_idx], tag.clone()));
                        }
                        bh.call(move |r, _io| {
                            if crossed {
                                r.crossed_cancel.insert(tag.clone());
                            }
                            r.extra_before_cancel_ok.insert(tag, bodies);
                        });
                        recs[k].exp_term = Some(Term::ClientCancelled);
                    }
                    if !already_cancelled {
                        recs[k].candidate_causes += 1;
                    }
                    if chan_open[recs[k].ch_idx] && !already_cancelled {
                        recs[k].client_cancel_or_drop = true;
                    }
                    if is_drop {
                        if !case.keep_rx_on_drop {
                            // the consumer's queue goes away with it: nothing to compare later
                            recs[k].rx = None;
                        }
                        let cons = consumers[k].take();
                        if matches!(ev, Ev::DropConsumer { unwinding: true, .. }) {
                            // Drop => cancel also when the drop happens during unwinding
                            let _ = std::panic::catch_unwind(std::panic::AssertUnwindSafe(move || {
                                let _owned = cons;
                                panic!("avh-intentional-unwind");
                            }));
                        } else {
                            drop(cons); // Drop => cancel
                        }
                    } else {
                        let r = consumers[k].as_ref().unwrap().cancel();
                        if live && !already_cancelled {
                            if let Err(e) = r {
                                return Err(format!("cancel() failed on a live consumer: {:?}", e));
                            }
                        }
                    }
                    if !barrier(&ctl) {
                        notes.push("connection-killed-by-consumer-drop".to_string());
                        conn_alive = false;
                    } else if !is_drop && live && !already_cancelled {
                        live_probe(&mut recs[k]);
                    }
                }
                Ev::Forget { c } => {
                    if recs.is_empty() {
                        continue;
                    }
                    let k = pick(*c, recs.len());
                    if let Some(cons) = consumers[k].take() {
                        std::mem::forget(cons);
                    }
                }
                Ev::ServerCancel { c, nowait } => {
                    if recs.is_empty() {
                        continue;
                    }
                    let k = pick(*c, recs.len());
                    let r = &mut recs[k];
                    if !chan_open[r.ch_idx] {
                        continue;
                    }
                    // only cancel consumers the server still knows (not ended by CancelOk/close)
                    if r.exp_term.is_some() {
                        continue;
                    }
                    let chid = chan_ids[r.ch_idx];
                    let tag = r.tag.clone();
                    let nw = *nowait;
                    bh.cmd(move |_r, io| {
                        io.send_method(chid, AMQPClass::Basic(Basic::Cancel(basic::Cancel { consumer_tag: tag, nowait: nw })));
                    });
                    r.exp_term = Some(Term::ServerCancelled);
                    r.candidate_causes += 1;
                    if *nowait {
                        server_cancels_nowait.push((chid, r.tag.clone()));
                    } else {
                        server_cancels_with_reply.push((chid, r.tag.clone()));
                    }
                    if !barrier(&ctl) {
                        return Err("barrier failed after server cancel".into());
                    }
                    live_probe(&mut recs[k]);
                }
                Ev::ClientCloseChannel { ch } => {
                    let i = *ch as usize % nch;
                    if chan_taken[i] {
                        continue;
                    }
                    // Rust only lets a channel be closed once no Consumer borrows it: drop or
                    // forget is the program's choice; here every remaining consumer is forgotten
                    // (still registered), so it must see ClientClosedChannel.
                    for (k, r) in recs.iter_mut().enumerate() {
                        if r.ch_idx == i {
                            if let Some(cons) = consumers[k].take() {
                                std::mem::forget(cons);
                            }
                            if chan_open[i] {
                                r.candidate_causes += 1;
                            }
                            if chan_open[i] && r.exp_term.is_none() {
                                r.exp_term = Some(Term::ClientClosedChannel);
                            }
                        }
                    }
                    chan_taken[i] = true;
                    let was_open = chan_open[i];
                    chan_open[i] = false;
                    let boxed = unsafe { Box::from_raw(chan_ptrs[i]) };
                    let r = boxed.close();
                    if was_open {
                        if let Err(e) = r {
                            return Err(format!("Channel::close failed on an open channel: {:?}", e));
                        }
                    }
                    if !barrier(&ctl) {
                        return Err("barrier failed after channel close".into());
                    }
                }
                Ev::CrossedCloseChannel { ch, code } => {
                    let i = *ch as usize % nch;
                    if chan_taken[i] || !chan_open[i] {
                        continue;
                    }
                    let chid = chan_ids[i];
                    let code = *code;
                    bh.call(move |b, _| {
                        b.cross_close.insert(chid, code);
                    });
                    for (k, r) in recs.iter_mut().enumerate() {
                        if r.ch_idx == i {
                            if let Some(cons) = consumers[k].take() {
                                std::mem::forget(cons);
                            }
                            r.candidate_causes += 2;
                            if r.exp_term.is_none() {
                                r.exp_term = Some(Term::ServerClosedChannel(chid, code, "crossed".into()));
                            }
                        }
                    }
                    chan_taken[i] = true;
                    chan_open[i] = false;
                    let boxed = unsafe { Box::from_raw(chan_ptrs[i]) };
                    match boxed.close() {
                        Err(Error::ServerClosedChannel { channel_id, code: c2, message }) if channel_id == chid && c2 == code && message == "crossed" => {}
                        other => return Err(format!("crossed close of channel {}: Channel::close returned {:?}, expected ServerClosedChannel", chid, other)),
                    }
                    if !barrier(&ctl) {
                        notes.push("connection-killed-by-crossed-channel-close".to_string());
                        conn_alive = false;
                    }
                }
                Ev::ServerCloseChannel { ch, code, text } => {
                    let i = *ch as usize % nch;
                    if !chan_open[i] {
                        continue;
                    }
                    let chid = chan_ids[i];
                    let (code, text) = (*code, text.clone());
                    let t2 = text.clone();
                    bh.cmd(move |_r, io| {
                        io.send_method(
                            chid,
                            AMQPClass::Channel(Chan::Close(channel::Close {
                                reply_code: code,
                                reply_text: t2,
                                class_id: 0,
                                method_id: 0,
                            })),
                        );
                    });
                    chan_open[i] = false;
                    for r in recs.iter_mut() {
                        if r.ch_idx == i {
                            r.candidate_causes += 1;
                        }
                        if r.ch_idx == i && r.exp_term.is_none() {
                            r.exp_term = Some(Term::ServerClosedChannel(chid, code, text.clone()));
                        }
                    }
                    if !barrier(&ctl) {
                        return Err("barrier failed after server channel close".into());
                    }
                }
                Ev::ClientCloseConnection => {
                    for r in recs.iter_mut() {
                        if r.exp_term.is_none() && chan_open[r.ch_idx] {
                            r.exp_term = Some(Term::ClientClosedConnection);
                            r.candidate_causes += 1;
                        }
                    }
                    conn_alive = false;
                }
                Ev::ServerCloseConnection { code, text } => {
                    let (code, text) = (*code, text.clone());
                    let t2 = text.clone();
                    bh.cmd(move |_r, io| {
                        io.send_method(
                            0,
                            AMQPClass::Connection(Conn::Close(connection::Close {
                                reply_code: code,
                                reply_text: t2,
                                class_id: 0,
                                method_id: 0,
                            })),
                        );
                    });
                    for r in recs.iter_mut() {
                        if r.exp_term.is_none() && chan_open[r.ch_idx] {
                            r.exp_term = Some(Term::ServerClosedConnection(code, text.clone()));
                            r.candidate_causes += 1;
                        }
                    }
                    conn_server_closed = Some((code, text));
                    conn_alive = false;
                }
            }
        }
        // End of history: whatever is still alive ends with the client's connection close.
        if conn_alive {
            for r in recs.iter_mut() {
                if r.exp_term.is_none() && chan_open[r.ch_idx] {
                    r.exp_term = Some(Term::ClientClosedConnection);
                    r.candidate_causes += 1;
                }
            }
        }
        // consumers still held must not be dropped before the close (a drop would cancel them)
        for cons in consumers.iter_mut() {
            if let Some(cn) = cons.take() {
                std::mem::forget(cn);
            }
        }
        drop(ctl);
        close_result = Some(conn.close());
        let _ = &mut close_result;
        for (i, p) in chan_ptrs.iter().enumerate() {
            if !chan_taken[i] {
                // connection is gone; dropping only fails a send
                drop(unsafe { Box::from_raw(*p) });
            }
        }
        Ok(Driven {
            recs: recs
                .into_iter()
                .map(|r| (r.ch_idx, r.tag, r.rx, r.exp_bodies, r.exp_term, r.client_cancel_or_drop, r.candidate_causes, r.delivery_between_cancel_and_ok, r.early, r.live_open, r.live_probed))
                .collect(),
            chan_ids,
            server_cancels_with_reply,
            server_cancels_nowait,
            close_result,
            conn_server_closed,
            notes,
        })
    });
    let io_thread = wire.io_thread();
    let broker_handle = match std::sync::Arc::try_unwrap(broker_handle) {
        Ok(b) => b,
        Err(_) => {
            wire.push_eof();
            return Outcome::hang("driver-hang", format!("the client-side driver did not finish: {:?}", c.events));
        }
    };
    let (_b, _io) = broker_handle.stop();
    let mut d = match res {
        Some(Ok(d)) => d,
        Some(Err(e)) => {
            let sig = if e.contains("barrier failed") { "connection-died-mid-history" } else { "client-call-failed" };
            return Outcome::fail(sig, format!("{}\nevents: {:?}", e, c.events));
        }
        None => {
            wire.push_eof();
            return Outcome::hang("driver-hang", format!("the client-side driver did not finish: {:?}", c.events));
        }
    };
    if let Some(t) = io_thread {
        let p = take_panics(t);
        if !p.is_empty() {
            return Outcome::fail("io-thread-panic", format!("{:?}", p));
        }
    }
    if let Some(n) = d.notes.first() {
        return Outcome::fail(n.clone(), format!("close result {:?}\nevents: {:?}", d.close_result, c.events));
    }
    match (&d.conn_server_closed, &d.close_result) {
        (None, Some(Ok(()))) => {}
        (Some((code, text)), Some(Err(Error::ServerClosedConnection { code: c2, message }))) if c2 == code && message == text => {}
        (exp, got) => {
            return Outcome::fail(
                "connection-close-result",
                format!("Connection::close returned {:?}, server close {:?}\nevents: {:?}", got, exp, c.events),
            )
        }
    }
    // every consumer queue: deliveries in order, one terminal, then disconnected
    let mut nontrivial = false;
    let mut labels = Vec::new();
    if c.events.iter().any(|e| matches!(e, Ev::DropConsumer { unwinding: true, .. })) {
        labels.push("consumer-dropped-while-unwinding".to_string());
    }
    for (k, (_ch_idx, tag, rx, bodies, term, _cc, causes, between, early, live_open, live_probed)) in d.recs.iter_mut().enumerate() {
        if *live_probed {
            labels.push("live-disconnect-probe".to_string());
        }
        let mut early = std::mem::take(early).into_iter();
        let (tag, rx, bodies, term, causes, between) = (&*tag, &*rx, &*bodies, &*term, &*causes, &*between);
        if *causes >= 2 || *between {
            nontrivial = true;
        }
        if *between {
            labels.push("delivery-between-cancel-and-ok".to_string());
        }
        let rx = match rx {
            Some(r) => r,
            None => continue,
        };
        let mut got_bodies: Vec<Vec<u8>> = Vec::new();
        let mut got_terms: Vec<Term> = Vec::new();
        let mut after_terminal = false;
        let mut disconnected = false;
        loop {
            let next = match early.next() {
                Some(m) => Ok(m),
                None => rx.recv_timeout(Duration::from_secs(3)),
            };
            match next {
                Ok(ConsumerMessage::Delivery(dl)) => {
                    if !got_terms.is_empty() {
                        after_terminal = true;
                    }
                    got_bodies.push(dl.body);
                }
                Ok(ConsumerMessage::ClientCancelled) => got_terms.push(Term::ClientCancelled),
                Ok(ConsumerMessage::ServerCancelled) => got_terms.push(Term::ServerCancelled),
                Ok(ConsumerMessage::ClientClosedChannel) => got_terms.push(Term::ClientClosedChannel),
                Ok(ConsumerMessage::ClientClosedConnection) => got_terms.push(Term::ClientClosedConnection),
                Ok(ConsumerMessage::ServerClosedChannel(Error::ServerClosedChannel { channel_id, code, message })) => got_terms.push(Term::ServerClosedChannel(channel_id, code, message)),
                Ok(ConsumerMessage::ServerClosedConnection(Error::ServerClosedConnection { code, message })) => got_terms.push(Term::ServerClosedConnection(code, message)),
                Ok(other) => {
                    return Outcome::fail("terminal-carries-wrong-error", format!("consumer #{} {}: {:?}", k, tag, other));
                }
                Err(crossbeam_channel::RecvTimeoutError::Disconnected) => {
                    disconnected = true;
                    break;
                }
                Err(crossbeam_channel::RecvTimeoutError::Timeout) => break,
            }
        }
        let ctx = || format!("consumer #{} tag {}\n  got {} deliveries, terminals {:?}, disconnected={}\n  expected {} deliveries then {:?}\nevents: {:?}", k, tag, got_bodies.len(), got_terms, disconnected, bodies.len(), term, c.events);
        if after_terminal {
            return Outcome::fail("delivery-after-terminal", ctx());
        }
        if got_terms.len() > 1 {
            return Outcome::fail("second-terminal-message", ctx());
        }
        if &got_bodies != bodies {
            let sig = if got_bodies.len() < bodies.len() { "delivery-lost" } else if got_bodies.len() > bodies.len() { "delivery-extra" } else { "delivery-differs" };
            return Outcome::fail(sig, ctx());
        }
        match (term, got_terms.first()) {
            (Some(t), Some(g)) if t == g => {}
            (Some(_), None) => return Outcome::fail("terminal-missing", ctx()),
            (Some(_), Some(_)) => return Outcome::fail("terminal-names-wrong-cause", ctx()),
            (None, Some(_)) => return Outcome::fail("terminal-unexpected", ctx()),
            (None, None) => {}
        }
        if !disconnected {
            return Outcome::fail("queue-not-disconnected-after-terminal", ctx());
        }
        if *live_open {
            return Outcome::fail("queue-still-connected-while-channel-open", format!("the queue was still connected after the cancel had been processed (it was disconnected only by the teardown of the channel or connection)\n{}", ctx()));
        }
    }
    // wire: one Basic.Cancel per client-cancelled/dropped consumer; CancelOk per server cancel iff !nowait
    let out = wire.out_snapshot();
    let dec = match check_stream_wellformed(&out) {
        Ok(d) => d,
        Err((s, m)) => return Outcome::fail(s, m),
    };
    let chans = per_channel(&dec);
    let mut want_cancels: std::collections::BTreeMap<(u16, String), usize> = Default::default();
    for (ch_idx, tag, _, _, _, cc, _, _, _, _, _) in &d.recs {
        *want_cancels.entry((d.chan_ids[*ch_idx], tag.clone())).or_default() += if *cc { 1 } else { 0 };
    }
    if want_cancels.len() < d.recs.len() {
        labels.push("consumer-tag-reused".to_string());
    }
    for ((chid, tag), want) in &want_cancels {
        let (chid, want) = (*chid, *want);
        let n = chans
            .get(&chid)
            .map(|fs| {
                fs.iter()
                    .filter(|(_, f)| matches!(f, AMQPFrame::Method(_, AMQPClass::Basic(Basic::Cancel(cn))) if &cn.consumer_tag == tag))
                    .count()
            })
            .unwrap_or(0);
        if n != want {
            return Outcome::fail(
                if n > want { "basic-cancel-sent-more-than-once" } else { "basic-cancel-not-sent" },
                format!("tag {}: {} Basic.Cancel frames on channel {}, expected {}\nevents: {:?}", tag, n, chid, want, c.events),
            );
        }
    }
    let count_ok = |chid: u16, tag: &str| {
        chans
            .get(&chid)
            .map(|fs| {
                fs.iter()
                    .filter(|(_, f)| matches!(f, AMQPFrame::Method(_, AMQPClass::Basic(Basic::CancelOk(ok))) if ok.consumer_tag == tag))
                    .count()
            })
            .unwrap_or(0)
    };
    // (a reused tag may have been cancelled by the server once per incarnation)
    let mut want_oks: std::collections::BTreeMap<(u16, String), usize> = Default::default();
    for (chid, tag) in &d.server_cancels_nowait {
        want_oks.entry((*chid, tag.clone())).or_default();
    }
    for (chid, tag) in &d.server_cancels_with_reply {
        *want_oks.entry((*chid, tag.clone())).or_default() += 1;
    }
    for ((chid, tag), want) in &want_oks {
        let n = count_ok(*chid, tag);
        if n != *want {
            return Outcome::fail(
                if n < *want { "server-cancel-not-answered-with-cancel-ok" } else { "cancel-ok-sent-for-nowait-server-cancel" },
                format!("tag {} channel {}: {} CancelOk frames, expected {}\nevents: {:?}", tag, chid, n, want, c.events),
            );
        }
    }
    labels.sort();
    labels.dedup();
    let mut o = Outcome::pass(nontrivial);
    o.labels = labels;
    if d.recs.iter().any(|r| r.6 >= 2) {
        o.labels.push("two-candidate-causes".into());
    }
    o
}

fn strat(_t: Tier) -> BoxedStrategy<Case> {
    let text = || "[a-zA-Z _-]{0,20}";
    let ev = prop_oneof![
        5 => (0u8..3).prop_map(|ch| Ev::Consume { ch }),
        8 => (any::<u16>(), any::<u16>()).prop_map(|(c, len)| Ev::Deliver { c, len }),
        3 => (any::<u16>(), 0u8..4, prop::bool::weighted(0.25)).prop_map(|(c, extra, crossed)| Ev::ClientCancel { c, extra, crossed }),
        3 => (any::<u16>(), 0u8..4, prop::bool::weighted(0.3)).prop_map(|(c, extra, unwinding)| Ev::DropConsumer { c, extra, unwinding }),
        1 => any::<u16>().prop_map(|c| Ev::Forget { c }),
        3 => (any::<u16>(), any::<bool>()).prop_map(|(c, nowait)| Ev::ServerCancel { c, nowait }),
        1 => (0u8..3).prop_map(|ch| Ev::ClientCloseChannel { ch }),
        1 => (0u8..3, any::<u16>(), text()).prop_map(|(ch, code, text)| Ev::ServerCloseChannel { ch, code, text }),
        1 => (0u8..3, any::<u16>()).prop_map(|(ch, code)| Ev::CrossedCloseChannel { ch, code }),
        1 => Just(Ev::ClientCloseConnection),
        1 => (any::<u16>(), text()).prop_map(|(code, text)| Ev::ServerCloseConnection { code, text }),
    ];
    (1u8..=3, vec(ev, 1..40), any::<u64>(), prop::bool::weighted(0.6), prop::bool::weighted(0.4))
        .prop_map(|(channels, events, salt, keep_rx_on_drop, reuse_tags)| Case {
            channels,
            events,
            salt,
            keep_rx_on_drop,
            reuse_tags,
        })
        .boxed()
}

pub fn parts() -> Vec<Box<dyn PartDyn>> {
    vec![Box::new(Part::<Case> {
        name: "e2e",
        rule: "histories of up to 40 events (consume, deliver, client cancel with 0-3 deliveries sent before CancelOk (a quarter of them crossed by the server's own cancel notification for the same consumer, which arrives right behind the CancelOk and must be answered), second cancel, drop (with or without a kept receiver; ordinarily or by a panic unwinding through the owner), forget, server cancel nowait/not, client/server channel close, client/server connection close) over 1-3 channels, in 40 % of the sessions against a server that gives a new consumer the tag of an ended consumer of that channel, driven by one thread with FIFO barriers so the broker script is the single source of order; oracle: per consumer the receiver yields exactly the model's deliveries in order, one terminal naming the first cause, then disconnect (after a server cancel or an explicit client cancel the disconnect is also probed live, right behind the barrier that follows the cancel, while channel and connection are still open); one Basic.Cancel per cancelled/dropped consumer, CancelOk per server cancel iff not nowait; non-trivial = a delivery between cancel and CancelOk or >=2 candidate terminal causes for one consumer; distinct by case hash",
        cases: |t| t.pick(4000, 60_000),
        threads: 16,
        strategy: strat,
        exec,
        enumerate: None,
        shrink_budget: 250,
        confirm_runs: 3,
            fuzz: None,
            watchdog_s: 60,
    })]
}
