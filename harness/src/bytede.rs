//! A small serde `Deserializer` that decodes any `Deserialize` case type from raw fuzzer bytes
//! (the role `arbitrary::Unstructured` + derive would play; `derive_arbitrary` is not available
//! offline, but every case type already derives `Deserialize` for its replay files).
//!
//! Structure-preserving by construction: fields are read in order, enum variants / options /
//! lengths from single bytes, integers little-endian, so a local mutation of the input is a
//! local mutation of the case. When the input is exhausted everything reads as zero (empty
//! vectors, first variants, None), so decoding always terminates. Values are *not* range-checked
//! here: each fuzzable part brings a `fuzz_sanitize` function that maps the decoded case into
//! the domain its generator produces (soundness).

use serde::de::{self, DeserializeSeed, EnumAccess, IntoDeserializer, MapAccess, SeqAccess, VariantAccess, Visitor};
use std::fmt;

#[derive(Debug)]
pub struct Error(String);

impl fmt::Display for Error {
    fn fmt(&self, f: &mut fmt::Formatter) -> fmt::Result {
        write!(f, "{}", self.0)
    }
}
impl std::error::Error for Error {}
impl de::Error for Error {
    fn custom<T: fmt::Display>(msg: T) -> Self {
        Error(msg.to_string())
    }
}

pub struct ByteDe<'a> {
    data: &'a [u8],
    pos: usize,
    depth: usize,
}

const MAX_DEPTH: usize = 24;

impl<'a> ByteDe<'a> {
    pub fn new(data: &'a [u8]) -> Self {
        ByteDe { data, pos: 0, depth: 0 }
    }
    fn byte(&mut self) -> u8 {
        let b = self.data.get(self.pos).copied().unwrap_or(0);
        self.pos = self.pos.saturating_add(1);
        b
    }
    fn bytes<const N: usize>(&mut self) -> [u8; N] {
        let mut a = [0u8; N];
        for x in a.iter_mut() {
            *x = self.byte();
        }
        a
    }
    fn exhausted(&self) -> bool {
        self.pos >= self.data.len() || self.depth > MAX_DEPTH
    }
    fn len(&mut self, cap: usize) -> usize {
        if self.exhausted() {
            return 0;
        }
        (self.byte() as usize) % (cap + 1)
    }
    fn string(&mut self) -> String {
        if self.exhausted() {
            return String::new();
        }
        let b = self.byte() as usize;
        // mostly short; occasionally up to ~460 bytes (beyond AMQP's short-string limit on purpose:
        // sanitizers truncate where the domain requires it)
        let n = if b < 200 { b % 24 } else { (b - 200) * 8 + self.byte() as usize % 8 };
        let mut v = Vec::with_capacity(n);
        for _ in 0..n {
            if self.pos >= self.data.len() {
                break;
            }
            v.push(self.byte());
        }
        String::from_utf8_lossy(&v).into_owned()
    }
}

pub fn from_bytes<'a, T: de::Deserialize<'a>>(data: &'a [u8]) -> Result<T, Error> {
    let mut d = ByteDe::new(data);
    T::deserialize(&mut d)
}

macro_rules! int {
    ($f:ident, $v:ident, $t:ty, $n:expr) => {
        fn $f<V: Visitor<'de>>(self, visitor: V) -> Result<V::Value, Error> {
            visitor.$v(<$t>::from_le_bytes(self.bytes::<$n>()))
        }
    };
}

impl<'de, 'a, 'b> de::Deserializer<'de> for &'b mut ByteDe<'a> {
    type Error = Error;

    fn deserialize_any<V: Visitor<'de>>(self, _v: V) -> Result<V::Value, Error> {
        Err(Error("deserialize_any is not supported by the byte decoder".into()))
    }
    fn deserialize_bool<V: Visitor<'de>>(self, visitor: V) -> Result<V::Value, Error> {
        visitor.visit_bool(self.byte() & 1 == 1)
    }
    int!(deserialize_i8, visit_i8, i8, 1);
    int!(deserialize_i16, visit_i16, i16, 2);
    int!(deserialize_i32, visit_i32, i32, 4);
    int!(deserialize_i64, visit_i64, i64, 8);
    int!(deserialize_u8, visit_u8, u8, 1);
    int!(deserialize_u16, visit_u16, u16, 2);
    int!(deserialize_u32, visit_u32, u32, 4);
    int!(deserialize_u64, visit_u64, u64, 8);
    fn deserialize_f32<V: Visitor<'de>>(self, visitor: V) -> Result<V::Value, Error> {
        let f = f32::from_le_bytes(self.bytes::<4>());
        visitor.visit_f32(if f.is_finite() { f } else { 0.0 })
    }
    fn deserialize_f64<V: Visitor<'de>>(self, visitor: V) -> Result<V::Value, Error> {
        let f = f64::from_le_bytes(self.bytes::<8>());
        visitor.visit_f64(if f.is_finite() { f } else { 0.0 })
    }
    fn deserialize_char<V: Visitor<'de>>(self, visitor: V) -> Result<V::Value, Error> {
        let u = u32::from_le_bytes(self.bytes::<4>()) % 0x11_0000;
        visitor.visit_char(char::from_u32(u).unwrap_or('a'))
    }
    fn deserialize_str<V: Visitor<'de>>(self, visitor: V) -> Result<V::Value, Error> {
        visitor.visit_string(self.string())
    }
    fn deserialize_string<V: Visitor<'de>>(self, visitor: V) -> Result<V::Value, Error> {
        visitor.visit_string(self.string())
    }
    fn deserialize_bytes<V: Visitor<'de>>(self, visitor: V) -> Result<V::Value, Error> {
        self.deserialize_byte_buf(visitor)
    }
    fn deserialize_byte_buf<V: Visitor<'de>>(self, visitor: V) -> Result<V::Value, Error> {
        let n = self.len(40);
        let v: Vec<u8> = (0..n).map(|_| self.byte()).collect();
        visitor.visit_byte_buf(v)
    }
    fn deserialize_option<V: Visitor<'de>>(self, visitor: V) -> Result<V::Value, Error> {
        if self.exhausted() || self.byte() & 1 == 0 {
            visitor.visit_none()
        } else {
            visitor.visit_some(self)
        }
    }
    fn deserialize_unit<V: Visitor<'de>>(self, visitor: V) -> Result<V::Value, Error> {
        visitor.visit_unit()
    }
    fn deserialize_unit_struct<V: Visitor<'de>>(self, _n: &'static str, visitor: V) -> Result<V::Value, Error> {
        visitor.visit_unit()
    }
    fn deserialize_newtype_struct<V: Visitor<'de>>(self, _n: &'static str, visitor: V) -> Result<V::Value, Error> {
        visitor.visit_newtype_struct(self)
    }
    fn deserialize_seq<V: Visitor<'de>>(self, visitor: V) -> Result<V::Value, Error> {
        let n = self.len(40);
        let de: &mut ByteDe = self;
        de.depth += 1;
        let r = visitor.visit_seq(Counted { de: &mut *de, left: n });
        de.depth -= 1;
        r
    }
    fn deserialize_tuple<V: Visitor<'de>>(self, len: usize, visitor: V) -> Result<V::Value, Error> {
        visitor.visit_seq(Counted { de: self, left: len })
    }
    fn deserialize_tuple_struct<V: Visitor<'de>>(self, _n: &'static str, len: usize, visitor: V) -> Result<V::Value, Error> {
        visitor.visit_seq(Counted { de: self, left: len })
    }
    fn deserialize_map<V: Visitor<'de>>(self, visitor: V) -> Result<V::Value, Error> {
        let n = self.len(4);
        let de: &mut ByteDe = self;
        de.depth += 1;
        let r = visitor.visit_map(Counted { de: &mut *de, left: n });
        de.depth -= 1;
        r
    }
    fn deserialize_struct<V: Visitor<'de>>(self, _n: &'static str, fields: &'static [&'static str], visitor: V) -> Result<V::Value, Error> {
        visitor.visit_seq(Counted { de: self, left: fields.len() })
    }
    fn deserialize_enum<V: Visitor<'de>>(self, _n: &'static str, variants: &'static [&'static str], visitor: V) -> Result<V::Value, Error> {
        let idx = if self.exhausted() || variants.is_empty() { 0 } else { self.byte() as usize % variants.len() };
        let de: &mut ByteDe = self;
        de.depth += 1;
        let r = visitor.visit_enum(Variant { de: &mut *de, idx: idx as u32 });
        de.depth -= 1;
        r
    }
    fn deserialize_identifier<V: Visitor<'de>>(self, visitor: V) -> Result<V::Value, Error> {
        visitor.visit_u32(0)
    }
    fn deserialize_ignored_any<V: Visitor<'de>>(self, visitor: V) -> Result<V::Value, Error> {
        visitor.visit_unit()
    }
}

struct Counted<'b, 'a> {
    de: &'b mut ByteDe<'a>,
    left: usize,
}

impl<'de, 'a, 'b> SeqAccess<'de> for Counted<'b, 'a> {
    type Error = Error;
    fn next_element_seed<T: DeserializeSeed<'de>>(&mut self, seed: T) -> Result<Option<T::Value>, Error> {
        if self.left == 0 {
            return Ok(None);
        }
        self.left -= 1;
        seed.deserialize(&mut *self.de).map(Some)
    }
    fn size_hint(&self) -> Option<usize> {
        Some(self.left)
    }
}

impl<'de, 'a, 'b> MapAccess<'de> for Counted<'b, 'a> {
    type Error = Error;
    fn next_key_seed<K: DeserializeSeed<'de>>(&mut self, seed: K) -> Result<Option<K::Value>, Error> {
        if self.left == 0 {
            return Ok(None);
        }
        self.left -= 1;
        seed.deserialize(&mut *self.de).map(Some)
    }
    fn next_value_seed<V: DeserializeSeed<'de>>(&mut self, seed: V) -> Result<V::Value, Error> {
        seed.deserialize(&mut *self.de)
    }
}

struct Variant<'b, 'a> {
    de: &'b mut ByteDe<'a>,
    idx: u32,
}

impl<'de, 'a, 'b> EnumAccess<'de> for Variant<'b, 'a> {
    type Error = Error;
    type Variant = Self;
    fn variant_seed<V: DeserializeSeed<'de>>(self, seed: V) -> Result<(V::Value, Self), Error> {
        let v = seed.deserialize(IntoDeserializer::<Error>::into_deserializer(self.idx))?;
        Ok((v, self))
    }
}

impl<'de, 'a, 'b> VariantAccess<'de> for Variant<'b, 'a> {
    type Error = Error;
    fn unit_variant(self) -> Result<(), Error> {
        Ok(())
    }
    fn newtype_variant_seed<T: DeserializeSeed<'de>>(self, seed: T) -> Result<T::Value, Error> {
        seed.deserialize(&mut *self.de)
    }
    fn tuple_variant<V: Visitor<'de>>(self, len: usize, visitor: V) -> Result<V::Value, Error> {
        visitor.visit_seq(Counted { de: self.de, left: len })
    }
    fn struct_variant<V: Visitor<'de>>(self, fields: &'static [&'static str], visitor: V) -> Result<V::Value, Error> {
        visitor.visit_seq(Counted { de: self.de, left: fields.len() })
    }
}
