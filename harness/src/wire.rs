//! Mock transport: an `amiquip::IoStream` whose other end is owned by the harness.
//!
//! Readiness is delivered through a `mio::Registration`, i.e. through mio's user-space
//! readiness queue, exactly like the mio-extras channels and timers the client itself uses.
//! The harness side (`Wire`) scripts what reads return (segments, would-block markers, EOF,
//! errors), what writes accept (short writes, would-block, errors, byte budgets), can park the
//! I/O thread inside `write`, and records everything the client wrote.

use mio::{Evented, Poll, PollOpt, Ready, Registration, SetReadiness, Token};
use serde::{Deserialize, Serialize};
use std::collections::VecDeque;
use std::io::{self, Read, Write};
use std::sync::{Arc, Condvar, Mutex, MutexGuard};
use std::thread::ThreadId;
use std::time::{Duration, Instant};

#[derive(Clone, Copy, Debug, PartialEq, Eq, Serialize, Deserialize)]
pub enum IoKind {
    ConnectionReset,
    BrokenPipe,
    ConnectionAborted,
    TimedOut,
    Other,
}

impl IoKind {
    pub fn kind(self) -> io::ErrorKind {
        match self {
            IoKind::ConnectionReset => io::ErrorKind::ConnectionReset,
            IoKind::BrokenPipe => io::ErrorKind::BrokenPipe,
            IoKind::ConnectionAborted => io::ErrorKind::ConnectionAborted,
            IoKind::TimedOut => io::ErrorKind::TimedOut,
            IoKind::Other => io::ErrorKind::Other,
        }
    }
    pub const ALL: [IoKind; 5] = [
        IoKind::ConnectionReset,
        IoKind::BrokenPipe,
        IoKind::ConnectionAborted,
        IoKind::TimedOut,
        IoKind::Other,
    ];
}

/// One entry of the write script: consumed by one `write` call of the client.
#[derive(Clone, Copy, Debug, PartialEq, Eq, Serialize, Deserialize)]
pub enum WStep {
    /// Accept at most this many bytes (at least 1).
    Accept(usize),
    /// WouldBlock, writable readiness re-raised immediately.
    BlockRearm,
    /// WouldBlock, writable cleared until the harness grants (`Wire::grant`).
    BlockHold,
    /// Fail with this error.
    Err(IoKind),
}

#[derive(Debug)]
pub enum InItem {
    Data(Vec<u8>),
    /// The read that reaches this marker returns WouldBlock (data "arrives" right after).
    Block,
    Eof,
    Err(IoKind),
}

pub struct State {
    inbound: VecDeque<InItem>,
    in_off: usize,
    pub in_consumed: usize,
    readable: bool,
    writable: bool,
    pub out: Vec<u8>,
    /// (offset in `out`, length, time) of every successful write call
    pub write_calls: Vec<(usize, usize, Instant)>,
    pub n_write_calls: usize,
    pub n_read_calls: usize,
    wscript: VecDeque<WStep>,
    /// Some(n): only n more bytes are accepted, then writes block (hold) until granted.
    budget: Option<usize>,
    pub held: bool,
    pub n_holds: usize,
    gate_write: bool,
    gate_open: bool,
    pub parked: bool,
    pub dropped: bool,
    pub io_thread: Option<ThreadId>,
    pub read_err_returned: bool,
    pub eof_returned: bool,
    pub write_err_returned: bool,
    /// absolute server->client byte offset at which a fault is injected (set by `fault_at`)
    fault: Option<(usize, InItem)>,
    pub total_pushed: usize,
}

pub struct Shared {
    m: Mutex<State>,
    cv: Condvar,
    sr: SetReadiness,
}

impl Shared {
    fn lock(&self) -> MutexGuard<'_, State> {
        self.m.lock().unwrap_or_else(|e| e.into_inner())
    }
    fn sync_readiness(&self, st: &State) {
        let mut r = Ready::empty();
        if st.readable {
            r |= Ready::readable();
        }
        if st.writable {
            r |= Ready::writable();
        }
        let _ = self.sr.set_readiness(r);
    }
}

pub struct MockStream {
    shared: Arc<Shared>,
    registration: Registration,
}

#[derive(Clone)]
pub struct Wire {
    shared: Arc<Shared>,
}

pub fn mock_pair() -> (MockStream, Wire) {
    let (registration, sr) = Registration::new2();
    let st = State {
        inbound: VecDeque::new(),
        in_off: 0,
        in_consumed: 0,
        readable: false,
        writable: true,
        out: Vec::new(),
        write_calls: Vec::new(),
        n_write_calls: 0,
        n_read_calls: 0,
        wscript: VecDeque::new(),
        budget: None,
        held: false,
        n_holds: 0,
        gate_write: false,
        gate_open: false,
        parked: false,
        dropped: false,
        io_thread: None,
        read_err_returned: false,
        eof_returned: false,
        write_err_returned: false,
        fault: None,
        total_pushed: 0,
    };
    let shared = Arc::new(Shared {
        m: Mutex::new(st),
        cv: Condvar::new(),
        sr,
    });
    {
        let st = shared.lock();
        shared.sync_readiness(&st);
    }
    (
        MockStream {
            shared: shared.clone(),
            registration,
        },
        Wire { shared },
    )
}

impl Read for MockStream {
    fn read(&mut self, buf: &mut [u8]) -> io::Result<usize> {
        let sh = &self.shared;
        let mut st = sh.lock();
        st.io_thread = Some(std::thread::current().id());
        st.n_read_calls += 1;
        if buf.is_empty() {
            return Ok(0);
        }
        loop {
            match st.inbound.front() {
                None => {
                    st.readable = false;
                    sh.sync_readiness(&st);
                    return Err(io::ErrorKind::WouldBlock.into());
                }
                Some(InItem::Data(v)) => {
                    if v.is_empty() {
                        st.inbound.pop_front();
                        st.in_off = 0;
                        continue;
                    }
                    let off = st.in_off;
                    let n = usize::min(buf.len(), v.len() - off);
                    buf[..n].copy_from_slice(&v[off..off + n]);
                    let done = off + n == v.len();
                    st.in_off = if done { 0 } else { off + n };
                    if done {
                        st.inbound.pop_front();
                    }
                    st.in_consumed += n;
                    sh.cv.notify_all();
                    return Ok(n);
                }
                Some(InItem::Block) => {
                    st.inbound.pop_front();
                    if st.inbound.is_empty() {
                        st.readable = false;
                    }
                    // re-raise (or clear) readiness: with pending data this enqueues a new event
                    sh.sync_readiness(&st);
                    return Err(io::ErrorKind::WouldBlock.into());
                }
                Some(InItem::Eof) => {
                    st.eof_returned = true;
                    sh.cv.notify_all();
                    return Ok(0);
                }
                Some(InItem::Err(k)) => {
                    let k = *k;
                    st.inbound.pop_front();
                    st.inbound.push_front(InItem::Eof);
                    st.read_err_returned = true;
                    sh.cv.notify_all();
                    return Err(io::Error::new(k.kind(), "injected read fault"));
                }
            }
        }
    }
}

impl Write for MockStream {
    fn write(&mut self, buf: &[u8]) -> io::Result<usize> {
        let sh = &self.shared;
        let mut st = sh.lock();
        st.io_thread = Some(std::thread::current().id());
        st.n_write_calls += 1;
        if st.gate_write {
            st.parked = true;
            sh.cv.notify_all();
            while !st.gate_open {
                st = sh.cv.wait(st).unwrap_or_else(|e| e.into_inner());
            }
            st.gate_write = false;
            st.gate_open = false;
            st.parked = false;
            sh.cv.notify_all();
        }
        if buf.is_empty() {
            return Ok(0);
        }
        let mut take = buf.len();
        match st.wscript.pop_front() {
            Some(WStep::Accept(n)) => take = usize::min(take, usize::max(1, n)),
            Some(WStep::BlockRearm) => {
                sh.sync_readiness(&st);
                return Err(io::ErrorKind::WouldBlock.into());
            }
            Some(WStep::BlockHold) => {
                st.writable = false;
                st.held = true;
                st.n_holds += 1;
                sh.sync_readiness(&st);
                sh.cv.notify_all();
                return Err(io::ErrorKind::WouldBlock.into());
            }
            Some(WStep::Err(k)) => {
                st.write_err_returned = true;
                sh.cv.notify_all();
                return Err(io::Error::new(k.kind(), "injected write fault"));
            }
            None => {}
        }
        if let Some(b) = st.budget {
            if b == 0 {
                st.writable = false;
                st.held = true;
                st.n_holds += 1;
                sh.sync_readiness(&st);
                sh.cv.notify_all();
                return Err(io::ErrorKind::WouldBlock.into());
            }
            take = usize::min(take, b);
            st.budget = Some(b - take);
        }
        let off = st.out.len();
        st.out.extend_from_slice(&buf[..take]);
        st.write_calls.push((off, take, Instant::now()));
        sh.cv.notify_all();
        Ok(take)
    }

    fn flush(&mut self) -> io::Result<()> {
        Ok(())
    }
}

impl Evented for MockStream {
    fn register(
        &self,
        poll: &Poll,
        token: Token,
        interest: Ready,
        opts: PollOpt,
    ) -> io::Result<()> {
        self.registration.register(poll, token, interest, opts)
    }
    fn reregister(
        &self,
        poll: &Poll,
        token: Token,
        interest: Ready,
        opts: PollOpt,
    ) -> io::Result<()> {
        self.registration.reregister(poll, token, interest, opts)
    }
    fn deregister(&self, poll: &Poll) -> io::Result<()> {
        #[allow(deprecated)]
        self.registration.deregister(poll)
    }
}

impl Drop for MockStream {
    fn drop(&mut self) {
        let mut st = self.shared.lock();
        st.dropped = true;
        self.shared.cv.notify_all();
    }
}

impl amiquip::IoStream for MockStream {}

impl Wire {
    pub fn lock(&self) -> MutexGuard<'_, State> {
        self.shared.lock()
    }

    fn push_item(&self, item: InItem) {
        let mut st = self.shared.lock();
        // apply a pending positional fault: split data at the fault offset
        if let InItem::Data(v) = &item {
            if let Some((at, _)) = &st.fault {
                let at = *at;
                let start = st.total_pushed;
                if at <= start + v.len() {
                    let keep = at.saturating_sub(start);
                    let (_, f) = st.fault.take().unwrap();
                    if keep > 0 {
                        st.inbound.push_back(InItem::Data(v[..keep].to_vec()));
                    }
                    st.total_pushed += keep;
                    st.inbound.push_back(f);
                    st.readable = true;
                    self.shared.sync_readiness(&st);
                    self.shared.cv.notify_all();
                    return;
                }
            }
            st.total_pushed += v.len();
        }
        // nothing may follow a terminal item
        if matches!(
            st.inbound.back(),
            Some(InItem::Eof) | Some(InItem::Err(_))
        ) {
            return;
        }
        st.inbound.push_back(item);
        st.readable = true;
        self.shared.sync_readiness(&st);
        self.shared.cv.notify_all();
    }

    /// Make bytes available to the client as one read segment.
    pub fn push(&self, bytes: Vec<u8>) {
        if !bytes.is_empty() {
            self.push_item(InItem::Data(bytes));
        }
    }
    /// Push several segments / markers atomically with respect to the reader.
    pub fn push_items(&self, items: Vec<InItem>) {
        for it in items {
            self.push_item(it);
        }
    }
    pub fn push_block(&self) {
        self.push_item(InItem::Block);
    }
    pub fn push_eof(&self) {
        self.push_item(InItem::Eof);
    }
    pub fn push_err(&self, k: IoKind) {
        self.push_item(InItem::Err(k));
    }
    /// Inject `fault` at absolute server->client byte offset `at` (counted over all pushed
    /// bytes); data pushed beyond that offset is discarded.
    pub fn fault_at(&self, at: usize, fault: InItem) {
        let mut st = self.shared.lock();
        if at <= st.total_pushed {
            drop(st);
            self.push_item(fault);
        } else {
            st.fault = Some((at, fault));
        }
    }
    pub fn fault_pending(&self) -> bool {
        self.shared.lock().fault.is_some()
    }

    pub fn set_wscript(&self, steps: Vec<WStep>) {
        let mut st = self.shared.lock();
        st.wscript = steps.into();
    }
    pub fn push_wsteps(&self, steps: &[WStep]) {
        let mut st = self.shared.lock();
        st.wscript.extend(steps.iter().copied());
    }
    pub fn wscript_left(&self) -> usize {
        self.shared.lock().wscript.len()
    }
    /// Switch to budget mode with `n` bytes of budget (None = unlimited).
    pub fn set_budget(&self, b: Option<usize>) {
        let mut st = self.shared.lock();
        st.budget = b;
        if b.map_or(true, |n| n > 0) && st.held {
            st.held = false;
            st.writable = true;
            self.shared.sync_readiness(&st);
        }
    }
    /// Release a held writer (BlockHold) and optionally add budget.
    pub fn grant(&self, add: usize) {
        let mut st = self.shared.lock();
        if let Some(b) = st.budget {
            st.budget = Some(b + add);
        }
        if st.held && st.budget.map_or(true, |n| n > 0) {
            st.held = false;
            st.writable = true;
            self.shared.sync_readiness(&st);
        }
    }
    pub fn is_held(&self) -> bool {
        self.shared.lock().held
    }

    /// Arm the write gate: the next `write` call parks the I/O thread until `release_gate`.
    pub fn arm_write_gate(&self) {
        let mut st = self.shared.lock();
        st.gate_write = true;
        st.gate_open = false;
    }
    pub fn wait_parked(&self, timeout: Duration) -> bool {
        let deadline = Instant::now() + timeout;
        let mut st = self.shared.lock();
        while !st.parked {
            let now = Instant::now();
            if now >= deadline {
                return false;
            }
            st = self
                .shared
                .cv
                .wait_timeout(st, deadline - now)
                .unwrap_or_else(|e| e.into_inner())
                .0;
        }
        true
    }
    pub fn release_gate(&self) {
        let mut st = self.shared.lock();
        st.gate_open = true;
        self.shared.cv.notify_all();
    }
    pub fn disarm_gate(&self) {
        let mut st = self.shared.lock();
        st.gate_write = false;
        st.gate_open = true;
        self.shared.cv.notify_all();
    }

    pub fn out_len(&self) -> usize {
        self.shared.lock().out.len()
    }
    pub fn out_snapshot(&self) -> Vec<u8> {
        self.shared.lock().out.clone()
    }
    pub fn out_from(&self, from: usize) -> Vec<u8> {
        let st = self.shared.lock();
        st.out[usize::min(from, st.out.len())..].to_vec()
    }
    pub fn in_consumed(&self) -> usize {
        self.shared.lock().in_consumed
    }
    pub fn total_pushed(&self) -> usize {
        self.shared.lock().total_pushed
    }
    pub fn is_dropped(&self) -> bool {
        self.shared.lock().dropped
    }
    pub fn io_thread(&self) -> Option<ThreadId> {
        self.shared.lock().io_thread
    }

    /// Wait until `pred(state)` holds or the timeout elapses; returns whether it held.
    pub fn wait_until<F: FnMut(&State) -> bool>(&self, timeout: Duration, mut pred: F) -> bool {
        let deadline = Instant::now() + timeout;
        let mut st = self.shared.lock();
        loop {
            if pred(&st) {
                return true;
            }
            let now = Instant::now();
            if now >= deadline {
                return false;
            }
            st = self
                .shared
                .cv
                .wait_timeout(st, deadline - now)
                .unwrap_or_else(|e| e.into_inner())
                .0;
        }
    }
    /// Wake everybody waiting on the wire's condvar (used for broker commands).
    pub fn notify(&self) {
        let _st = self.shared.lock();
        self.shared.cv.notify_all();
    }
    /// Wait on the condvar for at most `d` (spurious wake-ups allowed).
    pub fn nap(&self, d: Duration) {
        let st = self.shared.lock();
        let _ = self
            .shared
            .cv
            .wait_timeout(st, d)
            .unwrap_or_else(|e| e.into_inner());
    }
    /// True once all pushed inbound data has been read by the client.
    pub fn inbound_drained(&self) -> bool {
        let st = self.shared.lock();
        st.inbound.iter().all(|i| !matches!(i, InItem::Data(_)))
    }
}
