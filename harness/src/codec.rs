//! Independent frame-envelope splitter plus thin wrappers over amq-protocol's payload codec.
//!
//! The envelope (type, channel, size, payload, frame-end) is parsed by hand here and does not
//! share code with the client's `frame_buffer.rs` / `serialize.rs`. Payloads are decoded with
//! the third-party `amq-protocol` crate (trusted base).

use amq_protocol::frame::generation::gen_frame;
use amq_protocol::frame::{parse_frame, AMQPFrame};
use cookie_factory::GenError;

pub const PROTOCOL_HEADER: &[u8; 8] = b"AMQP\x00\x00\x09\x01";
pub const FRAME_END: u8 = 0xCE;

#[derive(Clone, Debug, PartialEq)]
pub struct RawFrame {
    pub ty: u8,
    pub channel: u16,
    pub payload: Vec<u8>,
    /// offset of the first byte of the frame in the stream that was split
    pub offset: usize,
}

impl RawFrame {
    pub fn total_len(&self) -> usize {
        self.payload.len() + 8
    }
    pub fn end(&self) -> usize {
        self.offset + self.total_len()
    }
    pub fn bytes(&self) -> Vec<u8> {
        let mut v = Vec::with_capacity(self.total_len());
        v.push(self.ty);
        v.extend_from_slice(&self.channel.to_be_bytes());
        v.extend_from_slice(&(self.payload.len() as u32).to_be_bytes());
        v.extend_from_slice(&self.payload);
        v.push(FRAME_END);
        v
    }
}

#[derive(Clone, Debug, PartialEq)]
pub enum SplitError {
    /// unknown frame type octet at this offset
    BadType { offset: usize, ty: u8 },
    /// frame-end octet missing at this offset
    BadEnd { offset: usize, got: u8 },
}

/// Split `bytes` (starting at stream offset `base`) into complete frames.
/// Returns the frames, the number of bytes consumed, and an error if a malformed envelope was hit.
pub fn split_frames(bytes: &[u8], base: usize) -> (Vec<RawFrame>, usize, Option<SplitError>) {
    let mut frames = Vec::new();
    let mut pos = 0usize;
    loop {
        let rest = &bytes[pos..];
        if rest.len() < 7 {
            return (frames, pos, None);
        }
        let ty = rest[0];
        if !(ty == 1 || ty == 2 || ty == 3 || ty == 8) {
            return (
                frames,
                pos,
                Some(SplitError::BadType {
                    offset: base + pos,
                    ty,
                }),
            );
        }
        let channel = u16::from_be_bytes([rest[1], rest[2]]);
        let size = u32::from_be_bytes([rest[3], rest[4], rest[5], rest[6]]) as usize;
        if rest.len() < size + 8 {
            return (frames, pos, None);
        }
        let end = rest[7 + size];
        if end != FRAME_END {
            return (
                frames,
                pos,
                Some(SplitError::BadEnd {
                    offset: base + pos + 7 + size,
                    got: end,
                }),
            );
        }
        frames.push(RawFrame {
            ty,
            channel,
            payload: rest[7..7 + size].to_vec(),
            offset: base + pos,
        });
        pos += size + 8;
    }
}

/// amq-protocol 1.4's generated *parser* looks flags up under the wrong name when the AMQP
/// flag name contains a hyphen (no-ack, no-local, if-unused, if-empty, auto-delete) and so
/// always reads them as false (its generator is correct). The affected methods are all
/// client->server; their flag octet is decoded by hand here.
fn fix_hyphenated_flags(raw: &RawFrame, frame: &mut AMQPFrame) {
    use amq_protocol::protocol::basic::AMQPMethod as B;
    use amq_protocol::protocol::exchange::AMQPMethod as E;
    use amq_protocol::protocol::queue::AMQPMethod as Q;
    use amq_protocol::protocol::AMQPClass as C;
    let p = &raw.payload;
    // payload: class(2) method(2) ticket(2) then `n_str` short strings, then the flag octet
    let flag_after = |n_str: usize| -> Option<u8> {
        let mut pos = 6usize;
        for _ in 0..n_str {
            let l = *p.get(pos)? as usize;
            pos += 1 + l;
        }
        p.get(pos).copied()
    };
    let bit = |b: u8, i: u8| b & (1 << i) != 0;
    if let AMQPFrame::Method(_, class) = frame {
        match class {
            C::Queue(Q::Declare(d)) => {
                if let Some(b) = flag_after(1) {
                    d.auto_delete = bit(b, 3);
                }
            }
            C::Queue(Q::Delete(d)) => {
                if let Some(b) = flag_after(1) {
                    d.if_unused = bit(b, 0);
                    d.if_empty = bit(b, 1);
                }
            }
            C::Exchange(E::Declare(d)) => {
                if let Some(b) = flag_after(2) {
                    d.auto_delete = bit(b, 2);
                }
            }
            C::Exchange(E::Delete(d)) => {
                if let Some(b) = flag_after(1) {
                    d.if_unused = bit(b, 0);
                }
            }
            C::Basic(B::Consume(c)) => {
                if let Some(b) = flag_after(2) {
                    c.no_local = bit(b, 0);
                    c.no_ack = bit(b, 1);
                }
            }
            C::Basic(B::Get(g)) => {
                if let Some(b) = flag_after(1) {
                    g.no_ack = bit(b, 0);
                }
            }
            _ => {}
        }
    }
}

pub fn decode_raw(raw: &RawFrame) -> Result<AMQPFrame, String> {
    let bytes = raw.bytes();
    match parse_frame(&bytes) {
        Ok((rest, mut frame)) => {
            if rest.is_empty() {
                fix_hyphenated_flags(raw, &mut frame);
                Ok(frame)
            } else {
                Err(format!("{} trailing bytes inside frame payload", rest.len()))
            }
        }
        Err(e) => Err(format!("payload does not parse: {:?}", e)),
    }
}

pub fn encode(frame: &AMQPFrame) -> Vec<u8> {
    let mut buf = vec![0u8; 256];
    loop {
        match gen_frame((&mut buf[..], 0), frame) {
            Ok((_, n)) => {
                buf.truncate(n);
                return buf;
            }
            Err(GenError::BufferTooSmall(n)) => buf.resize(n.max(buf.len() * 2), 0),
            Err(e) => panic!("harness cannot encode frame {:?}: {:?}", frame, e),
        }
    }
}

pub fn encode_all(frames: &[AMQPFrame]) -> Vec<u8> {
    let mut v = Vec::new();
    for f in frames {
        v.extend_from_slice(&encode(f));
    }
    v
}

/// A fully split and decoded client byte stream.
#[derive(Debug, Default)]
pub struct Decoded {
    pub header_ok: bool,
    pub frames: Vec<(RawFrame, AMQPFrame)>,
    /// bytes left after the last complete frame
    pub trailing: usize,
    pub error: Option<String>,
}

/// Decode a complete client->server byte stream: protocol header, then frames.
pub fn decode_stream(out: &[u8]) -> Decoded {
    let mut d = Decoded::default();
    if out.len() < 8 {
        d.trailing = out.len();
        d.header_ok = out.is_empty() || PROTOCOL_HEADER.starts_with(out);
        if !d.header_ok {
            d.error = Some("stream does not start with the protocol header".into());
        }
        return d;
    }
    if &out[..8] != PROTOCOL_HEADER {
        d.error = Some(format!(
            "stream does not start with the protocol header: {:?}",
            &out[..8]
        ));
        return d;
    }
    d.header_ok = true;
    let (raws, used, err) = split_frames(&out[8..], 8);
    d.trailing = out.len() - 8 - used;
    if let Some(e) = err {
        d.error = Some(format!("malformed envelope: {:?}", e));
    }
    for raw in raws {
        match decode_raw(&raw) {
            Ok(f) => d.frames.push((raw, f)),
            Err(e) => {
                d.error = Some(format!("frame at offset {}: {}", raw.offset, e));
                break;
            }
        }
    }
    d
}

/// Incremental decoder used by the broker thread while the client is still writing.
pub struct StreamDecoder {
    pos: usize,
    saw_header: bool,
    pub error: Option<String>,
}

impl StreamDecoder {
    pub fn new() -> StreamDecoder {
        StreamDecoder {
            pos: 0,
            saw_header: false,
            error: None,
        }
    }
    pub fn saw_header(&self) -> bool {
        self.saw_header
    }
    pub fn pos(&self) -> usize {
        self.pos
    }
    /// Consume what is decodable from `out` (the full stream so far) beyond what was consumed.
    pub fn feed(&mut self, out: &[u8]) -> Vec<(RawFrame, AMQPFrame)> {
        self.feed_from(out, 0)
    }

    /// Like `feed`, but `data` is the stream from absolute offset `base` (<= pos()) onwards.
    pub fn feed_from(&mut self, data: &[u8], base: usize) -> Vec<(RawFrame, AMQPFrame)> {
        let mut res = Vec::new();
        if self.error.is_some() {
            return res;
        }
        if !self.saw_header {
            if base != 0 || data.len() < 8 {
                return res;
            }
            if &data[..8] != PROTOCOL_HEADER {
                self.error = Some("bad protocol header".into());
                return res;
            }
            self.saw_header = true;
            self.pos = 8;
        }
        if self.pos < base || self.pos - base > data.len() {
            return res;
        }
        let (raws, used, err) = split_frames(&data[self.pos - base..], self.pos);
        self.pos += used;
        for raw in raws {
            match decode_raw(&raw) {
                Ok(f) => res.push((raw, f)),
                Err(e) => {
                    self.error = Some(format!("frame at offset {}: {}", raw.offset, e));
                    return res;
                }
            }
        }
        if let Some(e) = err {
            self.error = Some(format!("{:?}", e));
        }
        res
    }
}

impl Default for StreamDecoder {
    fn default() -> Self {
        Self::new()
    }
}

pub fn frame_channel(f: &AMQPFrame) -> u16 {
    match f {
        AMQPFrame::ProtocolHeader => 0,
        AMQPFrame::Method(c, _) => *c,
        AMQPFrame::Header(c, _, _) => *c,
        AMQPFrame::Body(c, _) => *c,
        AMQPFrame::Heartbeat(c) => *c,
    }
}
