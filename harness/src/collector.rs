//! Reference content collector (written from the AMQP content-framing rules and the property
//! text) plus the probe-level comparison with the client's collector. Shared by C03 and C07.

use crate::gen::{self, body_bytes, Props};
use crate::run::{catch, Outcome};
use amiquip::verif::{Collected, CollectorProbe};
use amiquip::Error;
use amq_protocol::frame::AMQPContentHeader;
use amq_protocol::protocol::basic;
use proptest::collection::vec;
use proptest::prelude::*;
use serde::{Deserialize, Serialize};

#[derive(Clone, Debug, Serialize, Deserialize, PartialEq)]
pub enum Call {
    Deliver { tag: String, dtag: u64, redelivered: bool, exchange: String, rk: String },
    Return { code: u16, text: String, exchange: String, rk: String },
    GetOk { dtag: u64, redelivered: bool, exchange: String, rk: String, count: u32 },
    Header { size: u64, props: Props },
    Body { len: u32, salt: u8 },
}

#[derive(Clone, Debug, PartialEq)]
pub enum Done {
    Delivery { tag: String, dtag: u64, redelivered: bool, exchange: String, rk: String, body: Vec<u8>, props: amiquip::AmqpProperties },
    Return { code: u16, text: String, exchange: String, rk: String, body: Vec<u8>, props: amiquip::AmqpProperties },
    Get { dtag: u64, redelivered: bool, exchange: String, rk: String, count: u32, body: Vec<u8>, props: amiquip::AmqpProperties },
}

#[derive(Clone, Debug, PartialEq)]
pub enum Step {
    /// accepted, nothing complete yet
    More,
    Complete(Done),
    /// protocol violation (the client reports FrameUnexpected)
    Violation,
}

enum RefState {
    Idle,
    GotMethod(Call),
    Body(Call, u64, amiquip::AmqpProperties, Vec<u8>),
}

pub struct RefCollector {
    st: RefState,
}

impl Default for RefCollector {
    fn default() -> Self {
        RefCollector { st: RefState::Idle }
    }
}

fn finish(start: &Call, props: amiquip::AmqpProperties, body: Vec<u8>) -> Done {
    match start.clone() {
        Call::Deliver { tag, dtag, redelivered, exchange, rk } => Done::Delivery { tag, dtag, redelivered, exchange, rk, body, props },
        Call::Return { code, text, exchange, rk } => Done::Return { code, text, exchange, rk, body, props },
        Call::GetOk { dtag, redelivered, exchange, rk, count } => Done::Get { dtag, redelivered, exchange, rk, count, body, props },
        _ => unreachable!(),
    }
}

impl RefCollector {
    pub fn is_idle(&self) -> bool {
        matches!(self.st, RefState::Idle)
    }
    pub fn state_name(&self) -> &'static str {
        match self.st {
            RefState::Idle => "idle",
            RefState::GotMethod(_) => "awaiting-header",
            RefState::Body(..) => "mid-body",
        }
    }
    pub fn step(&mut self, c: &Call) -> Step {
        let st = std::mem::replace(&mut self.st, RefState::Idle);
        match (st, c) {
            (RefState::Idle, Call::Deliver { .. }) | (RefState::Idle, Call::Return { .. }) | (RefState::Idle, Call::GetOk { .. }) => {
                self.st = RefState::GotMethod(c.clone());
                Step::More
            }
            (RefState::GotMethod(start), Call::Header { size, props }) => {
                if *size == 0 {
                    Step::Complete(finish(&start, props.to_amqp(), Vec::new()))
                } else {
                    self.st = RefState::Body(start, *size, props.to_amqp(), Vec::new());
                    Step::More
                }
            }
            (RefState::Body(start, size, props, mut buf), Call::Body { len, salt }) => {
                let chunk = body_bytes(*len as usize, *salt as u64);
                let total = buf.len() as u64 + chunk.len() as u64;
                if total > size {
                    Step::Violation
                } else {
                    buf.extend_from_slice(&chunk);
                    if total == size {
                        Step::Complete(finish(&start, props, buf))
                    } else {
                        self.st = RefState::Body(start, size, props, buf);
                        Step::More
                    }
                }
            }
            _ => Step::Violation,
        }
    }
}

fn done_of(c: Collected) -> Done {
    match c {
        Collected::Delivery(tag, d) => Done::Delivery {
            tag,
            dtag: d.delivery_tag(),
            redelivered: d.redelivered,
            exchange: d.exchange,
            rk: d.routing_key,
            body: d.body,
            props: d.properties,
        },
        Collected::Return(r) => Done::Return {
            code: r.reply_code,
            text: r.reply_text,
            exchange: r.exchange,
            rk: r.routing_key,
            body: r.content,
            props: r.properties,
        },
        Collected::Get(g) => Done::Get {
            dtag: g.delivery.delivery_tag(),
            redelivered: g.delivery.redelivered,
            exchange: g.delivery.exchange.clone(),
            rk: g.delivery.routing_key.clone(),
            count: g.message_count,
            body: g.delivery.body,
            props: g.delivery.properties,
        },
    }
}

#[derive(Clone, Debug, Serialize, Deserialize, PartialEq)]
pub struct ProbeCase {
    pub channel: u16,
    pub calls: Vec<Call>,
}

/// Drive the real collector and the reference with the same calls; they must agree step by
/// step. Stops at the first violation (the connection ends there).
pub fn exec_probe(c: &ProbeCase) -> Outcome {
    let mut real = CollectorProbe::new(c.channel);
    let mut reference = RefCollector::default();
    let mut completes = 0;
    let mut multi = false;
    let mut frames_this_msg = 0;
    let mut violation_state: Option<&'static str> = None;
    for (i, call) in c.calls.iter().enumerate() {
        let state_before = reference.state_name();
        let want = reference.step(call);
        let got = catch(std::panic::AssertUnwindSafe(|| -> Result<Option<Collected>, Error> {
            match call.clone() {
                Call::Deliver { tag, dtag, redelivered, exchange, rk } => real
                    .deliver(basic::Deliver {
                        consumer_tag: tag,
                        delivery_tag: dtag,
                        redelivered,
                        exchange,
                        routing_key: rk,
                    })
                    .map(|_| None),
                Call::Return { code, text, exchange, rk } => real
                    .return_(basic::Return {
                        reply_code: code,
                        reply_text: text,
                        exchange,
                        routing_key: rk,
                    })
                    .map(|_| None),
                Call::GetOk { dtag, redelivered, exchange, rk, count } => real
                    .get_ok(basic::GetOk {
                        delivery_tag: dtag,
                        redelivered,
                        exchange,
                        routing_key: rk,
                        message_count: count,
                    })
                    .map(|_| None),
                Call::Header { size, props } => real.header(AMQPContentHeader {
                    class_id: 60,
                    weight: 0,
                    body_size: size,
                    properties: props.to_amqp(),
                }),
                Call::Body { len, salt } => real.body(body_bytes(len as usize, salt as u64)),
            }
        }));
        let got = match got {
            Ok(g) => g,
            Err(p) => {
                let sig = if matches!(call, Call::Header { .. }) { "collector-panic-on-announced-body-size" } else { "collector-panic" };
                return Outcome::fail(sig, format!("call #{} {:?} in state {}: panic {} ({})", i, brief_call(call), state_before, p.message, p.location));
            }
        };
        if let Call::Body { .. } = call {
            frames_this_msg += 1;
        }
        match (&want, got) {
            (Step::More, Ok(None)) => {}
            (Step::Complete(w), Ok(Some(g))) => {
                let g = done_of(g);
                if &g != w {
                    return Outcome::fail(
                        "collector-message-differs",
                        format!("call #{} completed a message that differs from the compliant reading\n  got  {:?}\n  want {:?}", i, summarize(&g), summarize(w)),
                    );
                }
                completes += 1;
                if frames_this_msg >= 2 {
                    multi = true;
                }
                frames_this_msg = 0;
            }
            (Step::Violation, Err(Error::FrameUnexpected)) => {
                violation_state = Some(state_before);
                break;
            }
            (Step::Violation, Err(e)) => {
                return Outcome::fail("collector-wrong-error", format!("call #{} {:?} in state {}: {:?}, expected FrameUnexpected", i, brief_call(call), state_before, e));
            }
            (Step::Violation, Ok(g)) => {
                return Outcome::fail(
                    "collector-accepted-violation",
                    format!("call #{} {:?} in state {} was accepted (returned {:?}) but is a protocol violation", i, brief_call(call), state_before, g.map(|_| "a message")),
                );
            }
            (Step::More, Ok(Some(g))) => {
                return Outcome::fail("collector-completed-early", format!("call #{} {:?}: message {:?} completed although content is still outstanding", i, brief_call(call), summarize(&done_of(g))));
            }
            (Step::Complete(w), Ok(None)) => {
                return Outcome::fail("collector-did-not-complete", format!("call #{} {:?}: message {:?} should be complete", i, brief_call(call), summarize(w)));
            }
            (_, Err(e)) => {
                return Outcome::fail("collector-rejected-valid-frame", format!("call #{} {:?} in state {}: {:?}", i, brief_call(call), state_before, e));
            }
        }
    }
    let mut o = Outcome::pass(multi || violation_state.map_or(false, |s| s != "idle"));
    if multi {
        o.labels.push("multi-frame-body".into());
    }
    if completes >= 2 {
        o.labels.push("several-messages".into());
    }
    if c.calls.iter().any(|k| matches!(k, Call::Header { size, .. } if *size > (1 << 20) && *size < (1 << 30))) {
        o.labels.push("body-above-1MiB-announced".into());
    }
    if c.calls.iter().any(|k| matches!(k, Call::Header { size, .. } if *size > (16 << 20) && *size < (1 << 30))) {
        o.labels.push("body-above-16MiB-announced".into());
    }
    if let Some(s) = violation_state {
        o.labels.push(format!("violation-in-{}", s));
    }
    o
}

fn summarize(d: &Done) -> String {
    match d {
        Done::Delivery { tag, dtag, body, .. } => format!("Delivery(tag {:?}, dtag {}, {} bytes)", tag, dtag, body.len()),
        Done::Return { code, body, .. } => format!("Return(code {}, {} bytes)", code, body.len()),
        Done::Get { dtag, count, body, .. } => format!("Get(dtag {}, count {}, {} bytes)", dtag, count, body.len()),
    }
}

pub fn brief_call(c: &Call) -> String {
    match c {
        Call::Header { size, .. } => format!("Header(size {})", size),
        other => format!("{:?}", other),
    }
}

pub fn start_call() -> BoxedStrategy<Call> {
    prop_oneof![
        3 => (gen::short_string(), any::<u64>(), any::<bool>(), gen::short_string(), gen::short_string())
            .prop_map(|(tag, dtag, redelivered, exchange, rk)| Call::Deliver { tag, dtag, redelivered, exchange, rk }),
        1 => (any::<u16>(), gen::short_string(), gen::short_string(), gen::short_string())
            .prop_map(|(code, text, exchange, rk)| Call::Return { code, text, exchange, rk }),
        1 => (any::<u64>(), any::<bool>(), gen::short_string(), gen::short_string(), any::<u32>())
            .prop_map(|(dtag, redelivered, exchange, rk, count)| Call::GetOk { dtag, redelivered, exchange, rk, count }),
    ]
    .boxed()
}

/// One valid message: method, header, body frames adding up exactly.
pub fn valid_message() -> BoxedStrategy<Vec<Call>> {
    (
        start_call(),
        gen::props(),
        // mostly small; one message in thirty-six has a body around or above 1 MiB (the collector
        // preallocates at most 1 MiB whatever the header announces)
        prop_oneof![
            10 => Just(0u32),
            10 => 1u32..40,
            10 => 40u32..3000,
            5 => 3000u32..20000,
            1 => prop::sample::select(vec![(1u32 << 20) - 1, 1 << 20, (1 << 20) + 1, (1 << 20) + 4097, 2 << 20, (3 << 20) + 17]),
        ]
        .prop_flat_map(|n| {
            // one message in a few thousand is really big: powers of two (and +1) up to 256 MiB
            prop_oneof![
                3000 => Just(n),
                1 => prop::sample::select(vec![(1u32 << 24) + 1, 1 << 26, (1 << 27) + 1, (1 << 28) + 1]),
            ]
        }),
        vec(any::<u16>(), 0..6),
        any::<u8>(),
    )
        .prop_map(|(start, props, total, hints, salt)| {
            let mut v = vec![start, Call::Header { size: total as u64, props }];
            let sizes: Vec<usize> = if total > (8 << 20) {
                // very large bodies: chunks of 1-16 MiB
                let unit = 1usize << 20;
                let mut v: Vec<usize> = gen::chunk_sizes(total as usize / unit, &hints, 16).into_iter().map(|n| n * unit).collect();
                let rest = total as usize - v.iter().sum::<usize>();
                if rest > 0 {
                    v.push(rest);
                }
                v
            } else if total > 100_000 {
                // large bodies: chunks of 1000-131000 bytes (keeps the call list short)
                let mut v: Vec<usize> = gen::chunk_sizes(total as usize / 1000, &hints, 131).into_iter().map(|n| n * 1000).collect();
                let rest = total as usize - v.iter().sum::<usize>();
                if rest > 0 {
                    v.push(rest);
                }
                v
            } else {
                gen::chunk_sizes(total as usize, &hints, 4096)
            };
            for (i, n) in sizes.into_iter().enumerate() {
                v.push(Call::Body {
                    len: n as u32,
                    salt: salt.wrapping_add(i as u8),
                });
            }
            v
        })
        .boxed()
}

pub fn strat_valid() -> BoxedStrategy<ProbeCase> {
    (any::<u16>(), vec(valid_message(), 1..6))
        .prop_map(|(channel, msgs)| ProbeCase {
            channel,
            calls: msgs.into_iter().flatten().collect(),
        })
        .boxed()
}

/// Arbitrary call sequences: valid messages mixed with stray calls and extreme sizes.
pub fn strat_arbitrary() -> BoxedStrategy<ProbeCase> {
    let size = prop_oneof![
        3 => 0u64..50,
        1 => Just(1u64 << 31),
        1 => Just(1u64 << 32),
        1 => Just(1u64 << 40),
        1 => Just(1u64 << 62),
        1 => Just(1u64 << 63),
        1 => Just(u64::MAX),
        1 => Just(u64::MAX - 1),
        1 => any::<u64>(),
    ];
    let stray = prop_oneof![
        3 => start_call(),
        3 => (size, gen::props()).prop_map(|(size, props)| Call::Header { size, props }),
        4 => (prop_oneof![0u32..60, 0u32..5000], any::<u8>()).prop_map(|(len, salt)| Call::Body { len, salt }),
    ];
    let piece = prop_oneof![2 => valid_message(), 3 => vec(stray, 1..4)];
    (any::<u16>(), vec(piece, 1..6))
        .prop_map(|(channel, ps)| ProbeCase {
            channel,
            calls: ps.into_iter().flatten().collect(),
        })
        .boxed()
}

/// Fuzz sanitizer for probe cases decoded from raw bytes.
pub fn fuzz_probe(mut c: ProbeCase) -> ProbeCase {
    c.calls.truncate(40);
    for call in c.calls.iter_mut() {
        match call {
            Call::Deliver { tag, exchange, rk, .. } => {
                gen::clamp_short(tag);
                gen::clamp_short(exchange);
                gen::clamp_short(rk);
            }
            Call::Return { text, exchange, rk, .. } => {
                gen::clamp_short(text);
                gen::clamp_short(exchange);
                gen::clamp_short(rk);
            }
            Call::GetOk { exchange, rk, .. } => {
                gen::clamp_short(exchange);
                gen::clamp_short(rk);
            }
            Call::Header { props, .. } => gen::sanitize_props(props),
            Call::Body { len, .. } => *len %= 20_001,
        }
    }
    c
}
