pub mod broker;
pub mod checks;
pub mod codec;
pub mod gen;
pub mod oracle;
pub mod run;
pub mod session;
pub mod wire;
