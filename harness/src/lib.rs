pub mod broker;
pub mod bytede;
pub mod checks;
pub mod codec;
pub mod collector;
pub mod gen;
pub mod methods;
pub mod ops;
pub mod oracle;
pub mod run;
pub mod session;
pub mod wire;

/// Entry point for the libFuzzer targets under /verif/fuzz: run one generated case of
/// `property`/`part`, panic (= libFuzzer crash) when the oracle rejects it with a signature that
/// is not an open known finding.
pub fn fuzz_one(property: &str, part: &str, data: &[u8]) {
    use std::sync::OnceLock;
    static KNOWN: OnceLock<Vec<String>> = OnceLock::new();
    let known = KNOWN.get_or_init(|| {
        run::load_known(&run::verif_root())
            .into_iter()
            .filter(|k| k.status == "open")
            .map(|k| format!("{}/{}", k.property, k.signature))
            .collect()
    });
    let parts = match checks::parts_for(property) {
        Some(p) => p,
        None => return,
    };
    for p in &parts {
        if p.name() == part {
            if let Some((case, f)) = p.fuzz_bytes(data) {
                if known.iter().any(|k| k == &format!("{}/{}", property, f.sig)) {
                    return;
                }
                let s = serde_json::to_string(&case).unwrap_or_default();
                panic!("ORACLE-VIOLATION property={} part={} signature={}\n{}\ncase: {}", property, part, f.sig, f.msg, &s[..s.len().min(2000)]);
            }
        }
    }
}
