//! Shared proptest strategies and serialisable mirror types.

use amiquip::{AmqpProperties, AmqpValue, FieldTable};
use amq_protocol::types::DecimalValue;
use proptest::collection::vec;
use proptest::prelude::*;
use serde::{Deserialize, Serialize};

/// Monotone index mapping (shrinks towards 0): pick an index below `len` from a u16.
pub fn pick(i: u16, len: usize) -> usize {
    if len == 0 {
        0
    } else {
        ((i as usize) * len) >> 16
    }
}

/// Serialisable mirror of `AmqpProperties` (whose fields are private and not serde).
#[derive(Clone, Debug, PartialEq, Serialize, Deserialize, Default)]
pub struct Props {
    pub content_type: Option<String>,
    pub content_encoding: Option<String>,
    pub headers: Option<FieldTable>,
    pub delivery_mode: Option<u8>,
    pub priority: Option<u8>,
    pub correlation_id: Option<String>,
    pub reply_to: Option<String>,
    pub expiration: Option<String>,
    pub message_id: Option<String>,
    pub timestamp: Option<u64>,
    pub type_: Option<String>,
    pub user_id: Option<String>,
    pub app_id: Option<String>,
    pub cluster_id: Option<String>,
}

impl Props {
    pub fn to_amqp(&self) -> AmqpProperties {
        let mut p = AmqpProperties::default();
        if let Some(v) = &self.content_type {
            p = p.with_content_type(v.clone());
        }
        if let Some(v) = &self.content_encoding {
            p = p.with_content_encoding(v.clone());
        }
        if let Some(v) = &self.headers {
            p = p.with_headers(v.clone());
        }
        if let Some(v) = self.delivery_mode {
            p = p.with_delivery_mode(v);
        }
        if let Some(v) = self.priority {
            p = p.with_priority(v);
        }
        if let Some(v) = &self.correlation_id {
            p = p.with_correlation_id(v.clone());
        }
        if let Some(v) = &self.reply_to {
            p = p.with_reply_to(v.clone());
        }
        if let Some(v) = &self.expiration {
            p = p.with_expiration(v.clone());
        }
        if let Some(v) = &self.message_id {
            p = p.with_message_id(v.clone());
        }
        if let Some(v) = self.timestamp {
            p = p.with_timestamp(v);
        }
        if let Some(v) = &self.type_ {
            p = p.with_type_(v.clone());
        }
        if let Some(v) = &self.user_id {
            p = p.with_user_id(v.clone());
        }
        if let Some(v) = &self.app_id {
            p = p.with_app_id(v.clone());
        }
        if let Some(v) = &self.cluster_id {
            p = p.with_cluster_id(v.clone());
        }
        p
    }
    pub fn n_set(&self) -> usize {
        [
            self.content_type.is_some(),
            self.content_encoding.is_some(),
            self.headers.is_some(),
            self.delivery_mode.is_some(),
            self.priority.is_some(),
            self.correlation_id.is_some(),
            self.reply_to.is_some(),
            self.expiration.is_some(),
            self.message_id.is_some(),
            self.timestamp.is_some(),
            self.type_.is_some(),
            self.user_id.is_some(),
            self.app_id.is_some(),
            self.cluster_id.is_some(),
        ]
        .iter()
        .filter(|b| **b)
        .count()
    }
}

fn truncate_utf8(mut s: String, max: usize) -> String {
    if s.len() > max {
        let mut cut = max;
        while !s.is_char_boundary(cut) {
            cut -= 1;
        }
        s.truncate(cut);
    }
    s
}

/// AMQP short string: at most 255 bytes of UTF-8; biased to small, empty, multi-byte and 255.
pub fn short_string() -> BoxedStrategy<String> {
    prop_oneof![
        6 => "[a-z0-9._-]{0,12}",
        1 => Just(String::new()),
        2 => vec(any::<char>(), 0..40).prop_map(|cs| truncate_utf8(cs.into_iter().collect(), 255)),
        1 => "[ -~]{0,60}",
        1 => ("[a-zé€𝄞]", 250usize..=255).prop_map(|(c, n)| truncate_utf8(c.repeat(n), 255)),
    ]
    .boxed()
}

/// A non-empty short string (for names that must not be empty).
pub fn short_string_nonempty() -> BoxedStrategy<String> {
    prop_oneof![
        6 => "[a-z0-9._-]{1,12}",
        2 => vec(any::<char>(), 1..40).prop_map(|cs| truncate_utf8(cs.into_iter().collect(), 255)),
        1 => ("[a-zé€𝄞]", 250usize..=255).prop_map(|(c, n)| truncate_utf8(c.repeat(n), 255)),
    ]
    .boxed()
}

pub fn long_string() -> BoxedStrategy<String> {
    prop_oneof![
        4 => "[a-zA-Z0-9 ._-]{0,30}",
        1 => vec(any::<char>(), 0..300).prop_map(|cs| cs.into_iter().collect::<String>()),
    ]
    .boxed()
}

fn leaf_value() -> BoxedStrategy<AmqpValue> {
    prop_oneof![
        any::<bool>().prop_map(AmqpValue::Boolean),
        any::<i8>().prop_map(AmqpValue::ShortShortInt),
        any::<u8>().prop_map(AmqpValue::ShortShortUInt),
        any::<i16>().prop_map(AmqpValue::ShortInt),
        any::<u16>().prop_map(AmqpValue::ShortUInt),
        any::<i32>().prop_map(AmqpValue::LongInt),
        any::<u32>().prop_map(AmqpValue::LongUInt),
        any::<i64>().prop_map(AmqpValue::LongLongInt),
        (-1.0e6f32..1.0e6f32).prop_map(AmqpValue::Float),
        (-1.0e12f64..1.0e12f64).prop_map(AmqpValue::Double),
        (any::<u8>(), any::<u32>())
            .prop_map(|(scale, value)| AmqpValue::DecimalValue(DecimalValue { scale, value })),
        long_string().prop_map(AmqpValue::LongString),
        any::<u64>().prop_map(AmqpValue::Timestamp),
        vec(any::<u8>(), 0..20).prop_map(AmqpValue::ByteArray),
        Just(AmqpValue::Void),
    ]
    .boxed()
}

pub fn amqp_value() -> BoxedStrategy<AmqpValue> {
    leaf_value()
        .prop_recursive(2, 12, 4, |inner| {
            prop_oneof![
                vec(inner.clone(), 0..4).prop_map(AmqpValue::FieldArray),
                vec(("[a-z-]{1,10}", inner), 0..4)
                    .prop_map(|kv| AmqpValue::FieldTable(kv.into_iter().collect())),
            ]
        })
        .boxed()
}

pub fn field_table() -> BoxedStrategy<FieldTable> {
    prop_oneof![
        3 => Just(FieldTable::new()),
        3 => vec(("[a-z-]{1,12}", amqp_value()), 0..4).prop_map(|kv| kv.into_iter().collect::<FieldTable>()),
        1 => vec((short_string_nonempty(), amqp_value()), 0..3).prop_map(|kv| kv.into_iter().collect::<FieldTable>()),
    ]
    .boxed()
}

fn opt<T: std::fmt::Debug + Clone + 'static>(s: BoxedStrategy<T>) -> BoxedStrategy<Option<T>> {
    prop_oneof![3 => Just(None), 2 => s.prop_map(Some)].boxed()
}

pub fn props() -> BoxedStrategy<Props> {
    let a = (
        opt(short_string()),
        opt(short_string()),
        opt(field_table()),
        opt(any::<u8>().boxed()),
        opt(any::<u8>().boxed()),
        opt(short_string()),
        opt(short_string()),
    );
    let b = (
        opt(short_string()),
        opt(short_string()),
        opt(any::<u64>().boxed()),
        opt(short_string()),
        opt(short_string()),
        opt(short_string()),
        opt(short_string()),
    );
    prop_oneof![
        2 => Just(Props::default()),
        5 => (a, b).prop_map(|(a, b)| Props {
            content_type: a.0,
            content_encoding: a.1,
            headers: a.2,
            delivery_mode: a.3,
            priority: a.4,
            correlation_id: a.5,
            reply_to: a.6,
            expiration: b.0,
            message_id: b.1,
            timestamp: b.2,
            type_: b.3,
            user_id: b.4,
            app_id: b.5,
            cluster_id: b.6,
        }),
    ]
    .boxed()
}

/// Body bytes of a given length, cheap to generate and position-dependent so that
/// reordering, loss and duplication of chunks are all visible.
pub fn body_bytes(len: usize, salt: u64) -> Vec<u8> {
    let mut v = Vec::with_capacity(len);
    let mut x = salt.wrapping_mul(0x9E37_79B9_7F4A_7C15) | 1;
    for i in 0..len {
        if i % 8 == 0 {
            x ^= x << 13;
            x ^= x >> 7;
            x ^= x << 17;
        }
        v.push((x >> ((i % 8) * 8)) as u8 ^ (i as u8));
    }
    v
}

/// Body lengths biased to the boundaries of per-frame payload `p`.
pub fn body_len(p: usize, max_frames: usize) -> BoxedStrategy<usize> {
    let p = p.max(1);
    prop_oneof![
        2 => Just(0usize),
        2 => Just(1usize),
        3 => 0usize..200,
        4 => (1usize..=max_frames, -1i64..=1).prop_map(move |(k, d)| ((k * p) as i64 + d).max(0) as usize),
        2 => 0usize..=(max_frames * p),
    ]
    .boxed()
}

/// Split `total` into chunk sizes according to a list of cut hints (each hint picks a size).
pub fn chunk_sizes(total: usize, hints: &[u16], max_chunk: usize) -> Vec<usize> {
    let mut out = Vec::new();
    let mut left = total;
    let mut i = 0;
    while left > 0 {
        let h = if hints.is_empty() {
            u16::MAX
        } else {
            hints[i % hints.len()]
        };
        i += 1;
        let cap = usize::min(left, max_chunk.max(1));
        // small hints -> tiny chunks, large hints -> up to cap
        let n = match h % 8 {
            0 => 1,
            1 => 2,
            2 => 3,
            3 => 7,
            4 => 8,
            _ => 1 + pick(h, cap),
        };
        let n = usize::min(usize::max(1, n), left);
        out.push(n);
        left -= n;
        if i > 100_000 {
            out.push(left);
            break;
        }
    }
    out
}

/// Fuzz sanitizers: bring decoded values into AMQP's field-size limits.
pub fn clamp_short(s: &mut String) {
    if s.len() > 255 {
        let mut cut = 255;
        while !s.is_char_boundary(cut) {
            cut -= 1;
        }
        s.truncate(cut);
    }
}

pub fn sanitize_props(p: &mut Props) {
    for f in [
        &mut p.content_type,
        &mut p.content_encoding,
        &mut p.correlation_id,
        &mut p.reply_to,
        &mut p.expiration,
        &mut p.message_id,
        &mut p.type_,
        &mut p.user_id,
        &mut p.app_id,
        &mut p.cluster_id,
    ] {
        if let Some(s) = f.as_mut() {
            clamp_short(s);
        }
    }
    // decoded tables may carry over-long keys at any depth; the generators' tables are exercised
    // by the proptest stage
    p.headers = None;
}
