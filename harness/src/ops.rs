//! Client operation language: every public entry point of Channel / Queue / Exchange /
//! Consumer / Delivery / Get as a serialisable op, an interpreter that executes ops against a
//! real `amiquip::Channel`, and an independently written expectation (from the AMQP 0-9-1
//! method definitions and the rustdoc of each entry point) of the frames and results each op
//! must produce.

use crate::broker::uniq;
use crate::gen::{self, body_bytes, Props};
use crate::run::catch;
use amiquip::{
    Channel, ConsumerMessage, ConsumerOptions, Delivery, Exchange, ExchangeDeclareOptions,
    ExchangeType, FieldTable, Publish, QueueDeclareOptions, QueueDeleteOptions,
};
use amq_protocol::frame::{AMQPContentHeader, AMQPFrame};
use amq_protocol::protocol::basic::AMQPMethod as Basic;
use amq_protocol::protocol::confirm::AMQPMethod as Confirm;
use amq_protocol::protocol::exchange::AMQPMethod as Exch;
use amq_protocol::protocol::queue::AMQPMethod as Queue;
use amq_protocol::protocol::{basic, confirm, exchange, queue, AMQPClass};
use proptest::prelude::*;
use serde::{Deserialize, Serialize};
use std::time::Duration;

#[derive(Clone, Copy, Debug, Serialize, Deserialize, PartialEq)]
pub enum DeclMode {
    Sync,
    Nowait,
    Passive,
}

#[derive(Clone, Copy, Debug, Serialize, Deserialize, PartialEq)]
pub enum ExVia {
    Channel,
    /// `destination.bind_to_source(&source, ..)` / `unbind_from_source`
    OnDestination,
    /// `source.bind_to_destination(&destination, ..)` / `unbind_from_destination`
    OnSource,
    /// as OnDestination, but the `source` handle passed as argument was obtained on another
    /// channel of the connection: the method still belongs on the channel of `destination`
    OnDestinationArgOnOtherChannel,
    /// as OnSource, with the `destination` handle obtained on another channel
    OnSourceArgOnOtherChannel,
}

#[derive(Clone, Debug, Serialize, Deserialize, PartialEq)]
pub enum ExKind {
    Direct,
    Fanout,
    Topic,
    Headers,
    Custom(String),
}

impl ExKind {
    fn to_amiquip(&self) -> ExchangeType {
        match self {
            ExKind::Direct => ExchangeType::Direct,
            ExKind::Fanout => ExchangeType::Fanout,
            ExKind::Topic => ExchangeType::Topic,
            ExKind::Headers => ExchangeType::Headers,
            ExKind::Custom(s) => ExchangeType::Custom(s.clone()),
        }
    }
    /// AMQP exchange type name (from the specification, not from the client)
    fn wire_name(&self) -> String {
        match self {
            ExKind::Direct => "direct".into(),
            ExKind::Fanout => "fanout".into(),
            ExKind::Topic => "topic".into(),
            ExKind::Headers => "headers".into(),
            ExKind::Custom(s) => s.clone(),
        }
    }
}

#[derive(Clone, Copy, Debug, Serialize, Deserialize, PartialEq)]
pub enum SettleHow {
    Ack,
    AckMultiple,
    Nack { requeue: bool },
    NackMultiple { requeue: bool },
    Reject { requeue: bool },
}

#[derive(Clone, Copy, Debug, Serialize, Deserialize, PartialEq)]
pub enum SettleRoute {
    /// `Delivery::ack(&channel)` etc.
    Delivery,
    /// `Get::ack(&channel)` etc. (message obtained with basic_get)
    Get,
    /// `Consumer::ack(delivery)` etc. (message obtained from a consumer)
    Consumer,
}

#[derive(Clone, Debug, Serialize, Deserialize, PartialEq)]
pub enum Op {
    Qos { prefetch_size: u32, prefetch_count: u16, global: bool },
    Recover { requeue: bool },
    Publish { exchange: String, routing_key: String, mandatory: bool, immediate: bool, props: Props, body_len: u32, via_exchange: bool },
    ConfirmSelect { nowait: bool },
    QueueDeclare { queue: String, durable: bool, exclusive: bool, auto_delete: bool, args: FieldTable, mode: DeclMode },
    QueueBind { queue: String, exchange: String, routing_key: String, args: FieldTable, nowait: bool, via_queue: bool },
    QueueUnbind { queue: String, exchange: String, routing_key: String, args: FieldTable, via_queue: bool },
    QueuePurge { queue: String, nowait: bool, via_queue: bool },
    QueueDelete { queue: String, if_unused: bool, if_empty: bool, nowait: bool, via_queue: bool },
    ExchangeDeclare { kind: ExKind, name: String, durable: bool, auto_delete: bool, internal: bool, args: FieldTable, mode: DeclMode },
    ExchangeBind { destination: String, source: String, routing_key: String, args: FieldTable, nowait: bool, via: ExVia },
    ExchangeUnbind { destination: String, source: String, routing_key: String, args: FieldTable, nowait: bool, via: ExVia },
    ExchangeDelete { name: String, if_unused: bool, nowait: bool, via_exchange: bool },
    /// basic_get on a queue the broker treats as empty (names not starting with "full.")
    /// or non-empty ("full." prefix); the message, if any, is dropped unsettled.
    Get { queue: String, no_ack: bool, via_queue: bool },
    /// consume, expect `expect_deliveries` messages (the broker delivers one per "full." queue),
    /// then cancel (twice if `cancel_twice`) or drop.
    Consume { queue: String, no_local: bool, no_ack: bool, exclusive: bool, args: FieldTable, via_queue: bool, explicit_cancel: bool, cancel_twice: bool },
    AckAll,
    NackAll { requeue: bool },
    /// obtain one message (by get or by consume, from a "full." queue) and settle it
    Settle { queue: String, how: SettleHow, route: SettleRoute, cross_channel: bool },
}

/// Serializable summary of what a call returned.
#[derive(Clone, Debug, Serialize, Deserialize, PartialEq)]
pub enum OpResult {
    Unit,
    Count(u32),
    Declared { name: String, message_count: Option<u32>, consumer_count: Option<u32> },
    Exchange { name: String },
    Got(Option<Msg>),
    Consumed { tag: String, deliveries: Vec<Msg>, terminal: String },
    /// `error`: None when the settle call returned Ok, otherwise the error's Debug rendering
    Settled { panicked: bool, error: Option<String> },
    Err(String),
}

#[derive(Clone, Debug, Serialize, Deserialize, PartialEq)]
pub struct Msg {
    pub delivery_tag: u64,
    pub redelivered: bool,
    pub exchange: String,
    pub routing_key: String,
    pub body: Vec<u8>,
    pub message_count: Option<u32>,
}

fn msg_of(d: &Delivery, message_count: Option<u32>) -> Msg {
    Msg {
        delivery_tag: d.delivery_tag(),
        redelivered: d.redelivered,
        exchange: d.exchange.clone(),
        routing_key: d.routing_key.clone(),
        body: d.body.clone(),
        message_count,
    }
}

pub fn is_full_queue(q: &str) -> bool {
    q.starts_with("full.")
}

fn e<T>(r: amiquip::Result<T>) -> Result<T, OpResult> {
    r.map_err(|e| OpResult::Err(format!("{:?}", e)))
}

pub struct ChanEnv<'a> {
    pub chan: &'a Channel,
    /// a second open channel on the same connection (for cross-channel settle ops)
    pub other: Option<&'a Channel>,
    pub salt: u64,
}

fn queue_handle<'a>(ch: &'a Channel, name: &str) -> Result<amiquip::Queue<'a>, OpResult> {
    e(ch.queue_declare_nowait(name.to_string(), QueueDeclareOptions::default()))
}

fn exchange_handle<'a>(ch: &'a Channel, name: &str) -> Result<Exchange<'a>, OpResult> {
    if name.is_empty() {
        Ok(Exchange::direct(ch))
    } else {
        e(ch.exchange_declare_nowait(ExchangeType::Direct, name.to_string(), ExchangeDeclareOptions::default()))
    }
}

const RECV_TIMEOUT: Duration = Duration::from_secs(6);

/// Execute one op against the real client.
pub fn exec_op(env: &ChanEnv, op: &Op, op_index: usize) -> OpResult {
    match exec_inner(env, op, op_index) {
        Ok(r) | Err(r) => r,
    }
}

fn exec_inner(env: &ChanEnv, op: &Op, op_index: usize) -> Result<OpResult, OpResult> {
    let ch = env.chan;
    Ok(match op.clone() {
        Op::Qos { prefetch_size, prefetch_count, global } => {
            e(ch.qos(prefetch_size, prefetch_count, global))?;
            OpResult::Unit
        }
        Op::Recover { requeue } => {
            e(ch.recover(requeue))?;
            OpResult::Unit
        }
        Op::Publish { exchange, routing_key, mandatory, immediate, props, body_len, via_exchange } => {
            let body = body_bytes(body_len as usize, env.salt.wrapping_add(op_index as u64));
            let publish = Publish {
                body: &body,
                routing_key,
                mandatory,
                immediate,
                properties: props.to_amqp(),
            };
            if via_exchange {
                let ex = exchange_handle(ch, &exchange)?;
                e(ex.publish(publish))?;
            } else {
                e(ch.basic_publish(exchange, publish))?;
            }
            OpResult::Unit
        }
        Op::ConfirmSelect { nowait } => {
            if nowait {
                e(ch.enable_publisher_confirms_nowait())?;
            } else {
                e(ch.enable_publisher_confirms())?;
            }
            OpResult::Unit
        }
        Op::QueueDeclare { queue, durable, exclusive, auto_delete, args, mode } => {
            let opts = QueueDeclareOptions {
                durable,
                exclusive,
                auto_delete,
                arguments: args,
            };
            let q = match mode {
                DeclMode::Sync => e(ch.queue_declare(queue, opts))?,
                DeclMode::Nowait => e(ch.queue_declare_nowait(queue, opts))?,
                DeclMode::Passive => e(ch.queue_declare_passive(queue))?,
            };
            OpResult::Declared {
                name: q.name().to_string(),
                message_count: q.declared_message_count(),
                consumer_count: q.declared_consumer_count(),
            }
        }
        Op::QueueBind { queue, exchange, routing_key, args, nowait, via_queue } => {
            if via_queue {
                let q = queue_handle(ch, &queue)?;
                let ex = exchange_handle(ch, &exchange)?;
                if nowait {
                    e(q.bind_nowait(&ex, routing_key, args))?;
                } else {
                    e(q.bind(&ex, routing_key, args))?;
                }
            } else if nowait {
                e(ch.queue_bind_nowait(queue, exchange, routing_key, args))?;
            } else {
                e(ch.queue_bind(queue, exchange, routing_key, args))?;
            }
            OpResult::Unit
        }
        Op::QueueUnbind { queue, exchange, routing_key, args, via_queue } => {
            if via_queue {
                let q = queue_handle(ch, &queue)?;
                let ex = exchange_handle(ch, &exchange)?;
                e(q.unbind(&ex, routing_key, args))?;
            } else {
                e(ch.queue_unbind(queue, exchange, routing_key, args))?;
            }
            OpResult::Unit
        }
        Op::QueuePurge { queue, nowait, via_queue } => {
            if via_queue {
                let q = queue_handle(ch, &queue)?;
                if nowait {
                    e(q.purge_nowait())?;
                    OpResult::Unit
                } else {
                    OpResult::Count(e(q.purge())?)
                }
            } else if nowait {
                e(ch.queue_purge_nowait(queue))?;
                OpResult::Unit
            } else {
                OpResult::Count(e(ch.queue_purge(queue))?)
            }
        }
        Op::QueueDelete { queue, if_unused, if_empty, nowait, via_queue } => {
            let opts = QueueDeleteOptions { if_unused, if_empty };
            if via_queue {
                let q = queue_handle(ch, &queue)?;
                if nowait {
                    e(q.delete_nowait(opts))?;
                    OpResult::Unit
                } else {
                    OpResult::Count(e(q.delete(opts))?)
                }
            } else if nowait {
                e(ch.queue_delete_nowait(queue, opts))?;
                OpResult::Unit
            } else {
                OpResult::Count(e(ch.queue_delete(queue, opts))?)
            }
        }
        Op::ExchangeDeclare { kind, name, durable, auto_delete, internal, args, mode } => {
            let opts = ExchangeDeclareOptions {
                durable,
                auto_delete,
                internal,
                arguments: args,
            };
            let ex = match mode {
                DeclMode::Sync => e(ch.exchange_declare(kind.to_amiquip(), name, opts))?,
                DeclMode::Nowait => e(ch.exchange_declare_nowait(kind.to_amiquip(), name, opts))?,
                DeclMode::Passive => e(ch.exchange_declare_passive(name))?,
            };
            OpResult::Exchange { name: ex.name().to_string() }
        }
        Op::ExchangeBind { destination, source, routing_key, args, nowait, via } => {
            match via {
                ExVia::Channel => {
                    if nowait {
                        e(ch.exchange_bind_nowait(destination, source, routing_key, args))?;
                    } else {
                        e(ch.exchange_bind(destination, source, routing_key, args))?;
                    }
                }
                ExVia::OnDestination => {
                    let d = exchange_handle(ch, &destination)?;
                    let s = exchange_handle(ch, &source)?;
                    if nowait {
                        e(d.bind_to_source_nowait(&s, routing_key, args))?;
                    } else {
                        e(d.bind_to_source(&s, routing_key, args))?;
                    }
                }
                ExVia::OnSource => {
                    let d = exchange_handle(ch, &destination)?;
                    let s = exchange_handle(ch, &source)?;
                    if nowait {
                        e(s.bind_to_destination_nowait(&d, routing_key, args))?;
                    } else {
                        e(s.bind_to_destination(&d, routing_key, args))?;
                    }
                }
                ExVia::OnDestinationArgOnOtherChannel => {
                    let d = exchange_handle(ch, &destination)?;
                    let s = exchange_handle(env.other.unwrap_or(ch), &source)?;
                    if nowait {
                        e(d.bind_to_source_nowait(&s, routing_key, args))?;
                    } else {
                        e(d.bind_to_source(&s, routing_key, args))?;
                    }
                }
                ExVia::OnSourceArgOnOtherChannel => {
                    let s = exchange_handle(ch, &source)?;
                    let d = exchange_handle(env.other.unwrap_or(ch), &destination)?;
                    if nowait {
                        e(s.bind_to_destination_nowait(&d, routing_key, args))?;
                    } else {
                        e(s.bind_to_destination(&d, routing_key, args))?;
                    }
                }
            }
            OpResult::Unit
        }
        Op::ExchangeUnbind { destination, source, routing_key, args, nowait, via } => {
            match via {
                ExVia::Channel => {
                    if nowait {
                        e(ch.exchange_unbind_nowait(destination, source, routing_key, args))?;
                    } else {
                        e(ch.exchange_unbind(destination, source, routing_key, args))?;
                    }
                }
                ExVia::OnDestination => {
                    let d = exchange_handle(ch, &destination)?;
                    let s = exchange_handle(ch, &source)?;
                    if nowait {
                        e(d.unbind_from_source_nowait(&s, routing_key, args))?;
                    } else {
                        e(d.unbind_from_source(&s, routing_key, args))?;
                    }
                }
                ExVia::OnSource => {
                    let d = exchange_handle(ch, &destination)?;
                    let s = exchange_handle(ch, &source)?;
                    if nowait {
                        e(s.unbind_from_destination_nowait(&d, routing_key, args))?;
                    } else {
                        e(s.unbind_from_destination(&d, routing_key, args))?;
                    }
                }
                ExVia::OnDestinationArgOnOtherChannel => {
                    let d = exchange_handle(ch, &destination)?;
                    let s = exchange_handle(env.other.unwrap_or(ch), &source)?;
                    if nowait {
                        e(d.unbind_from_source_nowait(&s, routing_key, args))?;
                    } else {
                        e(d.unbind_from_source(&s, routing_key, args))?;
                    }
                }
                ExVia::OnSourceArgOnOtherChannel => {
                    let s = exchange_handle(ch, &source)?;
                    let d = exchange_handle(env.other.unwrap_or(ch), &destination)?;
                    if nowait {
                        e(s.unbind_from_destination_nowait(&d, routing_key, args))?;
                    } else {
                        e(s.unbind_from_destination(&d, routing_key, args))?;
                    }
                }
            }
            OpResult::Unit
        }
        Op::ExchangeDelete { name, if_unused, nowait, via_exchange } => {
            if via_exchange {
                let ex = exchange_handle(ch, &name)?;
                if nowait {
                    e(ex.delete_nowait(if_unused))?;
                } else {
                    e(ex.delete(if_unused))?;
                }
            } else if nowait {
                e(ch.exchange_delete_nowait(name, if_unused))?;
            } else {
                e(ch.exchange_delete(name, if_unused))?;
            }
            OpResult::Unit
        }
        Op::Get { queue, no_ack, via_queue } => {
            let got = if via_queue {
                let q = queue_handle(ch, &queue)?;
                e(q.get(no_ack))?
            } else {
                e(ch.basic_get(queue, no_ack))?
            };
            OpResult::Got(got.map(|g| msg_of(&g.delivery, Some(g.message_count))))
        }
        Op::Consume { queue, no_local, no_ack, exclusive, args, via_queue, explicit_cancel, cancel_twice } => {
            let opts = ConsumerOptions {
                no_local,
                no_ack,
                exclusive,
                arguments: args,
            };
            let q;
            let consumer = if via_queue {
                q = queue_handle(ch, &queue)?;
                e(q.consume(opts))?
            } else {
                e(ch.basic_consume(queue.clone(), opts))?
            };
            let tag = consumer.consumer_tag().to_string();
            let mut deliveries = Vec::new();
            if is_full_queue(&queue) {
                match consumer.receiver().recv_timeout(RECV_TIMEOUT) {
                    Ok(ConsumerMessage::Delivery(d)) => deliveries.push(msg_of(&d, None)),
                    Ok(other) => return Err(OpResult::Err(format!("expected a delivery, got {:?}", other))),
                    Err(_) => return Err(OpResult::Err("timeout waiting for the delivery".into())),
                }
            }
            let rx = consumer.receiver().clone();
            if explicit_cancel {
                e(consumer.cancel())?;
                if cancel_twice {
                    e(consumer.cancel())?;
                }
            }
            drop(consumer);
            let mut terminal = String::new();
            loop {
                match rx.recv_timeout(RECV_TIMEOUT) {
                    Ok(ConsumerMessage::Delivery(d)) => deliveries.push(msg_of(&d, None)),
                    Ok(other) => {
                        terminal.push_str(&format!("{:?};", other));
                    }
                    Err(crossbeam_channel::RecvTimeoutError::Disconnected) => break,
                    Err(crossbeam_channel::RecvTimeoutError::Timeout) => {
                        terminal.push_str("TIMEOUT;");
                        break;
                    }
                }
            }
            OpResult::Consumed { tag, deliveries, terminal }
        }
        Op::AckAll => {
            e(ch.ack_all())?;
            OpResult::Unit
        }
        Op::NackAll { requeue } => {
            e(ch.nack_all(requeue))?;
            OpResult::Unit
        }
        Op::Settle { queue, how, route, cross_channel } => {
            let target: &Channel = if cross_channel {
                match env.other {
                    Some(o) => o,
                    None => return Err(OpResult::Err("no second channel".into())),
                }
            } else {
                ch
            };
            match route {
                SettleRoute::Delivery | SettleRoute::Get => {
                    let got = e(ch.basic_get(queue, false))?;
                    let g = match got {
                        Some(g) => g,
                        None => return Err(OpResult::Err("broker sent no message".into())),
                    };
                    let r = catch(std::panic::AssertUnwindSafe(|| {
                        if route == SettleRoute::Get {
                            match how {
                                SettleHow::Ack => g.ack(target),
                                SettleHow::AckMultiple => g.ack_multiple(target),
                                SettleHow::Nack { requeue } => g.nack(target, requeue),
                                SettleHow::NackMultiple { requeue } => g.nack_multiple(target, requeue),
                                SettleHow::Reject { requeue } => g.reject(target, requeue),
                            }
                        } else {
                            let d = g.delivery;
                            match how {
                                SettleHow::Ack => d.ack(target),
                                SettleHow::AckMultiple => d.ack_multiple(target),
                                SettleHow::Nack { requeue } => d.nack(target, requeue),
                                SettleHow::NackMultiple { requeue } => d.nack_multiple(target, requeue),
                                SettleHow::Reject { requeue } => d.reject(target, requeue),
                            }
                        }
                    }));
                    match r {
                        Ok(r) => OpResult::Settled { panicked: false, error: r.err().map(|e| format!("{:?}", e)) },
                        Err(p) => OpResult::Settled { panicked: true, error: Some(p.message) },
                    }
                }
                SettleRoute::Consumer => {
                    // the consumer lives on `ch`; with cross_channel the delivery comes from a
                    // consumer on the *other* channel and is settled through this consumer
                    let src: &Channel = target;
                    let own = e(ch.basic_consume(queue.clone(), ConsumerOptions::default()))?;
                    let d = if cross_channel {
                        let foreign = e(src.basic_consume(queue.clone(), ConsumerOptions::default()))?;
                        let d = match foreign.receiver().recv_timeout(RECV_TIMEOUT) {
                            Ok(ConsumerMessage::Delivery(d)) => d,
                            other => return Err(OpResult::Err(format!("expected delivery, got {:?}", other.map(|_| ())))),
                        };
                        // own consumer also got one; discard it
                        let _ = own.receiver().recv_timeout(RECV_TIMEOUT);
                        drop(foreign);
                        d
                    } else {
                        match own.receiver().recv_timeout(RECV_TIMEOUT) {
                            Ok(ConsumerMessage::Delivery(d)) => d,
                            other => return Err(OpResult::Err(format!("expected delivery, got {:?}", other.map(|_| ())))),
                        }
                    };
                    let r = catch(std::panic::AssertUnwindSafe(|| match how {
                        SettleHow::Ack => own.ack(d),
                        SettleHow::AckMultiple => own.ack_multiple(d),
                        SettleHow::Nack { requeue } => own.nack(d, requeue),
                        SettleHow::NackMultiple { requeue } => own.nack_multiple(d, requeue),
                        SettleHow::Reject { requeue } => own.reject(d, requeue),
                    }));
                    // cancel explicitly so that a failure is visible (Drop would discard it)
                    let cancel_err = own.cancel().err().map(|e| format!("{:?}", e));
                    drop(own);
                    match r {
                        Ok(Ok(())) => OpResult::Settled { panicked: false, error: cancel_err },
                        Ok(r) => OpResult::Settled { panicked: false, error: r.err().map(|e| format!("{:?}", e)) },
                        Err(p) => OpResult::Settled { panicked: true, error: Some(p.message) },
                    }
                }
            }
        }
    })
}

// ---------------------------------------------------------------------------------------------
// Expectation: written from the AMQP 0-9-1 method definitions and each entry point's rustdoc.

/// Tracks, per channel, how many requests-with-a-reply the broker has seen (mirrors the
/// deterministic reply generator, not the client).
#[derive(Clone, Debug, Default)]
pub struct SeqTracker {
    pub seq: u32,
}

pub fn delivery_tag_for(salt: u64, ch: u16, seq: u32) -> u64 {
    ((uniq(salt, ch, seq, 11) as u64) << 20) | (seq as u64 & 0xFFFFF) | 1
}

pub fn consumer_tag_for(salt: u64, ch: u16, seq: u32) -> String {
    format!("ctag-{}-{}-{:08x}", ch, seq, uniq(salt, ch, seq, 5))
}

pub fn full_message_body(salt: u64, ch: u16, seq: u32) -> Vec<u8> {
    body_bytes(20 + (uniq(salt, ch, seq, 12) % 40) as usize, uniq(salt, ch, seq, 13) as u64)
}

fn m(ch: u16, c: AMQPClass) -> AMQPFrame {
    AMQPFrame::Method(ch, c)
}

fn q_declare_nowait_default(ch: u16, name: &str) -> AMQPFrame {
    m(
        ch,
        AMQPClass::Queue(Queue::Declare(queue::Declare {
            ticket: 0,
            queue: name.to_string(),
            passive: false,
            durable: false,
            exclusive: false,
            auto_delete: false,
            nowait: true,
            arguments: FieldTable::new(),
        })),
    )
}

fn x_declare_nowait_default(ch: u16, name: &str) -> Option<AMQPFrame> {
    if name.is_empty() {
        None
    } else {
        Some(m(
            ch,
            AMQPClass::Exchange(Exch::Declare(exchange::Declare {
                ticket: 0,
                exchange: name.to_string(),
                type_: "direct".into(),
                passive: false,
                durable: false,
                auto_delete: false,
                internal: false,
                nowait: true,
                arguments: FieldTable::new(),
            })),
        ))
    }
}

/// Frames the op must put on the wire on channel `ch` (and on `other_ch` for cross-channel
/// consumer settles), in order. `payload_max` = negotiated frame_max - 8 (usize::MAX if unlimited).
/// `seq` is the channel's request counter before the op; it is advanced exactly like the
/// broker's.
pub fn expected_frames(
    op: &Op,
    ch: u16,
    salt: u64,
    op_index: usize,
    payload_max: usize,
    seq: &mut u32,
    other: Option<(u16, &mut u32)>,
) -> (Vec<AMQPFrame>, Vec<AMQPFrame>) {
    let mut v = Vec::new();
    let mut w = Vec::new();
    match op.clone() {
        Op::Qos { prefetch_size, prefetch_count, global } => {
            v.push(m(ch, AMQPClass::Basic(Basic::Qos(basic::Qos { prefetch_size, prefetch_count, global }))));
            *seq += 1;
        }
        Op::Recover { requeue } => {
            v.push(m(ch, AMQPClass::Basic(Basic::Recover(basic::Recover { requeue }))));
            *seq += 1;
        }
        Op::Publish { exchange, routing_key, mandatory, immediate, props, body_len, via_exchange } => {
            if via_exchange {
                v.extend(x_declare_nowait_default(ch, &exchange));
            }
            v.push(m(
                ch,
                AMQPClass::Basic(Basic::Publish(basic::Publish {
                    ticket: 0,
                    exchange,
                    routing_key,
                    mandatory,
                    immediate,
                })),
            ));
            let body = body_bytes(body_len as usize, salt.wrapping_add(op_index as u64));
            v.push(AMQPFrame::Header(
                ch,
                60,
                Box::new(AMQPContentHeader {
                    class_id: 60,
                    weight: 0,
                    body_size: body.len() as u64,
                    properties: props.to_amqp(),
                }),
            ));
            // reference framing: maximal packing (the client is free to pack differently; the
            // comparison in `frames_match` only requires equal concatenation and the size limit)
            for chunk in body.chunks(payload_max.max(1)) {
                v.push(AMQPFrame::Body(ch, chunk.to_vec()));
            }
        }
        Op::ConfirmSelect { nowait } => {
            v.push(m(ch, AMQPClass::Confirm(Confirm::Select(confirm::Select { nowait }))));
            if !nowait {
                *seq += 1;
            }
        }
        Op::QueueDeclare { queue, durable, exclusive, auto_delete, args, mode } => {
            let passive = mode == DeclMode::Passive;
            v.push(m(
                ch,
                AMQPClass::Queue(Queue::Declare(queue::Declare {
                    ticket: 0,
                    queue,
                    passive,
                    durable: !passive && durable,
                    exclusive: !passive && exclusive,
                    auto_delete: !passive && auto_delete,
                    nowait: mode == DeclMode::Nowait,
                    arguments: if passive { FieldTable::new() } else { args },
                })),
            ));
            if mode != DeclMode::Nowait {
                *seq += 1;
            }
        }
        Op::QueueBind { queue, exchange, routing_key, args, nowait, via_queue } => {
            if via_queue {
                v.push(q_declare_nowait_default(ch, &queue));
                v.extend(x_declare_nowait_default(ch, &exchange));
            }
            v.push(m(
                ch,
                AMQPClass::Queue(Queue::Bind(queue::Bind {
                    ticket: 0,
                    queue,
                    exchange,
                    routing_key,
                    nowait,
                    arguments: args,
                })),
            ));
            if !nowait {
                *seq += 1;
            }
        }
        Op::QueueUnbind { queue, exchange, routing_key, args, via_queue } => {
            if via_queue {
                v.push(q_declare_nowait_default(ch, &queue));
                v.extend(x_declare_nowait_default(ch, &exchange));
            }
            v.push(m(
                ch,
                AMQPClass::Queue(Queue::Unbind(queue::Unbind {
                    ticket: 0,
                    queue,
                    exchange,
                    routing_key,
                    arguments: args,
                })),
            ));
            *seq += 1;
        }
        Op::QueuePurge { queue, nowait, via_queue } => {
            if via_queue {
                v.push(q_declare_nowait_default(ch, &queue));
            }
            v.push(m(ch, AMQPClass::Queue(Queue::Purge(queue::Purge { ticket: 0, queue, nowait }))));
            if !nowait {
                *seq += 1;
            }
        }
        Op::QueueDelete { queue, if_unused, if_empty, nowait, via_queue } => {
            if via_queue {
                v.push(q_declare_nowait_default(ch, &queue));
            }
            v.push(m(
                ch,
                AMQPClass::Queue(Queue::Delete(queue::Delete {
                    ticket: 0,
                    queue,
                    if_unused,
                    if_empty,
                    nowait,
                })),
            ));
            if !nowait {
                *seq += 1;
            }
        }
        Op::ExchangeDeclare { kind, name, durable, auto_delete, internal, args, mode } => {
            let passive = mode == DeclMode::Passive;
            v.push(m(
                ch,
                AMQPClass::Exchange(Exch::Declare(exchange::Declare {
                    ticket: 0,
                    exchange: name,
                    // a passive declare only checks existence; the client documents that it
                    // sends the neutral type "direct" and no options
                    type_: if passive { "direct".into() } else { kind.wire_name() },
                    passive,
                    durable: !passive && durable,
                    auto_delete: !passive && auto_delete,
                    internal: !passive && internal,
                    nowait: mode == DeclMode::Nowait,
                    arguments: if passive { FieldTable::new() } else { args },
                })),
            ));
            if mode != DeclMode::Nowait {
                *seq += 1;
            }
        }
        Op::ExchangeBind { destination, source, routing_key, args, nowait, via } => {
            let och = other.as_ref().map(|(id, _)| *id);
            match via {
                ExVia::Channel => {}
                ExVia::OnDestination | ExVia::OnSource => {
                    v.extend(x_declare_nowait_default(ch, &destination));
                    v.extend(x_declare_nowait_default(ch, &source));
                }
                // the handle the operation is called on is obtained first, on this channel; the
                // argument handle on the other channel (if the session has one)
                ExVia::OnDestinationArgOnOtherChannel => {
                    v.extend(x_declare_nowait_default(ch, &destination));
                    match och {
                        Some(o) => w.extend(x_declare_nowait_default(o, &source)),
                        None => v.extend(x_declare_nowait_default(ch, &source)),
                    }
                }
                ExVia::OnSourceArgOnOtherChannel => {
                    v.extend(x_declare_nowait_default(ch, &source));
                    match och {
                        Some(o) => w.extend(x_declare_nowait_default(o, &destination)),
                        None => v.extend(x_declare_nowait_default(ch, &destination)),
                    }
                }
            }
            v.push(m(
                ch,
                AMQPClass::Exchange(Exch::Bind(exchange::Bind {
                    ticket: 0,
                    destination,
                    source,
                    routing_key,
                    nowait,
                    arguments: args,
                })),
            ));
            if !nowait {
                *seq += 1;
            }
        }
        Op::ExchangeUnbind { destination, source, routing_key, args, nowait, via } => {
            let och = other.as_ref().map(|(id, _)| *id);
            match via {
                ExVia::Channel => {}
                ExVia::OnDestination | ExVia::OnSource => {
                    v.extend(x_declare_nowait_default(ch, &destination));
                    v.extend(x_declare_nowait_default(ch, &source));
                }
                // the handle the operation is called on is obtained first, on this channel; the
                // argument handle on the other channel (if the session has one)
                ExVia::OnDestinationArgOnOtherChannel => {
                    v.extend(x_declare_nowait_default(ch, &destination));
                    match och {
                        Some(o) => w.extend(x_declare_nowait_default(o, &source)),
                        None => v.extend(x_declare_nowait_default(ch, &source)),
                    }
                }
                ExVia::OnSourceArgOnOtherChannel => {
                    v.extend(x_declare_nowait_default(ch, &source));
                    match och {
                        Some(o) => w.extend(x_declare_nowait_default(o, &destination)),
                        None => v.extend(x_declare_nowait_default(ch, &destination)),
                    }
                }
            }
            v.push(m(
                ch,
                AMQPClass::Exchange(Exch::Unbind(exchange::Unbind {
                    ticket: 0,
                    destination,
                    source,
                    routing_key,
                    nowait,
                    arguments: args,
                })),
            ));
            if !nowait {
                *seq += 1;
            }
        }
        Op::ExchangeDelete { name, if_unused, nowait, via_exchange } => {
            if via_exchange {
                v.extend(x_declare_nowait_default(ch, &name));
            }
            v.push(m(
                ch,
                AMQPClass::Exchange(Exch::Delete(exchange::Delete {
                    ticket: 0,
                    exchange: name,
                    if_unused,
                    nowait,
                })),
            ));
            if !nowait {
                *seq += 1;
            }
        }
        Op::Get { queue, no_ack, via_queue } => {
            if via_queue {
                v.push(q_declare_nowait_default(ch, &queue));
            }
            v.push(m(ch, AMQPClass::Basic(Basic::Get(basic::Get { ticket: 0, queue, no_ack }))));
            *seq += 1;
        }
        Op::Consume { queue, no_local, no_ack, exclusive, args, via_queue, .. } => {
            if via_queue {
                v.push(q_declare_nowait_default(ch, &queue));
            }
            v.push(m(
                ch,
                AMQPClass::Basic(Basic::Consume(basic::Consume {
                    ticket: 0,
                    queue,
                    consumer_tag: String::new(),
                    no_local,
                    no_ack,
                    exclusive,
                    nowait: false,
                    arguments: args,
                })),
            ));
            let tag = consumer_tag_for(salt, ch, *seq);
            *seq += 1;
            // exactly one cancel: explicit, repeated or by drop
            v.push(m(ch, AMQPClass::Basic(Basic::Cancel(basic::Cancel { consumer_tag: tag, nowait: false }))));
            *seq += 1;
        }
        Op::AckAll => v.push(m(ch, AMQPClass::Basic(Basic::Ack(basic::Ack { delivery_tag: 0, multiple: true })))),
        Op::NackAll { requeue } => v.push(m(
            ch,
            AMQPClass::Basic(Basic::Nack(basic::Nack {
                delivery_tag: 0,
                multiple: true,
                requeue,
            })),
        )),
        Op::Settle { queue, how, route, cross_channel } => {
            let settle = |tag: u64| -> AMQPClass {
                match how {
                    SettleHow::Ack => AMQPClass::Basic(Basic::Ack(basic::Ack { delivery_tag: tag, multiple: false })),
                    SettleHow::AckMultiple => AMQPClass::Basic(Basic::Ack(basic::Ack { delivery_tag: tag, multiple: true })),
                    SettleHow::Nack { requeue } => AMQPClass::Basic(Basic::Nack(basic::Nack { delivery_tag: tag, multiple: false, requeue })),
                    SettleHow::NackMultiple { requeue } => AMQPClass::Basic(Basic::Nack(basic::Nack { delivery_tag: tag, multiple: true, requeue })),
                    SettleHow::Reject { requeue } => AMQPClass::Basic(Basic::Reject(basic::Reject { delivery_tag: tag, requeue })),
                }
            };
            match route {
                SettleRoute::Delivery | SettleRoute::Get => {
                    v.push(m(ch, AMQPClass::Basic(Basic::Get(basic::Get { ticket: 0, queue, no_ack: false }))));
                    let tag = delivery_tag_for(salt, ch, *seq);
                    *seq += 1;
                    if !cross_channel {
                        v.push(m(ch, settle(tag)));
                    }
                }
                SettleRoute::Consumer => {
                    let queue2 = queue.clone();
                    v.push(m(
                        ch,
                        AMQPClass::Basic(Basic::Consume(basic::Consume {
                            ticket: 0,
                            queue,
                            consumer_tag: String::new(),
                            no_local: false,
                            no_ack: false,
                            exclusive: false,
                            nowait: false,
                            arguments: FieldTable::new(),
                        })),
                    ));
                    let ctag = consumer_tag_for(salt, ch, *seq);
                    let dtag = delivery_tag_for(salt, ch, *seq);
                    *seq += 1;
                    if !cross_channel {
                        v.push(m(ch, settle(dtag)));
                    } else if let Some((och, oseq)) = other {
                        // the foreign consumer on the other channel: consume, then cancel by drop
                        w.push(m(
                            och,
                            AMQPClass::Basic(Basic::Consume(basic::Consume {
                                ticket: 0,
                                queue: queue2,
                                consumer_tag: String::new(),
                                no_local: false,
                                no_ack: false,
                                exclusive: false,
                                nowait: false,
                                arguments: FieldTable::new(),
                            })),
                        ));
                        let otag = consumer_tag_for(salt, och, *oseq);
                        *oseq += 1;
                        w.push(m(och, AMQPClass::Basic(Basic::Cancel(basic::Cancel { consumer_tag: otag, nowait: false }))));
                        *oseq += 1;
                    }
                    v.push(m(ch, AMQPClass::Basic(Basic::Cancel(basic::Cancel { consumer_tag: ctag, nowait: false }))));
                    *seq += 1;
                }
            }
        }
    }
    (v, w)
}

/// What the call must return, given the deterministic broker (`reply_for` / `AutoBroker`).
/// None = not determined by this function (checked elsewhere).
pub fn expected_result(op: &Op, ch: u16, salt: u64, seq_before: u32) -> Option<OpResult> {
    let u = |seq: u32, k: u32| uniq(salt, ch, seq, k);
    // number of requests-with-reply issued by wrapper prologues before the main method: none
    // (prologue declares are nowait)
    Some(match op {
        Op::Qos { .. } | Op::Recover { .. } | Op::Publish { .. } | Op::ConfirmSelect { .. } => OpResult::Unit,
        Op::QueueDeclare { queue, mode, .. } => match mode {
            DeclMode::Nowait => OpResult::Declared {
                name: queue.clone(),
                message_count: None,
                consumer_count: None,
            },
            _ => OpResult::Declared {
                name: if queue.is_empty() { format!("amq.gen-{:08x}", u(seq_before, 0)) } else { queue.clone() },
                message_count: Some(u(seq_before, 1)),
                consumer_count: Some(u(seq_before, 2)),
            },
        },
        Op::QueueBind { .. } | Op::QueueUnbind { .. } => OpResult::Unit,
        Op::QueuePurge { nowait, .. } => {
            if *nowait {
                OpResult::Unit
            } else {
                OpResult::Count(u(seq_before, 3))
            }
        }
        Op::QueueDelete { nowait, .. } => {
            if *nowait {
                OpResult::Unit
            } else {
                OpResult::Count(u(seq_before, 4))
            }
        }
        Op::ExchangeDeclare { name, .. } => OpResult::Exchange { name: name.clone() },
        Op::ExchangeBind { .. } | Op::ExchangeUnbind { .. } | Op::ExchangeDelete { .. } => OpResult::Unit,
        Op::Get { queue, .. } => {
            if is_full_queue(queue) {
                OpResult::Got(Some(Msg {
                    delivery_tag: delivery_tag_for(salt, ch, seq_before),
                    redelivered: u(seq_before, 14) & 1 == 1,
                    exchange: format!("ex-{:x}", u(seq_before, 15)),
                    routing_key: format!("rk-{:x}", u(seq_before, 16)),
                    body: full_message_body(salt, ch, seq_before),
                    message_count: Some(u(seq_before, 17)),
                }))
            } else {
                OpResult::Got(None)
            }
        }
        Op::Consume { queue, .. } => OpResult::Consumed {
            tag: consumer_tag_for(salt, ch, seq_before),
            deliveries: if is_full_queue(queue) {
                vec![Msg {
                    delivery_tag: delivery_tag_for(salt, ch, seq_before),
                    redelivered: u(seq_before, 14) & 1 == 1,
                    exchange: format!("ex-{:x}", u(seq_before, 15)),
                    routing_key: format!("rk-{:x}", u(seq_before, 16)),
                    body: full_message_body(salt, ch, seq_before),
                    message_count: None,
                }]
            } else {
                vec![]
            },
            terminal: "ClientCancelled;".into(),
        },
        Op::AckAll | Op::NackAll { .. } => OpResult::Unit,
        // the panic message of a cross-channel settle is not compared (see `results_match`)
        Op::Settle { cross_channel, .. } => OpResult::Settled {
            panicked: *cross_channel,
            error: if *cross_channel { Some(String::new()) } else { None },
        },
    })
}

/// Result comparison: equal, except that the text of a settle panic is not compared.
pub fn results_match(got: &OpResult, want: &OpResult) -> bool {
    match (got, want) {
        (OpResult::Settled { panicked: true, .. }, OpResult::Settled { panicked: true, .. }) => true,
        (a, b) => a == b,
    }
}

// ---------------------------------------------------------------------------------------------
// strategies

fn name() -> BoxedStrategy<String> {
    gen::short_string()
}

fn queue_name() -> BoxedStrategy<String> {
    prop_oneof![3 => gen::short_string_nonempty(), 1 => "[a-z]{1,6}".prop_map(|s| format!("full.{}", s))].boxed()
}

fn decl_mode() -> BoxedStrategy<DeclMode> {
    prop_oneof![Just(DeclMode::Sync), Just(DeclMode::Nowait), Just(DeclMode::Passive)].boxed()
}

fn ex_via() -> BoxedStrategy<ExVia> {
    prop_oneof![
        Just(ExVia::Channel),
        Just(ExVia::OnDestination),
        Just(ExVia::OnSource),
        Just(ExVia::OnDestinationArgOnOtherChannel),
        Just(ExVia::OnSourceArgOnOtherChannel),
    ]
    .boxed()
}

fn ex_kind() -> BoxedStrategy<ExKind> {
    prop_oneof![
        Just(ExKind::Direct),
        Just(ExKind::Fanout),
        Just(ExKind::Topic),
        Just(ExKind::Headers),
        "[a-z-]{1,12}".prop_map(ExKind::Custom)
    ]
    .boxed()
}

pub fn settle_how() -> BoxedStrategy<SettleHow> {
    prop_oneof![
        Just(SettleHow::Ack),
        Just(SettleHow::AckMultiple),
        any::<bool>().prop_map(|requeue| SettleHow::Nack { requeue }),
        any::<bool>().prop_map(|requeue| SettleHow::NackMultiple { requeue }),
        any::<bool>().prop_map(|requeue| SettleHow::Reject { requeue }),
    ]
    .boxed()
}

/// Ops of every kind. `body_max`: largest publish body; `settle`: include settle ops
/// (they need the "full." broker policy and a second channel for the cross-channel variants).
pub fn op_strategy(body_max: u32, settle: bool, cross: bool) -> BoxedStrategy<Op> {
    let b = any::<bool>;
    let body = prop_oneof![2 => Just(0u32), 3 => 0u32..200, 2 => 0..=body_max];
    let mut alts: Vec<(u32, BoxedStrategy<Op>)> = vec![
        (2, (any::<u32>(), any::<u16>(), b()).prop_map(|(prefetch_size, prefetch_count, global)| Op::Qos { prefetch_size, prefetch_count, global }).boxed()),
        (1, b().prop_map(|requeue| Op::Recover { requeue }).boxed()),
        (5, (name(), name(), b(), b(), gen::props(), body, b()).prop_map(|(exchange, routing_key, mandatory, immediate, props, body_len, via_exchange)| Op::Publish { exchange, routing_key, mandatory, immediate, props, body_len, via_exchange }).boxed()),
        (1, b().prop_map(|nowait| Op::ConfirmSelect { nowait }).boxed()),
        (4, (name(), b(), b(), b(), gen::field_table(), decl_mode()).prop_map(|(queue, durable, exclusive, auto_delete, args, mode)| {
            // an auto-named queue cannot be declared with nowait (documented panic)
            let queue = if mode == DeclMode::Nowait && queue.is_empty() { "q".to_string() } else { queue };
            Op::QueueDeclare { queue, durable, exclusive, auto_delete, args, mode }
        }).boxed()),
        (3, (gen::short_string_nonempty(), name(), name(), gen::field_table(), b(), b()).prop_map(|(queue, exchange, routing_key, args, nowait, via_queue)| Op::QueueBind { queue, exchange, routing_key, args, nowait, via_queue }).boxed()),
        (2, (gen::short_string_nonempty(), name(), name(), gen::field_table(), b()).prop_map(|(queue, exchange, routing_key, args, via_queue)| Op::QueueUnbind { queue, exchange, routing_key, args, via_queue }).boxed()),
        (2, (gen::short_string_nonempty(), b(), b()).prop_map(|(queue, nowait, via_queue)| Op::QueuePurge { queue, nowait, via_queue }).boxed()),
        (2, (gen::short_string_nonempty(), b(), b(), b(), b()).prop_map(|(queue, if_unused, if_empty, nowait, via_queue)| Op::QueueDelete { queue, if_unused, if_empty, nowait, via_queue }).boxed()),
        (3, (ex_kind(), name(), b(), b(), b(), gen::field_table(), decl_mode()).prop_map(|(kind, name, durable, auto_delete, internal, args, mode)| Op::ExchangeDeclare { kind, name, durable, auto_delete, internal, args, mode }).boxed()),
        (3, (name(), name(), name(), gen::field_table(), b(), ex_via()).prop_map(|(destination, source, routing_key, args, nowait, via)| Op::ExchangeBind { destination, source, routing_key, args, nowait, via }).boxed()),
        (3, (name(), name(), name(), gen::field_table(), b(), ex_via()).prop_map(|(destination, source, routing_key, args, nowait, via)| Op::ExchangeUnbind { destination, source, routing_key, args, nowait, via }).boxed()),
        (2, (name(), b(), b(), b()).prop_map(|(name, if_unused, nowait, via_exchange)| Op::ExchangeDelete { name, if_unused, nowait, via_exchange }).boxed()),
        (2, (queue_name(), b(), b()).prop_map(|(queue, no_ack, via_queue)| Op::Get { queue, no_ack, via_queue }).boxed()),
        (2, (queue_name(), b(), b(), b(), gen::field_table(), b(), b(), b()).prop_map(|(queue, no_local, no_ack, exclusive, args, via_queue, explicit_cancel, cancel_twice)| Op::Consume { queue, no_local, no_ack, exclusive, args, via_queue, explicit_cancel, cancel_twice }).boxed()),
        (1, Just(Op::AckAll).boxed()),
        (1, b().prop_map(|requeue| Op::NackAll { requeue }).boxed()),
    ];
    if settle {
        let cc = if cross { prop::bool::weighted(0.4).boxed() } else { Just(false).boxed() };
        alts.push((
            5,
            ("[a-z]{1,6}", settle_how(), prop_oneof![Just(SettleRoute::Delivery), Just(SettleRoute::Get), Just(SettleRoute::Consumer)], cc)
                .prop_map(|(q, how, route, cross_channel)| Op::Settle {
                    queue: format!("full.{}", q),
                    how,
                    route,
                    cross_channel,
                })
                .boxed(),
        ));
    }
    proptest::strategy::Union::new_weighted(alts).boxed()
}

/// Entry point x flag vector key of an op (for coverage accounting).
pub fn coverage_key(op: &Op) -> String {
    match op {
        Op::Qos { global, .. } => format!("qos/global={}", global),
        Op::Recover { requeue } => format!("recover/requeue={}", requeue),
        Op::Publish { mandatory, immediate, via_exchange, .. } => format!("publish/{}/m={}/i={}", if *via_exchange { "Exchange::publish" } else { "Channel::basic_publish" }, mandatory, immediate),
        Op::ConfirmSelect { nowait } => format!("confirm-select/nowait={}", nowait),
        Op::QueueDeclare { durable, exclusive, auto_delete, mode, .. } => format!("queue-declare/{:?}/d={}/e={}/a={}", mode, durable, exclusive, auto_delete),
        Op::QueueBind { nowait, via_queue, .. } => format!("queue-bind/via_queue={}/nowait={}", via_queue, nowait),
        Op::QueueUnbind { via_queue, .. } => format!("queue-unbind/via_queue={}", via_queue),
        Op::QueuePurge { nowait, via_queue, .. } => format!("queue-purge/via_queue={}/nowait={}", via_queue, nowait),
        Op::QueueDelete { if_unused, if_empty, nowait, via_queue, .. } => format!("queue-delete/via_queue={}/nowait={}/u={}/e={}", via_queue, nowait, if_unused, if_empty),
        Op::ExchangeDeclare { durable, auto_delete, internal, mode, .. } => format!("exchange-declare/{:?}/d={}/a={}/i={}", mode, durable, auto_delete, internal),
        Op::ExchangeBind { nowait, via, .. } => format!("exchange-bind/{:?}/nowait={}", via, nowait),
        Op::ExchangeUnbind { nowait, via, .. } => format!("exchange-unbind/{:?}/nowait={}", via, nowait),
        Op::ExchangeDelete { if_unused, nowait, via_exchange, .. } => format!("exchange-delete/via_exchange={}/nowait={}/u={}", via_exchange, nowait, if_unused),
        Op::Get { no_ack, via_queue, .. } => format!("get/via_queue={}/no_ack={}", via_queue, no_ack),
        Op::Consume { no_local, no_ack, exclusive, via_queue, explicit_cancel, cancel_twice, .. } => format!("consume/via_queue={}/l={}/a={}/x={}/cancel={}/twice={}", via_queue, no_local, no_ack, exclusive, explicit_cancel, cancel_twice),
        Op::AckAll => "ack-all".into(),
        Op::NackAll { requeue } => format!("nack-all/requeue={}", requeue),
        Op::Settle { how, route, cross_channel, .. } => format!("settle/{:?}/{:?}/cross={}", route, how, cross_channel),
    }
}
