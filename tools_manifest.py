#!/usr/bin/env python3
"""Regenerates MANIFEST.json from the table below (keeps it schema-valid at all times)."""
import json, subprocess

HOOK_COMMITS = subprocess.run(["git", "-C", "/repo", "log", "--format=%h %s", "--grep=^verif hooks"],
                              capture_output=True, text=True).stdout.strip().splitlines()

# id -> (technique, level text, level note, design ref)
CLAIMED = {
 "C05": ("fault-injection property testing: generated live sessions (calls in flight, busy publishers, consumers, half-assembled content) x one generated fault (EOF / I/O error at a byte offset, write error at the n-th write, malformed frame, server close, forced client exception with short or long non-ASCII text, a close whose answer cannot be flushed followed by silence or by the end of the stream, heartbeat silence); oracle = invariants on every caller's result, consumer termination, close's root cause and transport release",
         "Exploration over crash points: every caller is released with an error, consumer queues terminate, Connection::close names the root cause (variant, io kind, code/text), the transport is dropped, no panic - all within seconds.",
         "Fault positions are byte offsets of the inbound stream / write-call indices of the outbound stream owned by the mock transport; what the client threads were doing at that instant is sampled by OS scheduling. A fault that never became visible is a trivial case. Hangs need confirmation by replay.",
         "DESIGN.md 4/C05"),
 "C17": ("real-clock property testing: generated heartbeat options and traffic patterns, all cases of a run executed concurrently; oracle = timing bounds on client writes and on the moment of death",
         "Exploration on the wall clock: gap between client writes <= h + 0.9 s, a fed connection is never declared dead, silence is fatal not before 2h - 0.05 s and not after 2h + 0.9 s - also when the client calls Connection::close at the moment the server falls silent -, h = 0 disables everything.",
         "Whole-second protocol granularity limits h to {1, 2, 3}. Lateness breaches must recur on every re-execution before they are reported (CPU contention can delay but not hasten); lower-bound breaches are reported at once. No virtual time: the timer wheel lives in mio-extras.",
         "DESIGN.md 4/C17"),
 "C18": ("property-based testing with a budget-scripted transport: generated tuning x publishers x stall / trickle / release script; oracle = tuning-derived buffering bound, blocked-publisher and resume observations, exactly-once in-order wire content",
         "Exploration: while the transport accepts nothing, accepted-minus-written bytes stay within a tuning-derived limit and publishers block; after release everybody resumes (including an open_channel issued during the stall) and every accepted message is on the wire exactly once, in order.",
         "The limit is deliberately generous (the I/O loop tests the mark only between event batches): high-water + channels x (4 x bound + 8) x message size; total quota is four times that, so missing throttling overshoots it. mem_channel_bound = 0 is a separate enumerated scenario.",
         "DESIGN.md 4/C18"),
 "C08": ("property-based testing of the close handshake: generated session state (channels, consumers - up to thousands, dropped by their owner the moment its racing operation fails -, racing numbered publishes and calls on other threads, transport stalled in the middle of a frame, low-water marks 0 / 12 / 1 MiB) x close direction x server follow-up; oracle = invariants over the final wire log and every caller's first error",
         "Exploration: final frame, exactly-one close frames, close result in all follow-up variants, first error per channel, terminal message per consumer, and gap-free prefix of each channel's racing publishes.",
         "Racing threads are scheduled by the OS (sampled). A publish cut short by the close is accepted only as the last thing on its channel.",
         "DESIGN.md 4/C08"),
 "C13": ("stateful property-based testing: generated histories of listener (un)registrations, publishes and server notifications driven with FIFO barriers; oracle = per-listener-instance reference model",
         "Exploration: every listener instance must receive exactly the events sent for its channel during its lifetime, verbatim and in order; replaced listeners are disconnected; events without a listener are discarded without disturbing the connection.",
         "A registration without a barrier is only ordered before events it causally precedes (a publish on the same channel and its confirm); before any other server event on that channel the harness inserts the barrier.",
         "DESIGN.md 4/C13"),
 "C01": ("property-based testing with fault-scripted transport: generated multi-thread / multi-channel op programs against a generated write script (short writes, would-block with and without re-arm) on the mock transport, plus close handshakes (either side) that meet a backlog whose head was cut by a short write; oracle = independent envelope parser + per-channel expected frame concatenation",
         "Exploration: the complete outbound log must be the protocol header plus whole frames, and each channel's frames must be exactly the concatenation of what its ops emit in issue order; a handshake or call that never completes under a write script is reported after confirmation by replay.",
         "The I/O-thread side of the schedule (what every write call accepts) is owned by the harness; client-thread interleavings are sampled by OS scheduling. Write scripts are cycled up to 20 times (up to 4000 steps).",
         "DESIGN.md 4/C01"),
 "C16": ("model-based property testing of the handshake: generated client options x a scripted server (happy path with spliced-in deviations, faults and stream cuts); oracle = reference model of the handshake state machine giving the exact client frames and the result",
         "Exploration: for every generated server behaviour the client must write exactly the model's frames with the right contents and return Ok only after OpenOk (then usable, exposing Start's server properties), otherwise the specific error; a timeout error may not come early.",
         "Where the property text leaves two readings open (silence, socket error or malformed data while waiting for the reply to StartOk) both InvalidCredentials and the specific error are accepted. Timeouts use the real clock (40-240 ms); lateness beyond 1.5 s is inconclusive, never a violation. Frames glued after OpenOk are not generated.",
         "DESIGN.md 4/C16"),
 "C04": ("property-based testing with a reply-reordering broker: generated per-channel call programs on concurrent client threads, replies (unique values per channel and sequence number) held and released in a generated cross-channel order; oracle = expectation table shared with C12",
         "Exploration: every call must return exactly the values of the reply generated for its channel and sequence number, however replies are delayed, reordered and glued; nowait variants return without a reply; the wire per channel equals the expected frames.",
         "Client threads are scheduled by the OS (sampled); the broker owns reply order and timing. At most one outstanding call per channel is a type-system fact.",
         "DESIGN.md 4/C04"),
 "C09": ("property-based testing: the C04 sessions plus one generated server-initiated Channel.Close (idle / call in flight / half-received content, optionally glued to other channels' replies); plus sessions in which Channel::close crosses the server's Channel.Close and is answered with CloseOk; oracle = per-channel reference of results, errors and wire prefix",
         "Exploration: on the closed channel results before the close equal the expectation, the failing call carries ServerClosedChannel{n, code, text}, later calls fail, the wire is a prefix plus exactly one CloseOk; all other channels keep the C04 oracle, the id is reusable, the session closes Ok.",
         "The ServerClosedChannel error is handed to exactly one call; when that call is the implicit cancel inside Consumer::drop (whose result Drop discards) the next visible error may be EventLoopDropped, which is then accepted.",
         "DESIGN.md 4/C09"),
 "C20": ("schedule-controlled property-based testing: the harness parks the I/O thread inside the mock transport's write and owns the composition and order of the next poll batch; all 190 ordered event subsets enumerated, request variants generated; differential oracle against serial executions on the same build",
         "Exploration, exhaustive over event-set shapes: no I/O-thread panic, Connection::close reports the server's close, every racing request returns what some serial execution (or the close's error) yields.",
         "The achieved batch composition is measured with the passive cfg(amiquip_verif) batch trace (used for non-triviality accounting only). Request enqueue order relies on 3 ms pauses while the I/O thread is parked; cases whose intended order was not achieved are counted as trivial, never as failures. Shapes with Channel.Close after the server's own Connection.Close are normalised (a compliant server cannot send them).",
         "DESIGN.md 4/C20"),
 "C03": ("property-based testing of the real client against generated server histories on a mock transport (proptest, custom runner) + model-based probe of the content collector",
         "Exploration: generated valid server histories (channels x consumers x get/return, arbitrary body framing, cross-channel interleaving, read segmentation down to single bytes, an undrained consumer) are played to the real I/O thread; every receiver must yield exactly the scripted messages once, in order, field by field. The collector is additionally compared with a reference collector at 10^5-10^6 sequences.",
         "Trusts amq-protocol's codec for generating server frames, OS scheduling of the per-channel client threads (sampled, not enumerated). Bodies <= 12 KB end to end, <= 20 KB in the probe.",
         "DESIGN.md 4/C03"),
 "C06": ("property-based testing of FrameBuffer through a cfg(amiquip_verif) re-export: generated frame streams x two generated cut scripts; oracle = independent envelope split + promptness + metamorphic equality; plus generated whole sessions whose read boundary falls around the handshake/steady-state hand-over",
         "Exploration: streams of real frames of every kind (plus malformed / EOF / I/O-error tails) are fed under arbitrary read segmentations; frames handed over, their timing (promptness per read_from call), byte counts and the terminal error must equal the reference, and two segmentations of one stream must agree; a read_from call may return Ok only once the transport has answered would-block (the I/O loop calls it once per readiness edge; an early return is reported only after a live session on the mock transport has shown frames or the stream's end to be late there too). A part `burst` applies the same oracle to streams of up to 400 KiB and several thousand frames read mostly without would-block. A further part runs whole sessions in which server frames follow OpenOk with the read boundary anywhere inside them: the session must open, work and close (or report the server's close, answered exactly once) wherever the cut falls.",
         "Hook: amiquip::verif::FrameBuffer (re-export). Frames <= 20 KB, streams <= 400 KiB. The client's reaction to segmentations in the steady state is exercised by C03's segmentations.",
         "DESIGN.md 4/C06"),
 "C07": ("property-based testing with a reference reader: generated sequences over an alphabet of server frames (one production per dispatch arm) played to the real client; model-based probe of the collector incl. extreme announced sizes; a batch part that makes a protocol violation and client requests arrive in one wake-up of the I/O thread; process aborts caught by subprocess + journal replay",
         "Exploration: safety (no panic, no abort, observed messages are a prefix of the compliant reading, every call returns) on every sequence, and exact error / hard-error code classification whenever the first irregularity is one the property names.",
         "Reference reader written from the property text and AMQP content-framing rules; irregularities the property does not name (unsolicited replies, heartbeat on a non-zero channel, CloseOk for unknown channels) get the safety oracle only. A non-content method between a content method and its header is treated as not named.",
         "DESIGN.md 4/C07"),
 "C10": ("model-based property testing (proptest op sequences + bounded-exhaustive enumeration for channel_max<=3) of the channel-id table through a cfg(amiquip_verif) probe against a BTreeSet model",
         "Exploration, exhaustive for tiny tables: all sequences of 4 (quick) / 5 (thorough) primitive ops for channel_max <= 3, random sequences with macro ops up to the full 16-bit id space; after every op the returned id / error and the open set must equal the model's; no panic, no id 0.",
         "Hook: amiquip::verif::SlotsProbe wrapping ChannelSlots<()>. The end-to-end path (Connection::open_channel) shares this table; its request/response plumbing is exercised by C04/C09/C15.",
         "DESIGN.md 4/C10"),
 "C11": ("stateful property-based testing: generated histories of consumer/channel/connection lifecycle events driven against the real client with FIFO barriers; oracle = per-consumer reference model of deliveries and the one terminal message",
         "Exploration: histories of up to 40 events over 3 channels; every consumer queue must carry exactly the model's deliveries, then exactly one terminal naming the first cause, then disconnect (probed live, while the channel is still open, right after every server cancel and explicit client cancel, and again at the end of the session); wire-level cancel accounting.",
         "Single driver thread (the broker script is the only source of order); cross-thread races of cancel vs. delivery are sampled only through the drop-without-receiver variant.",
         "DESIGN.md 4/C11"),
 "C12": ("property-based testing of every public entry point: generated op programs run against the real client, decoded wire compared with an independently written expectation table; bounded-exhaustive over the 48 settle variants",
         "Exploration: each op (all wrapper levels, all flag combinations over the run, arbitrary strings/tables/numerics) must put exactly the expected method frames on the right channel and return the broker's values; cross-channel settles must panic and send nothing.",
         "Expectation table written from the AMQP method definitions and rustdoc, not from channel.rs. amq-protocol 1.4's parser misreads hyphenated flags (no-ack, no-local, if-unused, if-empty, auto-delete); those flag octets are decoded by hand in codec.rs.",
         "DESIGN.md 4/C12"),
 "C15": ("bounded-exhaustive enumeration of the 57 600-point boundary grid + random points through a cfg(amiquip_verif) hook against an independent spec function; sampled end-to-end sessions",
         "Exploration, exhaustive on the boundary grid: TuneOk / FrameMaxTooSmall must equal the spec for every grid point; end to end the TuneOk on the wire, the channel_max limit and the frame size limit are obeyed.",
         "Hook: amiquip::verif::tune_ok. The heartbeat-timing clause is decided by C17's machinery (real clock).",
         "DESIGN.md 4/C15"),
 "C19": ("property-based testing with URLs assembled from generated components (expected decoding known by construction) through a cfg(amiquip_verif) hook; loopback TCP sessions for the end-to-end half",
         "Exploration: every assembled URL must decode to the components it was built from (or to one of the specific errors its defects allow); Connection::open must reject every decodable amqp:// URL with InsecureUrl; sampled loopback connections must present the URL's credentials, vhost and tuning.",
         "Hook: amiquip::verif::decode_url. Ambiguous shapes are not generated (explicitly empty user/password, dot path segments, '+'-signed numbers, trailing-slash paths, spellings of external other than 'external'). The loopback part names its broker as 127.0.0.1, as [::1] where an IPv6 loopback exists, and by a host name with three addresses where the harness can bind its own DNS responder on 127.0.0.1:53 (the sandbox's resolv.conf points there; the socket lives only as long as the check process); otherwise these cases fall back to 127.0.0.1 and say so in their class label.",
         "DESIGN.md 4/C19"),
 "C02": ("property-based testing (proptest strategies, custom runner) of the real client on a mock transport; oracle = independent envelope parser + field-by-field comparison with the publish arguments",
         "Exploration: generated publishes (all frame_max pairs, boundary body lengths, arbitrary properties/flags, optionally a fragmenting transport) run end-to-end through the real I/O thread; the decoded wire must equal the reference framing of every publish. A second part publishes while the server cancels consumers of the publishing channel, so that the I/O thread writes CancelOk on it: no such frame may stand inside a publish. Bounded sampling, no proof.",
         "Trusts amq-protocol's payload codec, mio/mio-extras/crossbeam semantics and the harness's envelope parser; bodies <= 300 KB, <= 3 channels, one publishing thread per session.",
         "DESIGN.md 4/C02"),
 "C14": ("model-based property testing (bounded-exhaustive enumeration for n<=4/5 tags + proptest random histories) against a reference smoother model",
         "Exploration, exhaustive for small n: every complete history of up to 4 (quick) / 5 (thorough) tags is enumerated, larger ones sampled; each output must equal the reference model's emission, including under early iterator drops; arbitrary duplicate/stale histories get the safety oracle.",
         "Public API only (no hook); smoothers for histories starting at 1 are built by new(), default() or with_expected_delivery_tag(1) in turn. Start tags are kept below 2^64-1000 so all tags are representable.",
         "DESIGN.md 4/C14"),
}

ALL = ["C%02d" % i for i in range(1, 21)]
checks = []
for pid in ALL:
    if pid not in CLAIMED:
        continue
    tech, text, note, ref = CLAIMED[pid]
    checks.append({
        "property_id": pid,
        "quick_cmd": "./check %s --tier quick" % pid,
        "thorough_cmd": "./check %s --tier thorough" % pid,
        "evidence_file": "/verif/evidence/%s.json" % pid,
        "replay_cmd_template": "./check %s --replay {path}" % pid,
        "engine": "avh",
        "level_claimed": {"category": "exploration", "text": text, "design_ref": ref},
        "level_note": note,
        "technique": tech,
    })
na = [{"property_id": p, "reason": "check not built yet in this round (work in progress; see DESIGN.md section 8 build order)"}
      for p in ALL if p not in CLAIMED]
m = {
 "version": 1,
 "setup_cmd": "cd /verif/harness && CARGO_NET_OFFLINE=true cargo build --release --quiet",
 "hooks": {
   "guard": "--cfg amiquip_verif",
   "enable": "RUSTFLAGS=--cfg amiquip_verif via /verif/harness/.cargo/config.toml ([build] rustflags); amiquip is a path dependency on /repo so every check rebuilds from the working tree",
   "baseline_off_cmd": "cd /repo && cargo test --workspace --no-fail-fast --offline",
   "source_commits": [l.split()[0] for l in HOOK_COMMITS],
   "add_only": True,
 },
 "engines": [{"name": "avh", "path": "/verif/harness", "serves_properties": sorted(CLAIMED),
              "kind_free_text": "Rust harness: proptest strategies driven by a custom per-case-seeded runner with shrinking and JSON replay files; mock mio transport + scripted AMQP broker for end-to-end cases; cfg(amiquip_verif) probes for in-process cases"}],
 "checks": checks,
 "not_applicable": na,
 "notes": "Exit codes: 0 held, 1 VIOLATION, 2 inconclusive (build failure, watchdog, too few non-trivial cases). Known findings: /verif/known_findings.json.",
}
json.dump(m, open("/verif/MANIFEST.json", "w"), indent=1)
print("claimed", len(checks), "not_applicable", len(na))
