#!/usr/bin/env python3
"""Regenerates MANIFEST.json from the table below (keeps it schema-valid at all times)."""
import json, subprocess

HOOK_COMMITS = subprocess.run(["git", "-C", "/repo", "log", "--format=%h %s", "--grep=^verif hooks"],
                              capture_output=True, text=True).stdout.strip().splitlines()

# id -> (technique, level text, level note, design ref)
CLAIMED = {
 "C02": ("property-based testing (proptest strategies, custom runner) of the real client on a mock transport; oracle = independent envelope parser + field-by-field comparison with the publish arguments",
         "Exploration: generated publishes (all frame_max pairs, boundary body lengths, arbitrary properties/flags) run end-to-end through the real I/O thread; the decoded wire must equal the reference framing of every publish. Bounded sampling, no proof.",
         "Trusts amq-protocol's payload codec, mio/mio-extras/crossbeam semantics and the harness's envelope parser; bodies <= 300 KB, <= 3 channels, one publishing thread per session.",
         "DESIGN.md 4/C02"),
 "C14": ("model-based property testing (bounded-exhaustive enumeration for n<=4/5 tags + proptest random histories) against a reference smoother model",
         "Exploration, exhaustive for small n: every complete history of up to 4 (quick) / 5 (thorough) tags is enumerated, larger ones sampled; each output must equal the reference model's emission, including under early iterator drops; arbitrary duplicate/stale histories get the safety oracle.",
         "Public API only (no hook). Start tags are kept below 2^64-1000 so all tags are representable.",
         "DESIGN.md 4/C14"),
}

ALL = ["C%02d" % i for i in range(1, 21)]
checks = []
for pid in ALL:
    if pid not in CLAIMED:
        continue
    tech, text, note, ref = CLAIMED[pid]
    checks.append({
        "property_id": pid,
        "quick_cmd": "./check %s --tier quick" % pid,
        "thorough_cmd": "./check %s --tier thorough" % pid,
        "evidence_file": "/verif/evidence/%s.json" % pid,
        "replay_cmd_template": "./check %s --replay {path}" % pid,
        "engine": "avh",
        "level_claimed": {"category": "exploration", "text": text, "design_ref": ref},
        "level_note": note,
        "technique": tech,
    })
na = [{"property_id": p, "reason": "check not built yet in this round (work in progress; see DESIGN.md section 8 build order)"}
      for p in ALL if p not in CLAIMED]
m = {
 "version": 1,
 "setup_cmd": "cd /verif/harness && CARGO_NET_OFFLINE=true cargo build --release --quiet",
 "hooks": {
   "guard": "--cfg amiquip_verif",
   "enable": "RUSTFLAGS=--cfg amiquip_verif via /verif/harness/.cargo/config.toml ([build] rustflags); amiquip is a path dependency on /repo so every check rebuilds from the working tree",
   "baseline_off_cmd": "cd /repo && cargo test --workspace --no-fail-fast --offline",
   "source_commits": [l.split()[0] for l in HOOK_COMMITS],
   "add_only": True,
 },
 "engines": [{"name": "avh", "path": "/verif/harness", "serves_properties": sorted(CLAIMED),
              "kind_free_text": "Rust harness: proptest strategies driven by a custom per-case-seeded runner with shrinking and JSON replay files; mock mio transport + scripted AMQP broker for end-to-end cases; cfg(amiquip_verif) probes for in-process cases"}],
 "checks": checks,
 "not_applicable": na,
 "notes": "Exit codes: 0 held, 1 VIOLATION, 2 inconclusive (build failure, watchdog, too few non-trivial cases). Known findings: /verif/known_findings.json.",
}
json.dump(m, open("/verif/MANIFEST.json", "w"), indent=1)
print("claimed", len(checks), "not_applicable", len(na))
