#!/bin/bash
export VERIF_EVIDENCE_DIR=/verif/work/mutation-evidence; mkdir -p $VERIF_EVIDENCE_DIR
# usage: seed_eval.sh <worktree-id> <seeded-name> <check ids...>
# 1. confirms the sub-agent's claims in its scratch worktree, 2. stores the mutation under
# /verif/seeded/<seeded-name>/, 3. applies it to /repo, runs the checks, reverts.
wt=/tmp/seed/$1; name=$2; shift 2
cd $wt || exit 3
git checkout -q -- . ; git clean -fdq -e SEEDED
S=$wt/SEEDED
echo "== confirm in $wt"
git apply $S/demo.diff || { echo "demo.diff does not apply"; exit 3; }
base=$(cargo test --offline 2>&1 | grep -E "^test result" | tr '\n' ' ')
echo "HEAD+demo: $base"
git apply $S/patch.diff || { echo "patch.diff does not apply"; exit 3; }
mut=$(cargo test --offline 2>&1 | grep -E "^test result|^test .* FAILED" | tr '\n' ' ')
echo "PATCH+demo: $mut"
git checkout -q -- . ; git clean -fdq -e SEEDED
git apply $S/patch.diff
only=$(cargo test --offline 2>&1 | grep -E "^test result" | tr '\n' ' ')
echo "PATCH only (existing tests): $only"
git checkout -q -- . ; git clean -fdq -e SEEDED
mkdir -p /verif/seeded/$name
cp $S/patch.diff /verif/seeded/$name/patch.diff
cp $S/demo.diff /verif/seeded/$name/demo.diff
cp $S/NOTES.md /verif/seeded/$name/NOTES.md 2>/dev/null
echo "== run checks against /repo with the patch"
git -C /repo apply $S/patch.diff || { echo "patch does not apply to /repo"; exit 3; }
for id in "$@"; do
  t0=$(date +%s)
  out=$(/verif/check $id 2>&1)
  echo "$id: $(echo "$out" | grep -E '^(VIOLATION|OK|INCONCLUSIVE|BUILD-FAILED|  part=|  signature=)' | head -4 | tr '\n' ' ') [$(( $(date +%s) - t0 ))s]"
done
git -C /repo checkout -- .
git -C /repo status --short
