#!/bin/bash
# usage: seed_apply.sh <patch.diff> <check ids...>  : apply a seeded change to /repo, run checks (quick), revert
export VERIF_EVIDENCE_DIR=/verif/work/mutation-evidence; mkdir -p $VERIF_EVIDENCE_DIR
p=$1; shift
[ -z "$(git -C /repo status --short)" ] || { echo "refusing: /repo dirty"; exit 3; }
git -C /repo apply $p || { echo "patch does not apply to /repo"; exit 3; }
for id in "$@"; do
  t0=$(date +%s)
  out=$(/verif/check $id 2>&1)
  echo "$id: $(echo "$out" | grep -E '^(VIOLATION|OK|INCONCLUSIVE|BUILD-FAILED|  part=)' | head -3 | cut -c1-150 | tr '\n' ' ') [$(( $(date +%s) - t0 ))s]"
done
git -C /repo checkout -- .
